// facts.cc - fact extractor for the iauthd-c checks (libTooling, clang 14).
// Emits, per translation unit, records/enums/globals and every function's CFG with
// call/store/decl/return events and normalised expression trees (see DESIGN.md 3.1).
// One JSON document per translation unit on stdout (or -o file).
#include "clang/AST/ASTConsumer.h"
#include "clang/AST/ASTContext.h"
#include "clang/AST/Expr.h"
#include "clang/AST/RecursiveASTVisitor.h"
#include "clang/AST/ParentMap.h"
#include "clang/Analysis/CFG.h"
#include "clang/Frontend/CompilerInstance.h"
#include "clang/Frontend/FrontendAction.h"
#include "clang/Lex/Lexer.h"
#include "clang/Tooling/CommonOptionsParser.h"
#include "clang/Tooling/Tooling.h"
#include "llvm/Support/CommandLine.h"
#include "llvm/Support/JSON.h"
#include "llvm/Support/raw_ostream.h"
#include <map>
#include <set>

using namespace clang;
using namespace clang::tooling;
namespace json = llvm::json;

static llvm::cl::OptionCategory Cat("facts");
static llvm::cl::opt<std::string> OutFile("o", llvm::cl::desc("output file"), llvm::cl::cat(Cat));

namespace {

struct Ctx {
  ASTContext &C;
  SourceManager &SM;
  std::map<const Stmt *, int> eventId; // call/store events already numbered
  int nextEvent = 0;
  explicit Ctx(ASTContext &C) : C(C), SM(C.getSourceManager()) {}

  // locals of the function being extracted: a second declaration of a name (another scope) gets a suffix, so that
  // two variables that merely share a spelling are two variables in the facts
  std::map<const VarDecl *, std::string> LocalNames;
  void collectLocals(const Stmt *S, std::map<std::string, int> &seen) {
    if (!S) return;
    if (auto *DS = dyn_cast<DeclStmt>(S))
      for (const Decl *D : DS->decls())
        if (auto *VD = dyn_cast<VarDecl>(D)) {
          std::string n = VD->getNameAsString();
          int k = ++seen[n];
          LocalNames[VD] = k == 1 ? n : n + "#" + std::to_string(k);
        }
    for (const Stmt *Ch : S->children()) collectLocals(Ch, seen);
  }
  std::string varName(const ValueDecl *VD) {
    if (auto *V = dyn_cast<VarDecl>(VD)) {
      auto it = LocalNames.find(V);
      if (it != LocalNames.end()) return it->second;
    }
    return VD->getNameAsString();
  }

  std::string loc(SourceLocation L) {
    if (L.isInvalid()) return "?";
    SourceLocation E = SM.getExpansionLoc(L);
    PresumedLoc P = SM.getPresumedLoc(E);
    if (P.isInvalid()) return "?";
    return (llvm::Twine(P.getFilename()) + ":" + llvm::Twine(P.getLine()) + ":" + llvm::Twine(P.getColumn())).str();
  }
  std::string macroName(SourceLocation L) {
    if (!L.isMacroID()) return "";
    // outermost macro
    SourceLocation Cur = L;
    std::string name;
    while (Cur.isMacroID()) {
      name = Lexer::getImmediateMacroName(Cur, SM, C.getLangOpts()).str();
      Cur = SM.getImmediateMacroCallerLoc(Cur);
    }
    return name;
  }
  std::string typeStr(QualType T) { return T.getAsString(C.getPrintingPolicy()); }
  std::string recordOf(QualType T) {
    T = T.getCanonicalType();
    while (T->isPointerType() || T->isArrayType()) {
      if (T->isPointerType()) T = T->getPointeeType().getCanonicalType();
      else T = C.getAsArrayType(T)->getElementType().getCanonicalType();
    }
    if (const RecordType *RT = T->getAs<RecordType>())
      return RT->getDecl()->getNameAsString();
    return "";
  }

  // array extent / pointee size annotations for lvalue nodes
  void sizes(json::Object &O, QualType T) {
    if (const ConstantArrayType *CAT = C.getAsConstantArrayType(T)) {
      O["arr"] = (int64_t)CAT->getSize().getZExtValue();
      QualType ET = CAT->getElementType();
      if (!ET->isIncompleteType()) O["elsz"] = (int64_t)C.getTypeSizeInChars(ET).getQuantity();
    } else if (T->isPointerType()) {
      QualType PT = T->getPointeeType();
      if (!PT->isIncompleteType() && !PT->isFunctionType() && !PT->isVoidType())
        O["psz"] = (int64_t)C.getTypeSizeInChars(PT).getQuantity();
    }
  }
  json::Value expr(const Expr *E);
  // X.bits[NN / W]: the NN expression
  json::Value bitIndex(const Expr *Idx);
  json::Value exprOrNull(const Expr *E) { return E ? expr(E) : json::Value(nullptr); }
};

static const Expr *strip(const Expr *E) {
  while (E) {
    if (auto *P = dyn_cast<ParenExpr>(E)) { E = P->getSubExpr(); continue; }
    if (auto *I = dyn_cast<ImplicitCastExpr>(E)) { E = I->getSubExpr(); continue; }
    if (auto *F = dyn_cast<FullExpr>(E)) { E = F->getSubExpr(); continue; }
    break;
  }
  return E;
}

// find an EnumConstantDecl referenced inside E (first one)
static const EnumConstantDecl *findEnumConst(const Stmt *S) {
  if (!S) return nullptr;
  if (auto *D = dyn_cast<DeclRefExpr>(S))
    if (auto *EC = dyn_cast<EnumConstantDecl>(D->getDecl())) return EC;
  for (const Stmt *Ch : S->children())
    if (auto *R = findEnumConst(Ch)) return R;
  return nullptr;
}

// Recognise X.bits[idx] ; returns X expr and idx
static bool isBitsSubscript(const Expr *E, const Expr *&Set, const Expr *&Idx) {
  E = strip(E);
  auto *AS = dyn_cast_or_null<ArraySubscriptExpr>(E);
  if (!AS) return false;
  const Expr *B = strip(AS->getBase());
  auto *ME = dyn_cast_or_null<MemberExpr>(B);
  if (!ME) return false;
  if (ME->getMemberDecl()->getName() != "bits") return false;
  Set = ME->getBase();
  Idx = AS->getIdx();
  return true;
}

json::Value Ctx::bitIndex(const Expr *Idx) {
  const Expr *E = strip(Idx);
  if (auto *BO = dyn_cast_or_null<BinaryOperator>(E))
    if (BO->getOpcode() == BO_Div) return expr(BO->getLHS());
  return expr(Idx);
}

json::Value Ctx::expr(const Expr *E0) {
  const Expr *E = strip(E0);
  json::Object O;
  if (!E) return json::Value(nullptr);
  // constant value if any (but keep structure for enums/strings)
  Expr::EvalResult R;
  bool isConst = false;
  long long cv = 0;
  if (!E->isValueDependent() && E->getType()->isIntegralOrEnumerationType() &&
      E->EvaluateAsInt(R, C)) {
    isConst = true;
    cv = R.Val.getInt().getExtValue();
  }
  if (auto *D = dyn_cast<DeclRefExpr>(E)) {
    const ValueDecl *VD = D->getDecl();
    if (auto *EC = dyn_cast<EnumConstantDecl>(VD)) {
      O["k"] = "enum"; O["name"] = EC->getNameAsString(); O["v"] = (int64_t)EC->getInitVal().getExtValue();
      if (auto *ED = dyn_cast<EnumDecl>(EC->getDeclContext())) O["enum"] = ED->getNameAsString();
      return std::move(O);
    }
    if (isa<FunctionDecl>(VD)) { O["k"] = "func"; O["name"] = VD->getNameAsString(); return std::move(O); }
    O["k"] = "var"; O["name"] = varName(VD);
    std::string sc = "global";
    if (auto *V = dyn_cast<VarDecl>(VD)) {
      if (isa<ParmVarDecl>(V)) sc = "param";
      else if (V->isStaticLocal()) sc = "static_local";
      else if (V->isLocalVarDecl()) sc = "local";
      else if (V->getStorageClass() == SC_Static) sc = "file_static";
    }
    O["sc"] = sc; O["t"] = typeStr(VD->getType());
    std::string rec = recordOf(VD->getType()); if (!rec.empty()) O["rec"] = rec;
    sizes(O, VD->getType());
    return std::move(O);
  }
  if (auto *IL = dyn_cast<IntegerLiteral>(E)) { O["k"] = "int"; O["v"] = (int64_t)IL->getValue().getSExtValue(); return std::move(O); }
  if (auto *CL = dyn_cast<CharacterLiteral>(E)) { O["k"] = "chr"; O["v"] = (int64_t)CL->getValue(); return std::move(O); }
  if (auto *SL = dyn_cast<StringLiteral>(E)) { O["k"] = "str"; O["v"] = SL->getBytes().str(); return std::move(O); }
  if (isa<FloatingLiteral>(E)) { O["k"] = "flt"; return std::move(O); }
  if (auto *ME = dyn_cast<MemberExpr>(E)) {
    O["k"] = "mem"; O["base"] = expr(ME->getBase()); O["field"] = ME->getMemberDecl()->getNameAsString();
    if (auto *FD = dyn_cast<FieldDecl>(ME->getMemberDecl())) O["rec"] = FD->getParent()->getNameAsString();
    O["arrow"] = ME->isArrow(); O["t"] = typeStr(ME->getType());
    sizes(O, ME->getType());
    return std::move(O);
  }
  if (auto *AS = dyn_cast<ArraySubscriptExpr>(E)) {
    O["k"] = "idx"; O["base"] = expr(AS->getBase()); O["index"] = expr(AS->getIdx()); O["t"] = typeStr(AS->getType());
    return std::move(O);
  }
  if (auto *UO = dyn_cast<UnaryOperator>(E)) {
    if (isConst) { O["k"] = "int"; O["v"] = (int64_t)cv; return std::move(O); }
    // ~(1 << c) handled by caller; generic here
    O["k"] = "un"; O["op"] = UnaryOperator::getOpcodeStr(UO->getOpcode()).str();
    O["e"] = expr(UO->getSubExpr());
    if (UO->getOpcode() == UO_AddrOf) {
      QualType ST = UO->getSubExpr()->getType();
      if (!ST->isIncompleteType() && !ST->isFunctionType()) O["size"] = (int64_t)C.getTypeSizeInChars(ST).getQuantity();
    }
    if (UO->isIncrementDecrementOp()) { auto it = eventId.find(UO); if (it != eventId.end()) O["ev"] = it->second; if (UO->isPostfix()) O["postfix"] = true; }
    return std::move(O);
  }
  if (auto *BO = dyn_cast<BinaryOperator>(E)) {
    // bit test idiom: X.bits[i] & (1 << c)
    if (BO->getOpcode() == BO_And) {
      const Expr *Set, *Idx;
      const Expr *L = BO->getLHS(), *Rr = BO->getRHS();
      if (isBitsSubscript(L, Set, Idx)) {
        O["k"] = "bittest"; O["set"] = expr(Set);
        if (auto *EC = findEnumConst(Idx)) O["bit"] = EC->getNameAsString();
        else if (auto *EC2 = findEnumConst(Rr)) O["bit"] = EC2->getNameAsString();
        else O["bitexpr"] = bitIndex(Idx);
        return std::move(O);
      }
    }
    if (isConst && !BO->isAssignmentOp()) { O["k"] = "int"; O["v"] = (int64_t)cv; return std::move(O); }
    O["k"] = "bin"; O["op"] = BO->getOpcodeStr().str(); O["l"] = expr(BO->getLHS()); O["r"] = expr(BO->getRHS());
    O["ty"] = typeStr(BO->getType());
    if (BO->isAssignmentOp()) { auto it = eventId.find(BO); if (it != eventId.end()) O["ev"] = it->second; }
    return std::move(O);
  }
  if (auto *CO = dyn_cast<ConditionalOperator>(E)) {
    O["k"] = "cond"; O["c"] = expr(CO->getCond()); O["t"] = expr(CO->getTrueExpr()); O["f"] = expr(CO->getFalseExpr());
    return std::move(O);
  }
  if (auto *CE = dyn_cast<CallExpr>(E)) {
    O["k"] = "callref";
    O["ty"] = typeStr(CE->getType());
    auto it = eventId.find(CE);
    if (it != eventId.end()) O["ev"] = it->second;
    if (const FunctionDecl *FD = CE->getDirectCallee()) O["callee"] = FD->getNameAsString();
    json::Array A; for (const Expr *Arg : CE->arguments()) A.push_back(expr(Arg)); O["args"] = std::move(A);
    return std::move(O);
  }
  if (auto *CS = dyn_cast<CStyleCastExpr>(E)) {
    if (isConst) { O["k"] = "int"; O["v"] = (int64_t)cv; return std::move(O); }
    json::Value In = expr(CS->getSubExpr());
    if (auto *Obj = In.getAsObject()) { (*Obj)["castto"] = typeStr(CS->getType()); return In; }
    return In;
  }
  if (auto *UE = dyn_cast<UnaryExprOrTypeTraitExpr>(E)) {
    if (isConst) { O["k"] = "int"; O["v"] = (int64_t)cv; O["sizeof"] = true; return std::move(O); }
  }
  if (auto *IL = dyn_cast<InitListExpr>(E)) {
    O["k"] = "init"; json::Array A; for (const Expr *I : IL->inits()) A.push_back(expr(I)); O["items"] = std::move(A);
    if (const RecordType *RT = IL->getType()->getAs<RecordType>()) {
      O["rec"] = RT->getDecl()->getNameAsString();
      json::Object FM; unsigned i = 0;
      for (const FieldDecl *FD : RT->getDecl()->fields()) {
        if (i < IL->getNumInits() && !isa<ImplicitValueInitExpr>(IL->getInit(i))) FM[FD->getNameAsString()] = expr(IL->getInit(i));
        ++i;
      }
      O["fields"] = std::move(FM);
    }
    return std::move(O);
  }
  if (auto *SE = dyn_cast<StmtExpr>(E)) { O["k"] = "stmtexpr"; return std::move(O); }
  if (isa<VAArgExpr>(E)) { O["k"] = "va_arg"; return std::move(O); }
  if (isConst) { O["k"] = "int"; O["v"] = (int64_t)cv; return std::move(O); }
  O["k"] = "other"; O["cls"] = E->getStmtClassName();
  return std::move(O);
}

struct FnExtractor {
  Ctx &X;
  explicit FnExtractor(Ctx &X) : X(X) {}

  json::Value slotOf(const Expr *Callee) {
    const Expr *E = strip(Callee);
    if (auto *UO = dyn_cast_or_null<UnaryOperator>(E))
      if (UO->getOpcode() == UO_Deref) E = strip(UO->getSubExpr());
    if (auto *ME = dyn_cast_or_null<MemberExpr>(E))
      if (auto *FD = dyn_cast<FieldDecl>(ME->getMemberDecl()))
        return (FD->getParent()->getNameAsString() + "::" + FD->getNameAsString());
    if (auto *D = dyn_cast_or_null<DeclRefExpr>(E))
      return ("var::" + X.varName(D->getDecl()));
    return "unknown";
  }

  // Build the event (if any) for a CFG statement element.
  bool event(const Stmt *S, json::Object &Ev) {
    if (auto *CE = dyn_cast<CallExpr>(S)) {
      int id = X.nextEvent++; X.eventId[CE] = id;
      Ev["id"] = id; Ev["k"] = "call"; Ev["loc"] = X.loc(CE->getBeginLoc());
      std::string m = X.macroName(CE->getBeginLoc()); if (!m.empty()) Ev["macro"] = m;
      if (const FunctionDecl *FD = CE->getDirectCallee()) Ev["callee"] = FD->getNameAsString();
      else { Ev["slot"] = slotOf(CE->getCallee()); Ev["fexpr"] = X.expr(CE->getCallee()); }
      json::Array A; for (const Expr *Arg : CE->arguments()) A.push_back(X.expr(Arg)); Ev["args"] = std::move(A);
      return true;
    }
    if (auto *BO = dyn_cast<BinaryOperator>(S)) {
      if (!BO->isAssignmentOp()) return false;
      int id = X.nextEvent++; X.eventId[BO] = id;
      Ev["id"] = id; Ev["k"] = "store"; Ev["loc"] = X.loc(BO->getOperatorLoc());
      std::string m = X.macroName(BO->getOperatorLoc()); if (!m.empty()) Ev["macro"] = m;
      Ev["op"] = BO->getOpcodeStr().str();
      // bit set / clear idioms
      const Expr *Set, *Idx;
      if ((BO->getOpcode() == BO_OrAssign || BO->getOpcode() == BO_AndAssign) && isBitsSubscript(BO->getLHS(), Set, Idx)) {
        Ev["k"] = BO->getOpcode() == BO_OrAssign ? "bitset" : "bitclear";
        Ev["set"] = X.expr(Set);
        if (auto *EC = findEnumConst(Idx)) Ev["bit"] = EC->getNameAsString();
        else if (auto *EC2 = findEnumConst(BO->getRHS())) Ev["bit"] = EC2->getNameAsString();
        else Ev["bitexpr"] = X.bitIndex(Idx);
        return true;
      }
      Ev["lhs"] = X.expr(BO->getLHS()); Ev["rhs"] = X.expr(BO->getRHS());
      return true;
    }
    if (auto *UO = dyn_cast<UnaryOperator>(S)) {
      if (!UO->isIncrementDecrementOp()) return false;
      int id = X.nextEvent++; X.eventId[UO] = id;
      Ev["id"] = id; Ev["k"] = "store"; Ev["loc"] = X.loc(UO->getOperatorLoc());
      Ev["op"] = UO->isIncrementOp() ? "++" : "--"; Ev["prefix"] = UO->isPrefix();
      Ev["lhs"] = X.expr(UO->getSubExpr());
      return true;
    }
    if (auto *RS = dyn_cast<ReturnStmt>(S)) {
      Ev["id"] = X.nextEvent++; Ev["k"] = "ret"; Ev["loc"] = X.loc(RS->getReturnLoc());
      Ev["val"] = X.exprOrNull(RS->getRetValue());
      return true;
    }
    if (auto *DS = dyn_cast<DeclStmt>(S)) {
      // one event per initialised variable (CFG splits multi-decl statements)
      for (const Decl *D : DS->decls())
        if (auto *VD = dyn_cast<VarDecl>(D)) {
          Ev["id"] = X.nextEvent++; Ev["k"] = "decl"; Ev["loc"] = X.loc(VD->getLocation());
          Ev["var"] = X.varName(VD); Ev["t"] = X.typeStr(VD->getType());
          Ev["static"] = VD->isStaticLocal();
          if (VD->getType()->isArrayType())
            if (auto *CAT = X.C.getAsConstantArrayType(VD->getType())) Ev["array"] = (int64_t)CAT->getSize().getZExtValue();
          Ev["init"] = X.exprOrNull(VD->getInit());
          return true;
        }
    }
    return false;
  }

  json::Value function(const FunctionDecl *F) {
    json::Object FO;
    FO["name"] = F->getNameAsString();
    FO["loc"] = X.loc(F->getLocation());
    FO["endloc"] = X.loc(F->getEndLoc());
    FO["static"] = F->getStorageClass() == SC_Static;
    FO["ret"] = X.typeStr(F->getReturnType());
    std::string m = X.macroName(F->getLocation()); if (!m.empty()) FO["macro"] = m;
    json::Array Ps;
    for (const ParmVarDecl *P : F->parameters()) {
      json::Object PO; PO["name"] = P->getNameAsString(); PO["t"] = X.typeStr(P->getType());
      std::string rec = X.recordOf(P->getType()); if (!rec.empty()) PO["rec"] = rec;
      Ps.push_back(std::move(PO));
    }
    FO["params"] = std::move(Ps);
    X.LocalNames.clear();
    {
      std::map<std::string, int> seen;
      for (const ParmVarDecl *P : F->parameters()) seen[P->getNameAsString()] = 1;
      X.collectLocals(F->getBody(), seen);
    }

    CFG::BuildOptions BO;
    BO.setAllAlwaysAdd();
    BO.PruneTriviallyFalseEdges = false;
    std::unique_ptr<CFG> cfg = CFG::buildCFG(F, F->getBody(), &X.C, BO);
    if (!cfg) { FO["cfg_error"] = true; return std::move(FO); }
    FO["entry"] = (int64_t)cfg->getEntry().getBlockID();
    FO["exit"] = (int64_t)cfg->getExit().getBlockID();
    json::Array Blocks;
    // iterate in reverse so that entry comes first
    for (auto It = cfg->rbegin(); It != cfg->rend(); ++It) {
      const CFGBlock *B = *It;
      json::Object BOo; BOo["id"] = (int64_t)B->getBlockID();
      json::Array Evs;
      for (const CFGElement &El : *B) {
        if (auto St = El.getAs<CFGStmt>()) {
          json::Object Ev;
          if (event(St->getStmt(), Ev)) Evs.push_back(std::move(Ev));
        }
      }
      BOo["events"] = std::move(Evs);
      if (B->hasNoReturnElement()) BOo["noreturn"] = true;
      if (const Stmt *L = B->getLabel()) {
        if (auto *CS = dyn_cast<CaseStmt>(L)) {
          Expr::EvalResult R; json::Object LO; LO["k"] = "case";
          if (CS->getLHS()->EvaluateAsInt(R, X.C)) LO["v"] = (int64_t)R.Val.getInt().getExtValue();
          // chained case labels: case 'a': case 'b': share one block
          json::Array Vs; const Stmt *Cur = CS;
          while (auto *C2 = dyn_cast_or_null<CaseStmt>(Cur)) { Expr::EvalResult R2; if (C2->getLHS()->EvaluateAsInt(R2, X.C)) Vs.push_back((int64_t)R2.Val.getInt().getExtValue()); Cur = C2->getSubStmt(); }
          if (isa_and_nonnull<DefaultStmt>(Cur)) LO["also_default"] = true;
          LO["vs"] = std::move(Vs);
          BOo["label"] = std::move(LO);
        } else if (isa<DefaultStmt>(L)) { json::Object LO; LO["k"] = "default"; BOo["label"] = std::move(LO); }
        else if (auto *LS = dyn_cast<LabelStmt>(L)) { json::Object LO; LO["k"] = "label"; LO["name"] = LS->getName(); BOo["label"] = std::move(LO); }
      }
      // terminator
      const Stmt *T = B->getTerminatorStmt();
      if (T) {
        json::Object TO; TO["cls"] = T->getStmtClassName(); TO["loc"] = X.loc(T->getBeginLoc());
        if (const Expr *Cnd = B->getLastCondition()) TO["cond"] = X.expr(Cnd);
        if (auto *BinT = dyn_cast<BinaryOperator>(T)) TO["op"] = BinT->getOpcodeStr().str();
        BOo["term"] = std::move(TO);
      }
      json::Array Succs;
      unsigned idx = 0;
      for (auto SI = B->succ_begin(); SI != B->succ_end(); ++SI, ++idx) {
        const CFGBlock *S = SI->getReachableBlock();
        if (!S) S = SI->getPossiblyUnreachableBlock();
        json::Object SO;
        if (!S) { SO["to"] = nullptr; }
        else SO["to"] = (int64_t)S->getBlockID();
        std::string lab = "fall";
        if (T && B->succ_size() == 2 && !isa<SwitchStmt>(T)) lab = idx == 0 ? "true" : "false";
        else if (T && isa<SwitchStmt>(T)) {
          lab = "default";
          if (S) if (const Stmt *L = S->getLabel()) if (isa<CaseStmt>(L)) {
            lab = "case"; json::Array Vs; const Stmt *Cur = L; bool alsoDef = false;
            // every case label has its own CFG block (falling through to the next): the edge carries
            // the outermost label's value only
            if (auto *C2 = dyn_cast<CaseStmt>(Cur)) { Expr::EvalResult R2; if (C2->getLHS()->EvaluateAsInt(R2, X.C)) Vs.push_back((int64_t)R2.Val.getInt().getExtValue()); }
            (void)alsoDef;
            SO["vs"] = std::move(Vs); if (alsoDef) SO["also_default"] = true;
          }
        }
        SO["label"] = lab;
        Succs.push_back(std::move(SO));
      }
      BOo["succs"] = std::move(Succs);
      Blocks.push_back(std::move(BOo));
    }
    FO["blocks"] = std::move(Blocks);
    return std::move(FO);
  }
};

struct Visitor : RecursiveASTVisitor<Visitor> {
  Ctx &X; json::Object &Out;
  json::Array Fns, Globals; json::Object Records, Enums;
  Visitor(Ctx &X, json::Object &Out) : X(X), Out(Out) {}
  bool inMain(SourceLocation L) { return X.SM.isInMainFile(X.SM.getExpansionLoc(L)); }

  bool VisitFunctionDecl(FunctionDecl *F) {
    if (!F->doesThisDeclarationHaveABody()) return true;
    bool fromHeader = false;
    if (!inMain(F->getLocation())) {
      // static (inline) helpers defined in the project's own headers belong to every unit that includes them
      if (X.SM.isInSystemHeader(X.SM.getExpansionLoc(F->getLocation())) || F->getStorageClass() != SC_Static) return true;
      fromHeader = true;
    }
    FnExtractor FE(X);
    json::Value FV = FE.function(F);
    if (fromHeader) if (auto *FO = FV.getAsObject()) (*FO)["from_header"] = true;
    Fns.push_back(std::move(FV));
    return true;
  }
  bool VisitVarDecl(VarDecl *V) {
    if (!V->hasGlobalStorage() || V->isStaticLocal()) return true;
    if (!inMain(V->getLocation()) ) return true;
    json::Object G; G["name"] = V->getNameAsString(); G["t"] = X.typeStr(V->getType()); G["loc"] = X.loc(V->getLocation());
    G["static"] = V->getStorageClass() == SC_Static; G["extern_decl"] = !V->isThisDeclarationADefinition();
    std::string rec = X.recordOf(V->getType()); if (!rec.empty()) G["rec"] = rec;
    if (auto *CAT = X.C.getAsConstantArrayType(V->getType())) G["array"] = (int64_t)CAT->getSize().getZExtValue();
    if (const Expr *I = V->getInit()) {
      // for aggregates with a record type, map fields to initialisers
      const Expr *IE = strip(I);
      if (auto *IL = dyn_cast_or_null<InitListExpr>(IE)) {
        if (const RecordType *RT = V->getType()->getAs<RecordType>()) {
          json::Object FM; unsigned i = 0;
          for (const FieldDecl *FD : RT->getDecl()->fields()) {
            if (i < IL->getNumInits() && !isa<ImplicitValueInitExpr>(IL->getInit(i))) FM[FD->getNameAsString()] = X.expr(IL->getInit(i));
            ++i;
          }
          G["fields"] = std::move(FM);
        } else G["init"] = X.expr(I);
      } else G["init"] = X.expr(I);
    }
    Globals.push_back(std::move(G));
    return true;
  }
  bool VisitRecordDecl(RecordDecl *R) {
    if (!R->isThisDeclarationADefinition() || R->getName().empty()) return true;
    json::Array Fs;
    for (const FieldDecl *FD : R->fields()) {
      json::Object FO; FO["name"] = FD->getNameAsString(); FO["t"] = X.typeStr(FD->getType());
      if (auto *CAT = X.C.getAsConstantArrayType(FD->getType())) FO["array"] = (int64_t)CAT->getSize().getZExtValue();
      if (FD->isBitField()) { FO["bitfield"] = true; FO["bitwidth"] = (int64_t)FD->getBitWidthValue(X.C); }
      std::string rec = X.recordOf(FD->getType()); if (!rec.empty()) FO["rec"] = rec;
      Fs.push_back(std::move(FO));
    }
    json::Object RO; RO["fields"] = std::move(Fs); RO["loc"] = X.loc(R->getLocation()); RO["union"] = R->isUnion();
    Records[R->getNameAsString()] = std::move(RO);
    return true;
  }
  bool VisitEnumDecl(EnumDecl *E) {
    if (!E->isThisDeclarationADefinition()) return true;
    if (X.SM.isInSystemHeader(X.SM.getExpansionLoc(E->getLocation()))) return true; /* keep only project enums */
    json::Array Cs;
    for (const EnumConstantDecl *EC : E->enumerators()) { json::Object CO; CO["name"] = EC->getNameAsString(); CO["v"] = (int64_t)EC->getInitVal().getExtValue(); Cs.push_back(std::move(CO)); }
    std::string n = E->getNameAsString(); if (n.empty()) n = "anon@" + X.loc(E->getLocation());
    Enums[n] = std::move(Cs);
    return true;
  }
};

struct Consumer : ASTConsumer {
  std::string Unit;
  explicit Consumer(std::string U) : Unit(std::move(U)) {}
  void HandleTranslationUnit(ASTContext &C) override {
    if (C.getDiagnostics().hasErrorOccurred()) { llvm::errs() << "facts: errors in " << Unit << "\n"; }
    Ctx X(C); json::Object Out; Visitor V(X, Out);
    V.TraverseDecl(C.getTranslationUnitDecl());
    Out["unit"] = Unit; Out["functions"] = std::move(V.Fns); Out["globals"] = std::move(V.Globals);
    Out["records"] = std::move(V.Records); Out["enums"] = std::move(V.Enums);
    Out["errors"] = C.getDiagnostics().hasErrorOccurred();
    std::error_code EC;
    if (!OutFile.empty()) { llvm::raw_fd_ostream OS(OutFile, EC); OS << json::Value(std::move(Out)) << "\n"; }
    else llvm::outs() << json::Value(std::move(Out)) << "\n";
  }
};
struct Action : ASTFrontendAction {
  std::unique_ptr<ASTConsumer> CreateASTConsumer(CompilerInstance &, StringRef F) override { return std::make_unique<Consumer>(F.str()); }
};
} // namespace

int main(int argc, const char **argv) {
  auto P = CommonOptionsParser::create(argc, argv, Cat);
  if (!P) { llvm::errs() << P.takeError(); return 2; }
  ClangTool T(P->getCompilations(), P->getSourcePathList());
  return T.run(newFrontendActionFactory<Action>().get());
}
