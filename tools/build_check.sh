#!/bin/sh
# build_check.sh <worktree-dir> <patch>...: applies each patch to a built scratch worktree of /repo HEAD (made with
# tools/mkworktree.sh by the caller) and reports whether it still builds without warnings; the worktree is reset after each.
wt="$1"; shift
for p in "$@"; do
  ( cd $wt && git checkout -q -- . && patch -p1 -s -f < "$p" >/dev/null 2>&1 ) || { echo "$p APPLY-FAILED"; continue; }
  w=$(cd $wt && make -j4 2>&1 | grep -c -E "warning|error")
  echo "$p warnings=$w"
  ( cd $wt && git checkout -q -- . && find . -name '*.orig' -delete -o -name '*.rej' -delete )
done
