#!/usr/bin/env python3
"""obs.py <PID> [substring]: list every obligation a property's rules produce on /repo (debug aid)."""
import sys, os
sys.argv, args = [sys.argv[0]], sys.argv[1:]
exec(open(os.path.join(os.path.dirname(os.path.abspath(__file__)), 'shell.py')).read())
from sa import report
import importlib
pid = args[0]
mod = importlib.import_module('sa.props.' + pid.lower())
R = report.Report(pid, 'quick', P)
mod.run(P, R, 'quick')
for o in R.obligations:
    line = '%s %s %s %s' % ('ok ' if o.get('ok') else 'BAD', o.get('rule'), o.get('loc'), o.get('what'))
    if len(args) < 2 or args[1] in line:
        print(line)
