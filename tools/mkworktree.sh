#!/bin/sh
# mkworktree.sh <dir> [<commit>] - scratch git worktree of /repo with the generated
# autotools files copied in and a full build, for testing checks against variants.
# Remove with: git -C /repo worktree remove --force <dir>
set -e
d="$1"; c="${2:-HEAD}"
git -C /repo worktree add --detach -f "$d" "$c" >/dev/null 2>&1
cd /repo
for f in configure Makefile.in aclocal.m4 autoconf.h.in; do cp -p "$f" "$d/"; done
mkdir -p "$d/autoconf" && cp -pr autoconf/. "$d/autoconf/"
cd "$d"
# keep timestamps ordered so make does not try to re-run autotools
touch aclocal.m4; sleep 1; touch configure Makefile.in autoconf.h.in
./configure >/dev/null 2>&1
make -j16 >/dev/null 2>&1
echo "worktree ready: $d ($(git -C "$d" log --oneline -1))"
