#!/usr/bin/env python3
"""shell.py [repo]: loads the program model for interactive inspection (python3 -i tools/shell.py)."""
import os, sys, tempfile
V = os.path.dirname(os.path.dirname(os.path.abspath(__file__)))
sys.path.insert(0, V)
from sa import facts, model  # noqa
from sa.model import *  # noqa
repo = sys.argv[1] if len(sys.argv) > 1 else '/repo'
_d = tempfile.mkdtemp(prefix='iauthd-facts-')
_out, _units = facts.extract(repo, outdir=_d)
P = model.load(_out, repo)
import shutil
shutil.rmtree(_d, ignore_errors=True)
