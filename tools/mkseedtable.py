#!/usr/bin/env python3
"""Rewrites the seeded-defect table of DESIGN.md (between the SEEDTABLE markers) from /verif/seeded/*/meta.json."""
import json, os, re
V = os.path.dirname(os.path.dirname(os.path.abspath(__file__)))
rows = []
for sid in sorted(x for x in os.listdir(V + '/seeded') if os.path.exists(V + '/seeded/%s/meta.json' % x)):
    m = json.load(open(V + '/seeded/%s/meta.json' % sid))
    notes = open(V + '/seeded/%s/notes.md' % sid).read() if os.path.exists(V + '/seeded/%s/notes.md' % sid) else ''
    title = m.get('summary')
    if not title:
        lines = [l.strip(' #*-') for l in notes.splitlines() if l.strip()]
        title = (lines[0] if lines else '')[:110]
    det = m.get('detected_by') or {}
    own = m['breaks_property']
    own_rules = ', '.join(x for x in det.get(own, []) if not x.startswith('ANALYSIS'))
    others = ', '.join('%s' % k for k in sorted(det) if k != own and any(not x.startswith('ANALYSIS') for x in det[k]))
    rows.append('| %s | %s | %s | %s | %s | %s |' % (sid, ', '.join(m.get('files', [])), title.replace('|', '/'), m.get('detection_status', '?'), own_rules or '-', others or '-'))
table = '| seed | files | change (first line of its notes) | status | rules of its own property that fire | other properties that also fire |\n|---|---|---|---|---|---|\n' + '\n'.join(rows)
p = V + '/DESIGN.md'
s = open(p).read()
s = re.sub(r'<!-- SEEDTABLE -->.*?<!-- /SEEDTABLE -->', lambda m_: '<!-- SEEDTABLE -->\n' + table + '\n<!-- /SEEDTABLE -->', s, flags=re.S)
open(p, 'w').write(s)
print(len(rows), 'rows')
