#!/usr/bin/env python3
"""show.py <ID> [--repo PATH]: run a check and list every rule instance (debug aid)."""
import sys, os, shutil
sys.path.insert(0, os.path.dirname(os.path.dirname(os.path.abspath(__file__))))
from sa import facts, model, report
import importlib
pid = sys.argv[1].upper()
repo = sys.argv[sys.argv.index('--repo') + 1] if '--repo' in sys.argv else '/repo'
out, units = facts.extract(repo)
try:
    P = model.load(out, repo)
    R = report.Report(pid, 'quick', P)
    importlib.import_module('sa.props.' + pid.lower()).run(P, R, 'quick')
    for o in R.obligations:
        if '--fail' in sys.argv and o['ok']:
            continue
        print('%s %-16s %-28s %-28s %s' % ('ok ' if o['ok'] else 'BAD', o['rule'], o['function'], o['loc'], o["what"][:int(os.environ.get("W","150"))]))
        if not o['ok'] and o.get('detail'):
            print('      ', o['detail'])
    for n in R.notes: print('note:', n)
    for e in R.exceptions_used: print('exception:', e)
    for b in R.broken: print('BROKEN:', b)
    print(R.counts)
finally:
    shutil.rmtree(out, ignore_errors=True)
