#!/bin/sh
# Builds the fact extractor (libTooling, clang 14).  Offline; ~20 s.
set -e
here="$(cd "$(dirname "$0")" && pwd)"
out="$here/../build"
mkdir -p "$out"
src="$here/extract/facts.cc"
bin="$out/facts"
if [ ! -x "$bin" ] || [ "$src" -nt "$bin" ]; then
  clang++ $(llvm-config-14 --cxxflags) -fno-rtti -O1 "$src" -o "$bin" \
    /usr/lib/llvm-14/lib/libclang-cpp.so.14 /usr/lib/llvm-14/lib/libLLVM-14.so
fi
echo "extractor: $bin"
