#!/bin/sh
# confirm_benign.sh <name>...: each benign/<name>/patch.diff applied to a scratch worktree of /repo HEAD builds without
# warnings and passes the suite (89/89).  The worktree is removed at the end.
V=$(dirname "$(dirname "$(readlink -f "$0")")"); wt=/tmp/cb.$$
sh "$V/tools/mkworktree.sh" $wt >/dev/null 2>&1
for n in "$@"; do
  p="$V/benign/$n/patch.diff"
  ( cd $wt && git checkout -q -- . && patch -p1 -s -f < "$p" >/dev/null 2>&1 ) || { echo "$n APPLY-FAILED"; continue; }
  w=$(cd $wt && make -j16 2>&1 | grep -c -E "warning|error")
  t=$(cd $wt && timeout 900 make check 2>&1 | grep -E "^# PASS" | awk '{print $3}')
  echo "$n warnings=$w tests_pass=$t"
  ( cd $wt && git checkout -q -- . && find . -name '*.orig' -delete -o -name '*.rej' -delete )
done
git -C /repo worktree remove --force $wt
