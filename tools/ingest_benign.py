#!/usr/bin/env python3
"""ingest_benign.py <root> <name>...: takes the refactorings a sub-agent left under <root>/<name>/_benign/<k>/patch.diff,
checks each in that worktree (applies to its HEAD, builds without warnings, suite 89/89) and copies the good ones to
/verif/benign/<name>-<k>/ (patch.diff, notes.md).  Reports which of them still apply to /repo's current HEAD."""
import os, re, shutil, subprocess, sys
V = os.path.dirname(os.path.dirname(os.path.abspath(__file__)))
root = sys.argv[1]
for name in sys.argv[2:]:
    wt = os.path.join(root, name)
    bd = os.path.join(wt, '_benign')
    if not os.path.isdir(bd):
        print(name, 'no _benign directory'); continue
    for k in sorted(os.listdir(bd)):
        d = os.path.join(bd, k)
        pf = os.path.join(d, 'patch.diff')
        if not os.path.exists(pf):
            continue
        subprocess.run('git checkout -q -- . ', shell=True, cwd=wt)
        r = subprocess.run(['git', 'apply', pf], cwd=wt, stdout=subprocess.PIPE, stderr=subprocess.STDOUT)
        if r.returncode != 0:
            print(name, k, 'REJECTED does not apply to its own base'); continue
        b = subprocess.run('make -j16 2>&1', shell=True, cwd=wt, stdout=subprocess.PIPE)
        out = b.stdout.decode()
        warn = out.count('warning:')
        t = subprocess.run("make check 2>&1 | grep -E '^# PASS:' | awk '{print $3}'", shell=True, cwd=wt, stdout=subprocess.PIPE).stdout.decode().strip()
        subprocess.run('git checkout -q -- . && make -j16 >/dev/null 2>&1; rm -f test-suite.log unit-tests.log tests/test_all.sh.log tests/test_all.sh.trs', shell=True, cwd=wt)
        ok = b.returncode == 0 and warn == 0 and t == '89'
        if not ok:
            print(name, k, 'REJECTED build rc=%s warnings=%s tests=%s' % (b.returncode, warn, t)); continue
        dst = os.path.join(V, 'benign', '%s-%s' % (name, k))
        shutil.rmtree(dst, ignore_errors=True); os.makedirs(dst)
        shutil.copy(pf, dst)
        if os.path.exists(os.path.join(d, 'notes.md')):
            shutil.copy(os.path.join(d, 'notes.md'), dst)
        a = subprocess.run(['patch', '-p1', '-s', '-f', '--dry-run', '-d', '/repo', '-i', pf], stdout=subprocess.PIPE, stderr=subprocess.STDOUT)
        print(name, k, 'OK', 'applies-to-HEAD' if a.returncode == 0 else 'NEEDS-REBASE')
