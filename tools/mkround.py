#!/usr/bin/env python3
"""mkround.py <root> <kinds-file> [count]: prepares a seeding round: one built scratch worktree of /repo per property
under <root>/<PID> (outside /repo and /verif), each with _seed/PROPERTY.json (the property text only) and
_seed/ALREADY_TAKEN.txt (titles of earlier seeds, to avoid repeats), and one prompt file <root>/prompts/<PID>.txt for
a fresh sub-agent.  <kinds-file> holds the paragraph that says which kinds of change this round asks for.
Nothing from /verif other than the property text and those titles reaches the sub-agents."""
import json, os, glob, subprocess, sys, time
V = os.path.dirname(os.path.dirname(os.path.abspath(__file__)))
root, kinds = sys.argv[1], open(sys.argv[2]).read().rstrip('\n')
count = int(sys.argv[3]) if len(sys.argv) > 3 else 4
props = {json.loads(l)['id']: json.loads(l) for l in open(V + '/properties.jsonl') if l.strip()}
os.makedirs(root + '/prompts', exist_ok=True)
procs = [subprocess.Popen(['sh', V + '/tools/mkworktree.sh', '%s/%s' % (root, pid)], stdout=subprocess.DEVNULL, stderr=subprocess.DEVNULL) for pid in sorted(props)]
for p in procs:
    p.wait()
for pid, p in sorted(props.items()):
    wt = '%s/%s' % (root, pid)
    os.makedirs(wt + '/_seed', exist_ok=True)
    json.dump(p, open(wt + '/_seed/PROPERTY.json', 'w'), indent=1)
    titles = []
    for d in sorted(glob.glob(V + '/seeded/%s-*' % pid) + glob.glob(V + '/seeded/retired/%s-*' % pid)):
        nf = os.path.join(d, 'notes.md')
        t = ''
        if os.path.exists(nf):
            for line in open(nf):
                line = line.strip().lstrip('# ').strip()
                if line and not set(line) <= set('=-'):
                    t = line
                    break
        files = json.load(open(os.path.join(d, 'meta.json'))).get('files', [])
        titles.append('- %s  [%s]' % (t[:200], ', '.join(files)))
    open(wt + '/_seed/ALREADY_TAKEN.txt', 'w').write('\n'.join(titles) + '\n')
    prompt = '''You are working in a scratch git worktree of the iauthd-c daemon (an IRC "IAuth" authorization daemon written in C)
at %(wt)s.  It is already configured and built (`make -j16` after edits; `make check` runs the test suite: 89 TAP
assertions plus the script, all must pass).  Work only inside %(wt)s.  Never touch /repo or /verif.

The file %(wt)s/_seed/PROPERTY.json states a semantic property of the daemon that its users rely on (read its
statement, quantifier and anchors carefully, then read the code the anchors point at and the helpers, macros, headers
and data structures that code relies on).

TASK: produce %(count)d independent source changes, each of which BREAKS that property while
 (1) the tree still compiles with NO warnings (the build uses -W -Wall -Werror),
 (2) `make check` still passes 89/89,
 (3) you demonstrate the break: an executable, self-contained `demo.py <tree>` that exits NON-ZERO on the tree with the
     change and 0 on the clean tree, prints observed versus expected, wraps every run of the daemon or of a harness in
     `timeout`, needs no network, and removes the temporary directories it creates,
 (4) the break needs something specific to manifest - an unusual but legal input, a particular history, order, reload,
     boundary value, configuration or size - so that ordinary traffic and the test suite do not expose it at once.
%(kinds)s
Each change should read as a plausible commit (give it an innocent-looking one-line title).  Spread the changes over
DIFFERENT functions / files.  Do NOT repeat the mechanisms listed in _seed/ALREADY_TAKEN.txt (titles of changes other
people already made, with the files they touched).

For EACH change k = 1..%(count)d, working from clean HEAD each time (the changes are NOT stacked):
  git apply / edit;  make -j16 (no warnings);  make check (89/89);  ./_seed/<k>/demo.py . (must exit non-zero);
  git diff > _seed/<k>/patch.diff;  git checkout -- . && make -j16;  ./_seed/<k>/demo.py . (must exit 0).
Deliverables: %(wt)s/_seed/<k>/patch.diff, demo.py (the ONLY file in that directory whose name starts with "demo."),
notes.md (first line: the one-line title; then what was changed, why the property breaks, what is needed for it to
manifest, what the demo shows, the commands you ran and their outcomes).  Leave the worktree at clean HEAD, rebuilt,
with only _seed/ untracked (delete the log files `make check` leaves behind).  If, while working, you notice that the
UNCHANGED tree itself misbehaves with respect to the property (your demo fails on clean HEAD for a reason that is not
your change), say so prominently in your final message with the exact input.  In your final message give, per change:
title, kind, file/function, warnings, make check result, demo exit status with and without the patch, what it needs to manifest.
''' % {'wt': wt, 'kinds': kinds, 'count': count}
    open('%s/prompts/%s.txt' % (root, pid), 'w').write(prompt)
print('ready: %d worktrees under %s' % (len(props), root))
