#!/bin/sh
# rebase_step.sh <patch.diff>: carries a corpus patch over several /repo commits when the 3-way rebase conflicts: the
# patch is applied to the newest commit it still applies to, then each later commit's own diff is applied on top, one by
# one, with fuzz; the result is diffed against HEAD.  The original is kept as patch.orig-<base>.diff.  Prints OK / FAIL.
p="$(readlink -f "$1")"; d=/tmp/rs.$$; rm -rf $d; mkdir -p $d
base=""
for c in $(git -C /repo log --format=%h -40); do
  rm -rf $d/b; mkdir -p $d/b; git -C /repo archive $c | tar -x -C $d/b
  if patch -p1 -s -f --dry-run -d $d/b -i "$p" >/dev/null 2>&1; then base=$c; break; fi
done
[ -n "$base" ] || { echo "FAIL(no-base) $p"; rm -rf $d; exit 2; }
patch -p1 -s -f -d $d/b -i "$p" >/dev/null 2>&1; find $d/b -name '*.orig' -delete
for c in $(git -C /repo log --reverse --format=%h $base..HEAD); do
  git -C /repo diff $c^ $c > $d/fix.diff
  if ! patch -p1 -s -f -F3 -d $d/b -i $d/fix.diff >/dev/null 2>&1; then echo "FAIL(at $c) $p"; rm -rf $d; exit 1; fi
  find $d/b -name '*.orig' -delete
done
mkdir -p $d/a; git -C /repo archive HEAD | tar -x -C $d/a
cp "$p" "$(dirname "$p")/patch.orig-$base.diff"
(cd $d && diff -ruN a b) | python3 -c "
import sys
for l in sys.stdin:
    if l.startswith('diff -ruN'): continue
    if l.startswith('--- a/'):
        f=l.split()[1][2:]; sys.stdout.write('diff --git a/%s b/%s\n'%(f,f)); sys.stdout.write('--- a/%s\n'%f); continue
    if l.startswith('+++ b/'):
        sys.stdout.write('+++ b/%s\n'%l.split()[1][2:]); continue
    sys.stdout.write(l)
" > $d/new.diff
cp $d/new.diff "$p"; rm -rf $d; echo "OK $p"
