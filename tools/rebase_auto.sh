#!/bin/sh
# rebase_auto.sh <patch>: finds the newest commit of /repo the patch still applies to (looking back 40 commits) and
# carries it to HEAD with tools/rebase3.sh; the original is kept next to it as patch.orig-<that commit>.diff.
p="$1"; V=$(dirname "$(dirname "$(readlink -f "$0")")")
for c in $(git -C /repo log --format=%h -40); do
  d=/tmp/ra.$$; rm -rf $d; mkdir -p $d
  git -C /repo archive $c | tar -x -C $d
  if patch -p1 -s -f --dry-run -d $d -i "$p" >/dev/null 2>&1; then
    rm -rf $d
    out=/tmp/ra.$$.diff
    if sh "$V/tools/rebase3.sh" $c "$p" $out; then
      case "$p" in */patch.diff) cp "$p" "$(dirname "$p")/patch.orig-$c.diff";; *) cp "$p" "$p.orig-$c.txt";; esac
      cp $out "$p"; rm -f $out; exit 0
    fi
    exit 1
  fi
  rm -rf $d
done
echo "NO-BASE $p"; exit 2
