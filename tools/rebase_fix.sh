#!/bin/sh
# rebase_fix.sh <patch.diff>: carries a corpus patch over the LAST /repo commit when 3-way rebasing conflicts: the patch
# is applied to HEAD^, the commit's own diff is then applied on top with fuzz, and the result is diffed against HEAD.
# The original is kept as patch.orig-<HEAD^>.diff.  Prints OK / FAIL.
p="$(readlink -f "$1")"; d=/tmp/rf.$$; rm -rf $d; mkdir -p $d/a $d/b
prev=$(git -C /repo log --format=%h -2 | tail -1)
git -C /repo archive HEAD | tar -x -C $d/a; git -C /repo archive HEAD^ | tar -x -C $d/b
patch -p1 -s -f -d $d/b -i "$p" >/dev/null 2>&1 || { echo "FAIL(base) $p"; rm -rf $d; exit 1; }
find $d/b -name '*.orig' -delete
git -C /repo diff HEAD^ HEAD > $d/fix.diff
if ! patch -p1 -s -f -F3 -d $d/b -i $d/fix.diff >/dev/null 2>&1; then echo "FAIL(fix) $p"; find $d/b -name '*.rej' | head -3; [ -n "$KEEP" ] || rm -rf $d; exit 1; fi
find $d/b -name '*.orig' -delete
cp "$p" "$(dirname "$p")/patch.orig-$prev.diff"
(cd $d && diff -ruN a b) | python3 -c "
import sys
out=[]
for l in sys.stdin:
    if l.startswith('diff -ruN'): continue
    if l.startswith('--- a/'):
        f=l.split()[1][2:]; out.append('diff --git a/%s b/%s\n'%(f,f)); out.append('--- a/%s\n'%f)
    elif l.startswith('+++ b/'): out.append('+++ b/%s\n'%l.split()[1][2:])
    else: out.append(l)
sys.stdout.write(''.join(out))" > "$p"
rm -rf $d
git -C /repo apply --check "$p" && echo "OK $p"
