#!/bin/sh
# rebase3.sh <old-base-commit> <patch> <out>: carries a corpus patch made against <old-base-commit> over to /repo's HEAD
# with git's 3-way merge (context that a fix changed is not a conflict); prints CONFLICT when hands are needed.
# Works in a scratch worktree under /tmp which it removes.
old="$1"; patch="$2"; out="$3"; d=/tmp/rebase3.$$
head=$(git -C /repo rev-parse HEAD)
git -C /repo worktree add --detach -f "$d" "$old" >/dev/null 2>&1 || exit 2
cd "$d"
if ! git apply "$patch" 2>/dev/null && ! patch -p1 -s -f -i "$patch" >/dev/null 2>&1; then echo "DOES-NOT-APPLY-TO-OLD-BASE $patch"; cd /; git -C /repo worktree remove --force "$d"; exit 1; fi
find . -name '*.orig' -delete
git -c user.name=x -c user.email=x@x commit -qam tmp
if git -c user.name=x -c user.email=x@x rebase -q "$head" >/dev/null 2>&1; then git diff "$head" HEAD > "$out"; echo "REBASED $patch"; rc=0; else echo "CONFLICT $patch"; git rebase --abort >/dev/null 2>&1; rc=1; fi
cd /; git -C /repo worktree remove --force "$d"; git -C /repo worktree prune
exit $rc
