#!/usr/bin/env python3
"""mkhunt.py <root>: prepares a defect-hunting round: one built scratch worktree of /repo per property under
<root>/<PID> with _hunt/PROPERTY.json (the property text only) and _hunt/KNOWN.txt (one line per defect already
repaired or recorded, so that it is not reported again), and a prompt <root>/prompts/<PID>.txt for a fresh sub-agent
that is asked for inputs / histories on which the UNCHANGED tree breaks the property.  This is discovery (the agents
may run, fuzz and sanitize whatever they like); what they report is replayed by hand and, when genuine, answered with
a static rule and a `fix:` commit - no check runs anything."""
import json, os, subprocess, sys
V = os.path.dirname(os.path.dirname(os.path.abspath(__file__)))
root = sys.argv[1]
props = {json.loads(l)['id']: json.loads(l) for l in open(V + '/properties.jsonl') if l.strip()}
known = {}
for l in open(V + '/known_findings.jsonl'):
    if l.strip() and not l.startswith('#'):
        d = json.loads(l)
        known.setdefault(d['property'], []).append(d['line'])
os.makedirs(root + '/prompts', exist_ok=True)
procs = [subprocess.Popen(['sh', V + '/tools/mkworktree.sh', '%s/%s' % (root, pid)], stdout=subprocess.DEVNULL, stderr=subprocess.DEVNULL) for pid in sorted(props)]
for p in procs:
    p.wait()
for pid, p in sorted(props.items()):
    wt = '%s/%s' % (root, pid)
    os.makedirs(wt + '/_hunt', exist_ok=True)
    json.dump(p, open(wt + '/_hunt/PROPERTY.json', 'w'), indent=1)
    open(wt + '/_hunt/KNOWN.txt', 'w').write('\n'.join(known.get(pid, [])) + '\n')
    prompt = '''You are working in a scratch git worktree of the iauthd-c daemon (an IRC "IAuth" authorization daemon written in C)
at %(wt)s.  It is already configured and built (`make -j16` after edits; `make check` runs the test suite).  Work only
inside %(wt)s.  Never touch /repo or /verif.  No network.

The file %(wt)s/_hunt/PROPERTY.json states a semantic property of the daemon that its users rely on.  Read its statement,
quantifier and anchors carefully, then read the code the anchors point at and everything that code relies on
(doc/ describes the line protocol and the configuration syntax; tests/ shows how the daemon is driven over pipes).

TASK: find concrete inputs, histories, configurations or reload sequences on which the UNCHANGED source tree VIOLATES the
property - genuine defects of the code as it stands.  Do not modify the daemon's sources (you may build harnesses that
link its units, AddressSanitizer / UBSan builds in a separate build directory, libFuzzer targets, scripts that drive
src/iauthd-c over pipes, and so on; clang 14, gcc, valgrind, python3 are installed).  Go for the corners the quantifier
names: boundary lengths and values, unusual but legal syntax, every message kind in every state, duplicates, late and
out-of-order replies, reloads that add / remove / edit in place, many clients, id reuse, empty and maximal fields,
32 and more services, values near integer limits.  Read critically: compare what each function promises (comments,
documentation, callers' expectations) with what it does; compare sibling functions with each other.

%(wt)s/_hunt/KNOWN.txt lists defects that were ALREADY found (fixed ones start with "fixed:", recorded ones with "known:");
do not report those again (a different input hitting the same repaired code is not new).

For EACH defect you can demonstrate (k = 1, 2, ...), deliver in %(wt)s/_hunt/<k>/:
  demo.py   - executable, self-contained: `demo.py <tree>` exits NON-ZERO when the tree shows the defect, prints the exact
              input and observed versus expected, wraps every run of the daemon or of a harness in `timeout`, needs no
              network, removes the temporary directories it creates;
  notes.md  - first line: one-line title; then: which clause of the property is violated, the exact input / history /
              configuration, what happens, what should happen and why (cite the documentation or the property), the
              function and line where the cause sits, and the smallest repair you would propose (as a diff in the text;
              do NOT apply it).
Only report what you have actually reproduced; a suspicion you could not reproduce goes under "unconfirmed" in your final
message with the reasoning.  Quality over quantity: one real defect with a crisp demonstration is worth more than five
doubtful ones; if after a thorough search you find nothing, say what you covered.  Leave the worktree at clean HEAD with
only _hunt/ untracked.  In your final message list, per defect: title, clause violated, input, cause (file:function),
proposed repair; then the unconfirmed suspicions; then what you covered.
''' % {'wt': wt}
    open('%s/prompts/%s.txt' % (root, pid), 'w').write(prompt)
print('ready: %d worktrees under %s' % (len(props), root))
