#!/bin/sh
# try_patch.sh <patch.diff> <PID> [...]: apply a patch to a scratch export of /repo HEAD and print the violated/broken rule instances of the given checks.
p="$(realpath "$1")"; shift
d=$(mktemp -d /tmp/trypatch-XXXXXX)
git -C /repo archive HEAD | tar -x -C "$d" && cp /repo/autoconf.h "$d/"
patch -p1 -s -f -d "$d" -i "$p" || { echo "patch failed"; rm -rf "$d"; exit 2; }
for pid in "$@"; do /verif/bin/check "$pid" --repo "$d" --evidence-dir "$d/.ev" | grep -v "^VIOLATION" ; done
if [ -n "$KEEP" ]; then echo "kept $d"; else rm -rf "$d"; fi
