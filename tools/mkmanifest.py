#!/usr/bin/env python3
"""Regenerates MANIFEST.json from the table below (checks present under sa/props)."""
import json, os
V = os.path.dirname(os.path.dirname(os.path.abspath(__file__)))
CLAIMS = {
 # id: (design section, technique, level text, level note)
 'C01': ('4.1', 'who-may-call + must-pass-through + guard dataflow + use-after-retire typestate over clang CFGs',
         'Every path of every verdict function marks, writes and retires; verdict/soft-done senders and their callers are confined; unknown ids are dropped before dispatch; no request is used after a call that may retire it. Decides the mechanism on all paths, not the container semantics (C19).',
         'clang CFG; slot resolution of module callbacks; one reasoned exception with machine-checked premises'),
 'C02': ('4.2', 'guard product-dataflow on the acceptance gate + who-may-write tables for data flags and hold counters',
         'The single acceptance gate has all four conjuncts on every path to the accept call; only the handler of a datum may set its flag; every query sent leaves the client awaited and soft-held; the +! hard hold is taken/released only on the account transition; a refusal always reaches the kill.',
         'clang CFG; uninterpreted condition atoms; counter arithmetic over histories is not decided'),
 'C03': ('4.3', 'interprocedural gate re-evaluation typestate (DIRTY) + counter discipline who-may-write + pairing guards',
         'No event entry can leave a request with newly enabled conditions without re-evaluating the gate (through module callbacks); hold counters are only moved by paired relative steps.',
         'event entries discovered from the dispatch switch, libevent registrations and module slots'),
 'C04': ('4.4', 'table agreement of routing tag writer/reader + guard dominance in reply handlers + who-may-call',
         'Replies reach requests only through the validating lookup; every effect of a reply is dominated by the awaited-service test; serial has one writer.',
         'strtol leniency for tags the daemon never emits is not claimed'),
 'C05': ('4.5', 'prefix-length/offset table agreement + who-may-write account + format binding of verdict lines',
         'Reply kind -> emitter -> text slice wiring, account written only on the login-type OK path, four accept forms, +x on the vouched path.',
         'string contents at run time are not decided'),
 'C06': ('4.6', 'prerequisite table agreement + guard dominance of query sends + wiring/ordering of the builder + format binding + bounded copies',
         'Per-protocol prerequisite sets equal the documented ones; every query send is dominated by its prerequisites; the builder runs on every data event after the field is stored; arguments bound to the client\'s own fields; server data copied with bounded idioms.',
         'the ~ marking and truncation values are not decided'),
 'C07': ('4.7', 'static-storage write audit over the event-path call closure + mask/index consistency + shift bound',
         'Nothing written while serving one client can reach another client\'s lines except allow-listed accumulators; service masks index consistently; per-client module state is keyed inside the request.',
         'projection equality of outputs is not decided'),
 'C08': ('4.8', 'argv nullness summaries (interprocedural, through slots) + bounded-write idiom matching + typestate on the line buffer + must-pass-through',
         'Necessary conditions of crash-freedom on the input path: argv/argc discipline, tokenizer bound, every copy bounded, EOF -> clean exit, line freed once, no use after retire, junk inert.',
         'memory safety at large, termination and chunking independence are not decided'),
 'C09': ('4.9', 'who-may-write stdout + verbosity guard + message-kind format table of the single sender',
         'Only the sender and (verbosity-gated) logger write stdout; every send site has a literal, well-formed IAuth format addressed or global as its kind demands; id/address/port bound to the request.',
         'address text correctness is C12; operator-configured log files are not decided'),
 'C10': ('4.10', 'who-may-call on table insert/remove + must-pass-through in the cleanup + wiring of destructor/exit chain',
         'Request table insert/remove sites and counters pair; all removals dispose; cleanup frees timer and module data; timer has one creator and one destroyer; exit chain wired.',
         'container semantics rest on C19'),
 'C11': ('4.11', 'scan-structure guards + criterion exhaustiveness table + wiring of the pre-registered hook',
         'Rules compiled in container order with the case-insensitive comparator; ascending scan stops at first hit; class store dominated by every criterion test; criterion fields loaded/tested/freed; hook runs before the verdict line.',
         'glob and mask semantics are not decided'),
 'C12': ('4.12', 'bounded-write idioms + path-weight length bound + first-store analysis + run-counter reset must-pass-through',
         'Output writes bounded, longest text < documented size, text cannot start with a colon, zero-run counter reset on every non-zero group.  Round-trip equality over 2^128 values is NOT decided.',
         'partial: value-level round trip is out of reach of static analysis'),
 'C13': ('4.13', 'relational numeric abstract interpretation (octagons with threshold widening, unsigned wrap-around honoured) of the address parser, its helper and the mask test + index-cursor typestate over the NUL-terminated input with helper summaries',
         'Memory clause only: every subscript of the 8-group array, the embedded IPv4 copy, every shift count and every read/advance of the input cursor in irc_pton, irc_pton_ip4 and irc_check_mask is proven in range.  Exactness of the mask test, prefix lengths / network bits of CIDR and wildcard forms and agreement with inet_pton are NOT decided (values).',
         'partial: one clause of the statement; the value clauses are out of reach of static analysis'),
 'C14': ('4.14', 'phase separation by reference sets over the definite call graph + must-pass-through + ownership moves',
         'Parse phase never references the live tree and cannot deliver a hook; merge only after the parse loop; no non-local exit from the merge; scratch tree freed on every path; moved pointers nulled.',
         'termination and leaks on error exits are not decided'),
 'C15': ('4.15', 'guard/must-pass-through on hook notification sites + switch exhaustiveness + ownership',
         'Every hook call is guarded by the node\'s change predicate and every value change reaches it; node-kind exhaustiveness; leftover removal guard; registration adopts.  History independence of values is NOT decided.',
         'partial'),
 'C16': ('4.16', 'lookahead typestate over the entry parser + FOLLOW-set and escape/unit table agreement + sibling rule over typed parsers',
         'No double un-read, no double terminator, FOLLOW agreement for nested entries, escape and unit tables, unknown characters rejected by every typed parser.  Byte-for-byte tree equality is NOT decided.',
         'partial'),
 'C17': ('4.17', 'cache-hook coverage (must-pass-through) + wiring of section hooks and SIGUSR1 + slot insertion path rule',
         'Each caching module\'s section hook is installed, rebuilds completely and is reachable from every node whose value it reads; every path storing a service configures it.',
         'values of the rebuilt caches are not decided'),
 'C18': ('4.18', 'table agreement + fan-out loop structure + reset-dominates-attach + wiring + format binding',
         'Severity table agrees with the enum; fan-out covers facility and * vectors; whole-entry ignore; full reset dominates re-attach; rescan reachable from every node of the section.  Range-operator semantics are NOT decided.',
         'partial'),
 'C19': ('4.19', 'comparator arithmetic rule + who-may-call cleanup + dispose guards + count adjustment paths',
         'Stock comparators are overflow-free by construction; cleanup has one caller, dispose sites guarded and on detached nodes; count adjusted exactly once per path.  Sorted-map behaviour of the splay tree is NOT decided.',
         'partial'),
 'C20': ('4.20', 'construct-once guard + fatal-failure must-pass-through + post-order placement + three-state DFS marking + unload guard',
         'Construct-once, failures fatal and propagated, post-init in the DFS after the dependency loop, on-stack vs finished marks distinguished, unload guarded by empty reverse dependencies.  Order over all DAGs is NOT decided.',
         'partial'),
}
NA = {
}
props = [json.loads(l)['id'] for l in open(os.path.join(V, 'properties.jsonl'))]
checks, na = [], []
for pid in props:
    have = os.path.exists(os.path.join(V, 'sa', 'props', pid.lower() + '.py'))
    if pid in CLAIMS and have:
        sec, tech, text, note = CLAIMS[pid]
        checks.append({
            'property_id': pid,
            'quick_cmd': 'bin/check %s --tier quick' % pid,
            'thorough_cmd': 'bin/check %s --tier thorough' % pid,
            'evidence_file': 'evidence/%s.json' % pid,
            'replay_cmd_template': 'bin/check %s --tier quick  # report at {path}' % pid,
            'engine': 'sa',
            'level_claimed': {'category': 'other', 'text': text, 'design_ref': 'DESIGN.md ' + sec},
            'level_note': note,
            'technique': 'static analysis: ' + tech,
        })
    elif pid in NA:
        na.append({'property_id': pid, 'reason': NA[pid]})
    else:
        na.append({'property_id': pid, 'reason': 'check designed (DESIGN.md) but not implemented yet; not claimed until its rules run on the tree'})
m = {
 'version': 1,
 'setup_cmd': 'sh tools/build.sh',
 'hooks': {'guard': 'IAUTHD_C_VERIF', 'enable': 'none needed: the checks read the source as built (no instrumentation)',
           'baseline_off_cmd': 'make -C /repo check', 'source_commits': [], 'add_only': True},
 'engines': [{'name': 'sa', 'path': 'sa/', 'serves_properties': [c['property_id'] for c in checks],
              'kind_free_text': 'repository-specific static analysis: libTooling fact extractor (tools/extract/facts.cc) -> whole-program model with CFGs, function-pointer slots and a finite forward dataflow (sa/model.py) -> per-property rules (sa/props/*.py)'}],
 'checks': checks,
 'not_applicable': na,
 'notes': 'Every check rebuilds its facts from /repo\'s current working tree (clang -fsyntax-only level parse through the extractor; nothing is executed). Exit 0 held / 1 VIOLATION / 2 analysis broken (vanished anchor or rule below its floor). Known findings: known_findings.jsonl.',
}
json.dump(m, open(os.path.join(V, 'MANIFEST.json'), 'w'), indent=1)
print('claimed:', [c['property_id'] for c in checks]); print('not applicable:', [n['property_id'] for n in na])
