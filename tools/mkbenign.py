#!/usr/bin/env python3
"""mkbenign.py <root> <areas-file>: prepares a refactoring round: one built scratch worktree of /repo per line of
<areas-file> (`<name>: <areas>`) under <root>/<name> and a prompt <root>/prompts/<name>.txt for a fresh sub-agent that is
asked for behaviour-preserving refactorings of those areas (nothing from /verif reaches it)."""
import os, subprocess, sys
V = os.path.dirname(os.path.dirname(os.path.abspath(__file__)))
root = sys.argv[1]
areas = [l.strip().split(':', 1) for l in open(sys.argv[2]) if l.strip()]
os.makedirs(root + '/prompts', exist_ok=True)
procs = [subprocess.Popen(['sh', V + '/tools/mkworktree.sh', '%s/%s' % (root, n.strip())], stdout=subprocess.DEVNULL, stderr=subprocess.DEVNULL) for n, _ in areas]
for p in procs:
    p.wait()
for n, a in areas:
    n = n.strip(); wt = '%s/%s' % (root, n)
    os.makedirs(wt + '/_benign', exist_ok=True)
    open('%s/prompts/%s.txt' % (root, n), 'w').write('''You are working in a scratch git worktree of the iauthd-c daemon (an IRC "IAuth" authorization daemon written in C) at
%(wt)s.  It is already configured and built (`make -j16` after edits; `make check` runs the test suite: 89 TAP assertions
plus the script, all must pass).  Work only inside %(wt)s.  Never touch /repo or /verif.  No network.

TASK: produce 8 independent REFACTORINGS of these areas of the code:
%(areas)s
Each is the kind of clean-up a maintainer does without meaning to change behaviour, and it must NOT change behaviour -
for any input, configuration, reload history or message order, the daemon's output, exit status, log lines and memory
safety stay exactly the same.  Make them substantial enough to change the SHAPE of the code (10-60 changed lines each),
and vary the kind: split a function or merge two; extract a helper (with or without a return value) or inline one; turn a
switch into an if-chain or a table, or back; change a loop's form (for / while / do, early return or continue vs nested
if, single-exit with a status variable); hoist a repeated expression into a local or remove such a local; reorder
independent statements; rename locals, parameters or static functions; replace a character test by strchr on a set or a
macro, or the reverse; pass a structure member instead of the structure (or the reverse); move a check from callee to all
callers or from the callers into the callee; use a different but equivalent arithmetic form; change a static function's
signature.  Do not weaken any check, do not drop any assignment that matters, and keep every comment that explains why
something is done.  Read the code you touch carefully first, including its callers and the headers.

For EACH refactoring k = 1..8, working from clean HEAD each time (they are NOT stacked):
  edit;  make -j16 (NO warnings: the build uses -W -Wall -Werror);  make check (89/89);
  convince yourself that behaviour is unchanged (drive src/iauthd-c with the inputs that exercise the changed code -
  tests/ shows how - and compare the output with the clean tree's);
  git diff > _benign/<k>/patch.diff;  write _benign/<k>/notes.md (first line: a one-line title; then what was changed and
  why behaviour cannot change);  git checkout -- . && make -j16.
Leave the worktree at clean HEAD, rebuilt, with only _benign/ untracked (delete the log files `make check` leaves
behind).  In your final message list the 8 titles with the functions they touch, and say prominently if you noticed
anything in the UNCHANGED code that looks like a defect (with the exact input that shows it).
''' % {'wt': wt, 'areas': a.strip()})
print('ready: %d worktrees under %s' % (len(areas), root))
