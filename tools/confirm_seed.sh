#!/bin/sh
# confirm_seed.sh <worktree> <k>: confirm a seeded defect: applies _seed/k/patch.diff, builds, runs the
# repo's test suite (must pass), runs the demo (must fail); reverts, rebuilds, runs the demo (must pass).
wt="$1"; k="$2"; d="$wt/_seed/$k"
if [ -f "$d/demo.py" ]; then demo="$d/demo.py"; elif [ -f "$d/demo.sh" ]; then demo="$d/demo.sh"; else demo=$(ls "$d"/demo.* | head -1); fi
cd "$wt" || exit 2
git checkout -q -- . && make -j16 >/dev/null 2>&1
git apply "$d/patch.diff" 2>/dev/null || patch -p1 -s -f -i "$d/patch.diff" >/dev/null 2>&1 || { echo "RESULT $wt $k apply-failed"; git checkout -q -- .; exit 1; }
find . -name "*.orig" -newer "$d/patch.diff" -delete 2>/dev/null
make -j16 >"$d/build.log" 2>&1 || { echo "RESULT $wt $k build-failed"; git checkout -q -- .; exit 1; }
warn=$(grep -c 'warning:' "$d/build.log")
pass=$(make check 2>&1 | grep -E '^# PASS:' | awk '{print $3}')
timeout 300 "$demo" "$wt" >"$d/demo_with.log" 2>&1; rc_with=$?
git checkout -q -- . && make -j16 >/dev/null 2>&1
timeout 300 "$demo" "$wt" >"$d/demo_without.log" 2>&1; rc_without=$?
rm -f test-suite.log unit-tests.log tests/test_all.sh.log tests/test_all.sh.trs
echo "RESULT $wt $k warnings=$warn tests_pass=$pass demo_with_patch=$rc_with demo_pristine=$rc_without"
