#!/usr/bin/env python3-vt
"""Validates MANIFEST.json and every evidence file against the harness schemas."""
import json, sys, glob, os
import jsonschema
V = os.path.dirname(os.path.dirname(os.path.abspath(__file__)))
jsonschema.validate(json.load(open(V + '/MANIFEST.json')), json.load(open('/root/.vp/MANIFEST.schema.json')))
print('MANIFEST.json ok')
es = json.load(open('/root/.vp/EVIDENCE.schema.json'))
for p in sorted(glob.glob(V + '/evidence/*.json')):
    jsonschema.validate(json.load(open(p)), es); print(os.path.basename(p), 'ok')
