/* autoconf.h.  Generated from autoconf.h.in by configure.  */
/* autoconf.h.in.  Generated from configure.ac by autoheader.  */

/* Define to 1 if you have the <arpa/inet.h> header file. */
#define HAVE_ARPA_INET_H 1

/* Define to 1 if you have the `atoi' function. */
#define HAVE_ATOI 1

/* Define to 1 if you have the `closedir' function. */
#define HAVE_CLOSEDIR 1

/* Define to 1 if you have the <dirent.h> header file. */
#define HAVE_DIRENT_H 1

/* Define to 1 if you have the <dlfcn.h> header file. */
#define HAVE_DLFCN_H 1

/* Define if <evutil.h> defines evutil_socket_t */
#define HAVE_EVUTIL_SOCKET_T 1

/* Define to 1 if you have the <fcntl.h> header file. */
#define HAVE_FCNTL_H 1

/* Define to 1 if you have the `fnmatch' function. */
#define HAVE_FNMATCH 1

/* Define to 1 if you have the <fnmatch.h> header file. */
#define HAVE_FNMATCH_H 1

/* Define to 1 if you have the `ftime' function. */
#define HAVE_FTIME 1

/* Define to 1 if you have the `gettimeofday' function. */
#define HAVE_GETTIMEOFDAY 1

/* Define to 1 if you have the `gmtime' function. */
#define HAVE_GMTIME 1

/* Define to 1 if you have the `gmtime_r' function. */
#define HAVE_GMTIME_R 1

/* Define to 1 if you have the <inttypes.h> header file. */
#define HAVE_INTTYPES_H 1

/* Define to 1 if you have the `dl' library (-ldl). */
#define HAVE_LIBDL 1

/* Define to 1 if you have the `rt' library (-lrt). */
#define HAVE_LIBRT 1

/* Define to 1 if you have the `socket' library (-lsocket). */
/* #undef HAVE_LIBSOCKET */

/* Define to 1 if you have the <netdb.h> header file. */
#define HAVE_NETDB_H 1

/* Define to 1 if you have the <netinet/in.h> header file. */
#define HAVE_NETINET_IN_H 1

/* Define to 1 if you have the `opendir' function. */
#define HAVE_OPENDIR 1

/* Define to 1 if you have the `readdir' function. */
#define HAVE_READDIR 1

/* Define to 1 if you have the `regcomp' function. */
#define HAVE_REGCOMP 1

/* Define to 1 if you have the `regexec' function. */
#define HAVE_REGEXEC 1

/* Define to 1 if you have the <regex.h> header file. */
#define HAVE_REGEX_H 1

/* Define to 1 if you have the `regfree' function. */
#define HAVE_REGFREE 1

/* Define to 1 if you have the `sigaction' function. */
#define HAVE_SIGACTION 1

/* Define if struct sockaddr has sa_len field */
/* #undef HAVE_SOCKADDR_SA_LEN */

/* Define to 1 if you have the `socket' function. */
#define HAVE_SOCKET 1

/* Define to 1 if you have the <stddef.h> header file. */
#define HAVE_STDDEF_H 1

/* Define to 1 if you have the <stdint.h> header file. */
#define HAVE_STDINT_H 1

/* Define to 1 if you have the <stdio.h> header file. */
#define HAVE_STDIO_H 1

/* Define to 1 if you have the <stdlib.h> header file. */
#define HAVE_STDLIB_H 1

/* Define to 1 if you have the `strerror' function. */
#define HAVE_STRERROR 1

/* Define to 1 if you have the <strings.h> header file. */
#define HAVE_STRINGS_H 1

/* Define to 1 if you have the <string.h> header file. */
#define HAVE_STRING_H 1

/* Define to 1 if you have the `strlcat' function. */
/* #undef HAVE_STRLCAT */

/* Define to 1 if you have the `strlcpy' function. */
/* #undef HAVE_STRLCPY */

/* Define to 1 if you have the `strsignal' function. */
#define HAVE_STRSIGNAL 1

/* Define to 1 if you have the `strtok_r' function. */
#define HAVE_STRTOK_R 1

/* Define if struct addrinfo declared */
#define HAVE_STRUCT_ADDRINFO /**/

/* Define if struct sockaddr_storage declared */
#define HAVE_STRUCT_SOCKADDR_STORAGE /**/

/* Define to 1 if you have the `sysconf' function. */
#define HAVE_SYSCONF 1

/* Define to 1 if you have the <sys/epoll.h> header file. */
#define HAVE_SYS_EPOLL_H 1

/* Define to 1 if you have the <sys/select.h> header file. */
#define HAVE_SYS_SELECT_H 1

/* Define to 1 if you have the <sys/socket.h> header file. */
#define HAVE_SYS_SOCKET_H 1

/* Define to 1 if you have the <sys/stat.h> header file. */
#define HAVE_SYS_STAT_H 1

/* Define to 1 if you have the <sys/timeb.h> header file. */
#define HAVE_SYS_TIMEB_H 1

/* Define to 1 if you have the <sys/times.h> header file. */
#define HAVE_SYS_TIMES_H 1

/* Define to 1 if you have the <sys/time.h> header file. */
#define HAVE_SYS_TIME_H 1

/* Define to 1 if you have the <sys/types.h> header file. */
#define HAVE_SYS_TYPES_H 1

/* Define to 1 if you have the <sys/wait.h> header file. */
#define HAVE_SYS_WAIT_H 1

/* Define to 1 if you have the <unistd.h> header file. */
#define HAVE_UNISTD_H 1

/* Define if we have va_copy */
#define HAVE_VA_COPY 1

/* Define to 1 if you have the `vsnprintf' function. */
#define HAVE_VSNPRINTF 1

/* Define if we have __va_copy */
#define HAVE___VA_COPY 1

/* Define to the sub-directory where libtool stores uninstalled libraries. */
#define LT_OBJDIR ".libs/"

/* Name of package */
#define PACKAGE "iauthd-c"

/* Define to the address where bug reports for this package should be sent. */
#define PACKAGE_BUGREPORT "coder-com@undernet.org"

/* Define to the full name of this package. */
#define PACKAGE_NAME "iauthd-c"

/* Define to the full name and version of this package. */
#define PACKAGE_STRING "iauthd-c 1.0.5"

/* Define to the one symbol short name of this package. */
#define PACKAGE_TARNAME "iauthd-c"

/* Define to the home page for this package. */
#define PACKAGE_URL ""

/* Define to the version of this package. */
#define PACKAGE_VERSION "1.0.5"

/* Define to 1 if all of the C90 standard headers exist (not just the ones
   required in a freestanding environment). This macro is provided for
   backward compatibility; new code need not use it. */
#define STDC_HEADERS 1

/* Define to 1 if you can safely include both <sys/time.h> and <time.h>. This
   macro is obsolete. */
#define TIME_WITH_SYS_TIME 1

/* Define to 1 if your <sys/time.h> declares `struct tm'. */
/* #undef TM_IN_SYS_TIME */

/* Version number of package */
#define VERSION "1.0.5"

/* Define to empty if `const' does not conform to ANSI C. */
/* #undef const */

/* Define to `__inline__' or `__inline' if that's what the C compiler
   calls it, or to nothing if 'inline' is not supported under any name.  */
#ifndef __cplusplus
/* #undef inline */
#endif
