#!/usr/bin/env python3
"""run_benign.py [dir]: applies each behaviour-preserving patch (*.diff) in a directory (default
/verif/benign) to a scratch export of /repo's HEAD and runs every claimed check.  Anything but exit 0
is printed: exit 1 on a benign change is a false alarm to fix; exit 2 (anchor lost) is tolerated but listed."""
import json, os, shutil, subprocess, sys, tempfile, re, glob
V = os.path.dirname(os.path.dirname(os.path.abspath(__file__)))
d = sys.argv[1] if len(sys.argv) > 1 else V + '/benign'
claimed = [c['property_id'] for c in json.load(open(V + '/MANIFEST.json'))['checks']]
base = tempfile.mkdtemp(prefix='benignrun-')
try:
    pristine = os.path.join(base, 'pristine'); os.makedirs(pristine)
    subprocess.check_call('git -C /repo archive HEAD | tar -x -C %s' % pristine, shell=True)
    shutil.copy('/repo/autoconf.h', pristine)
    for patch in sorted(glob.glob(d + '/*.diff') + glob.glob(d + '/*/patch.diff')):
        name = os.path.relpath(patch, d)
        work = os.path.join(base, 'w'); shutil.rmtree(work, ignore_errors=True); shutil.copytree(pristine, work)
        r = subprocess.run(['patch', '-p1', '-s', '-f', '-d', work, '-i', patch], stdout=subprocess.PIPE, stderr=subprocess.STDOUT)
        if r.returncode != 0:
            print('%-40s PATCH-FAILED %s' % (name, r.stdout.decode()[-150:].replace('\n', ' '))); continue
        c = subprocess.run(['clang', '-fsyntax-only', '-DHAVE_CONFIG_H', '-I' + work, '-DSYSCONFDIR="/e"', '-DMODULESDIR="/m"', '-DLOGDIR="/l"'] +
                           [os.path.join(work, f) for f in sorted(set(re.findall(r'^\+\+\+ b/(\S+\.c)', open(patch).read(), re.M)))], stdout=subprocess.PIPE, stderr=subprocess.STDOUT)
        if c.returncode != 0 and 'no input files' not in c.stdout.decode():
            print('%-40s DOES-NOT-COMPILE %s' % (name, c.stdout.decode()[-200:].replace('\n', ' '))); continue
        bad = []
        for pid in claimed:
            c = subprocess.run([V + '/bin/check', pid, '--repo', work, '--evidence-dir', os.path.join(base, 'ev')], stdout=subprocess.PIPE, stderr=subprocess.STDOUT)
            if c.returncode != 0:
                out = c.stdout.decode()
                bad.append((pid, c.returncode, sorted(set(re.findall(r'violated (\S+) in', out))) or re.findall(r'ANALYSIS-BROKEN property=\S+ (.{0,140})', out)[:2]))
        print('%-40s %s' % (name, 'silent' if not bad else bad))
finally:
    shutil.rmtree(base, ignore_errors=True)
