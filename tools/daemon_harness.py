"""Daemon harness (from a seed demo): drives <tree>/src/iauthd-c over pipes for replaying inputs against the real daemon."""
#!/usr/bin/env python3
# C04/1 demo: stale reply (older serial) after id reuse must be ignored.
import os, shutil, signal, subprocess, sys, tempfile, time, select

class Daemon(object):
    """Drives <tree>/src/iauthd-c over pipes (always under timeout(1))."""
    def __init__(self, tree, conf_text):
        self.tree = os.path.abspath(tree)
        self.dir = tempfile.mkdtemp(prefix="c04demo.")
        self.conf = os.path.join(self.dir, "demo.conf")
        self.write_conf(conf_text)
        self.p = subprocess.Popen(
            ["timeout", "-k", "2", "25", os.path.join(self.tree, "src", "iauthd-c"),
             "-n", "-f", self.conf],
            stdin=subprocess.PIPE, stdout=subprocess.PIPE,
            stderr=subprocess.DEVNULL, cwd=self.tree)
        self.buf = b""
        self.out = []
        self.sync()

    def write_conf(self, body):
        text = ('core {\n library_path ( "%s/modules/.libs" )\n modules ( iauth_xquery )\n}\n'
                'logs { "*.>=fatal" "file:%s/demo.log" }\n'
                'iauth { timeout 0 }\n%s\n') % (self.tree, self.dir, body)
        with open(self.conf, "w") as f:
            f.write(text)

    def _readline(self, deadline):
        while b"\n" not in self.buf:
            left = deadline - time.time()
            if left <= 0:
                return None
            r, _, _ = select.select([self.p.stdout], [], [], left)
            if not r:
                return None
            chunk = os.read(self.p.stdout.fileno(), 65536)
            if not chunk:
                return None
            self.buf += chunk
        line, self.buf = self.buf.split(b"\n", 1)
        return line.decode("latin-1")

    def sync(self):
        """Ask for 'stats2' (terminator last) and read up to the terminator.
        Returns the lines seen, minus the statistics chatter."""
        got = []
        try:
            self.p.stdin.write(b"-1 ? stats2\n")
            self.p.stdin.flush()
        except (BrokenPipeError, OSError):
            got.append("!! daemon is gone (write failed)")
            self.out += got
            return got
        deadline = time.time() + 10
        while True:
            line = self._readline(deadline)
            if line is None:
                got.append("!! daemon died or hung (rc=%s)" % self.p.poll())
                break
            if line == "s":
                break
            if line.startswith("S "):
                continue
            got.append(line)
        self.out += got
        return got

    def send(self, *lines):
        try:
            for l in lines:
                self.p.stdin.write(l.encode() + b"\n")
            self.p.stdin.flush()
        except (BrokenPipeError, OSError):
            pass
        return self.sync()

    def daemon_pid(self):
        me = str(self.p.pid)
        for d in os.listdir("/proc"):
            if d.isdigit():
                try:
                    with open("/proc/%s/stat" % d) as f:
                        st = f.read()
                    if st.rsplit(")", 1)[1].split()[1] == me:
                        return int(d)
                except (IOError, OSError, IndexError):
                    pass
        raise RuntimeError("cannot find daemon pid")

    def config_report(self):
        self.p.stdin.write(b"-1 ? config\n"); self.p.stdin.flush()
        saved = len(self.out)
        got = self.sync()
        del self.out[saved:]
        return [l for l in got if l.startswith("A xquery")]

    def reload(self, body, pred):
        """Rewrite the config, SIGUSR1, poll '? config' until pred(report)."""
        self.write_conf(body)
        os.kill(self.daemon_pid(), signal.SIGUSR1)
        rep = None
        for _ in range(200):
            rep = self.config_report()
            if pred(rep):
                return rep
            time.sleep(0.05)
        raise RuntimeError("reload not observed; last report %r" % rep)

    def close(self):
        try:
            self.p.stdin.close()
        except OSError:
            pass
        try:
            self.p.wait(timeout=10)
        except subprocess.TimeoutExpired:
            self.p.kill()
        shutil.rmtree(self.dir, ignore_errors=True)
        return self.p.returncode

