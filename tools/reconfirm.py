#!/usr/bin/env python3
"""reconfirm.py <jobs> <seed-id-prefix>...: re-confirm seeded defects against /repo's current HEAD (after a fix
changed the base): for each seed, in a scratch worktree under /tmp, tools/confirm_seed.sh must report tests 89,
demo failing with the patch and passing without.  Prints one line per seed; worktrees are removed at the end."""
import sys, os, subprocess, glob, shutil, json
from concurrent.futures import ThreadPoolExecutor
import queue
V = os.path.dirname(os.path.dirname(os.path.abspath(__file__)))
jobs = int(sys.argv[1]); prefixes = sys.argv[2:]
seeds = sorted(d for d in os.listdir(V + '/seeded') if os.path.isdir(V + '/seeded/' + d) and any(d.startswith(p) for p in prefixes))
wts = queue.Queue()
made = []
for i in range(jobs):
    d = '/tmp/rc%d' % i
    subprocess.run(['sh', V + '/tools/mkworktree.sh', d], stdout=subprocess.DEVNULL, stderr=subprocess.DEVNULL)
    made.append(d); wts.put(d)

def one(sid):
    wt = wts.get()
    try:
        sd = os.path.join(wt, '_seed', '1'); shutil.rmtree(os.path.join(wt, '_seed'), ignore_errors=True); os.makedirs(sd)
        for f in glob.glob(V + '/seeded/%s/*' % sid):
            b = os.path.basename(f)
            if os.path.isfile(f) and (b.startswith('demo') and not b.endswith('.log') and not b.endswith('.out')) or b == 'patch.diff' or b.endswith(('.c', '.h', '.conf', '.sh', '.py', '.txt')):
                shutil.copy(f, sd)
            elif os.path.isdir(f):
                shutil.copytree(f, os.path.join(sd, b))
        r = subprocess.run(['sh', V + '/tools/confirm_seed.sh', wt, '1'], stdout=subprocess.PIPE, stderr=subprocess.STDOUT)
        out = r.stdout.decode().strip().split('\n')[-1]
        ok = 'tests_pass=89' in out and 'demo_pristine=0' in out and 'demo_with_patch=0' not in out and 'failed' not in out
        return '%-12s %s %s' % (sid, 'OK ' if ok else 'BAD', out.replace('RESULT ' + wt + ' 1 ', ''))
    finally:
        wts.put(wt)
try:
    with ThreadPoolExecutor(jobs) as ex:
        for line in ex.map(one, seeds):
            print(line, flush=True)
finally:
    for d in made:
        subprocess.run(['git', '-C', '/repo', 'worktree', 'remove', '--force', d], stdout=subprocess.DEVNULL, stderr=subprocess.DEVNULL)
        shutil.rmtree(d, ignore_errors=True)
