#!/usr/bin/env python3
"""ingest_round.py <round> <worktree-root> <pid> [...]: confirms the seeded changes a sub-agent left under
<root>/<pid>/_seed/<k>/ with tools/confirm_seed.sh (apply, build without warnings, suite passes, demo fails;
revert, demo passes) and copies the confirmed ones to /verif/seeded/<pid>-<round>-<k>/ with a meta.json."""
import json, os, re, shutil, subprocess, sys
V = os.path.dirname(os.path.dirname(os.path.abspath(__file__)))
rnd, root = sys.argv[1], sys.argv[2]
for pid in sys.argv[3:]:
    wt = os.path.join(root, pid)
    base = subprocess.run(['git', '-C', wt, 'rev-parse', '--short', 'HEAD'], stdout=subprocess.PIPE).stdout.decode().strip()
    for k in sorted(os.listdir(os.path.join(wt, '_seed'))):
        d = os.path.join(wt, '_seed', k)
        if not (k.isdigit() and os.path.exists(os.path.join(d, 'patch.diff'))):
            continue
        r = subprocess.run(['sh', os.path.join(V, 'tools', 'confirm_seed.sh'), wt, k], stdout=subprocess.PIPE, stderr=subprocess.STDOUT)
        out = r.stdout.decode()
        m = re.search(r'warnings=(\d+) tests_pass=(\d*) demo_with_patch=(\d+) demo_pristine=(\d+)', out)
        ok = bool(m) and m.group(1) == '0' and m.group(2) == '89' and m.group(3) != '0' and m.group(4) == '0'
        print(pid, k, 'CONFIRMED' if ok else 'REJECTED', out.strip().split('\n')[-1])
        if not ok:
            continue
        sid = '%s-%s-%s' % (pid, rnd, k)
        dst = os.path.join(V, 'seeded', sid)
        shutil.rmtree(dst, ignore_errors=True)
        os.makedirs(dst)
        demo = None
        for f in sorted(os.listdir(d)):
            p = os.path.join(d, f)
            if os.path.isfile(p) and os.path.getsize(p) < 200000 and (f in ('patch.diff', 'notes.md', 'demo_with.log', 'demo_without.log') or f.startswith('demo.') or f.endswith('.diff') or f.endswith('.c') or f.endswith('.conf')):
                shutil.copy(p, dst)
                if f.startswith('demo.'):
                    demo = f
        for sub in ('lib',):
            sp = os.path.join(wt, '_seed', sub)
            if os.path.isdir(sp) and sub in open(os.path.join(d, demo)).read():
                shutil.copytree(sp, os.path.join(dst, sub), dirs_exist_ok=True)
        files = sorted(set(re.findall(r'^\+\+\+ b/(\S+)', open(os.path.join(d, 'patch.diff')).read(), re.M)))
        json.dump({'id': sid, 'breaks_property': pid,
                   'origin': 'independent sub-agent (round %s) given only the property text (and the titles of earlier seeds, to avoid repeats) and a scratch worktree' % rnd,
                   'files': files, 'demo': demo, 'needs_to_manifest': 'see notes.md',
                   'confirmed': {'how': 'tools/confirm_seed.sh: git apply, make -j16 (no warnings), make check (89/89 pass), demo exits non-zero; git checkout, make, demo exits 0',
                                 'base_commit': base, 'tests_pass_with_patch': 89, 'demo_with_patch': 'fails', 'demo_pristine': 'passes'},
                   'detected_by': None}, open(os.path.join(dst, 'meta.json'), 'w'), indent=1)
