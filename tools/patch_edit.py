#!/usr/bin/env python3
"""patch_edit.py <patch.diff> <edit.py>: applies a corpus patch to /repo HEAD in a scratch tree, exec's <edit.py> (with
`tree` and `sub(path, old, new)`) to adjust the patched files, and rewrites the patch as the diff against HEAD."""
import os, shutil, subprocess, sys, tempfile
p = os.path.abspath(sys.argv[1]); edit = open(sys.argv[2]).read()
d = tempfile.mkdtemp(prefix='pe.')
os.makedirs(d + '/a'); os.makedirs(d + '/b')
sh = lambda c: subprocess.run(c, shell=True)
sh('git -C /repo archive HEAD | tar -x -C %s/a' % d); sh('git -C /repo archive HEAD | tar -x -C %s/b' % d)
assert sh('patch -p1 -s -f -d %s/b -i %s' % (d, p)).returncode == 0, 'patch does not apply to HEAD'
sh("find %s/b -name '*.orig' -delete" % d)
tree = d + '/b'
def sub(path, old, new, count=1):
    f = os.path.join(tree, path); s = open(f).read()
    assert s.count(old) == count, (path, old, s.count(old))
    open(f, 'w').write(s.replace(old, new))
exec(edit)
out = subprocess.run('cd %s && diff -ruN a b' % d, shell=True, stdout=subprocess.PIPE).stdout.decode()
res = []
for l in out.splitlines(True):
    if l.startswith('diff -ruN'):
        continue
    if l.startswith('--- a/'):
        fn = l.split()[1][2:]; res.append('diff --git a/%s b/%s\n' % (fn, fn)); res.append('--- a/%s\n' % fn)
    elif l.startswith('+++ b/'):
        res.append('+++ b/%s\n' % l.split()[1][2:])
    else:
        res.append(l)
open(p, 'w').write(''.join(res))
shutil.rmtree(d)
print('OK' if sh('git -C /repo apply --check %s' % p).returncode == 0 else 'FAIL', p)
