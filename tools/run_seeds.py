#!/usr/bin/env python3
"""run_seeds.py [--all-props] [seed-id ...]: applies each seeded defect under /verif/seeded to a scratch
export of /repo's HEAD (outside /repo and /verif, removed afterwards) and runs the checks against it.
Prints which rules fire; with --update writes `detected_by` into meta.json.  Never touches /repo."""
import json, os, shutil, subprocess, sys, tempfile, re, glob
V = os.path.dirname(os.path.dirname(os.path.abspath(__file__)))
args = [a for a in sys.argv[1:] if not a.startswith('--')]
allprops = '--all-props' in sys.argv
update = '--update' in sys.argv
claimed = [c['property_id'] for c in json.load(open(V + '/MANIFEST.json'))['checks']]
allseeds = sorted(d for d in os.listdir(V + '/seeded') if os.path.exists(os.path.join(V, 'seeded', d, 'meta.json')))
seeds = allseeds if not args else [d for d in allseeds if any(d == a or d.startswith(a + '-') for a in args)]
base = tempfile.mkdtemp(prefix='seedrun-')
try:
    pristine = os.path.join(base, 'pristine')
    os.makedirs(pristine)
    subprocess.check_call('git -C /repo archive HEAD | tar -x -C %s' % pristine, shell=True)
    shutil.copy('/repo/autoconf.h', pristine)
    summary = []
    for sid in seeds:
        d = os.path.join(V, 'seeded', sid)
        meta = json.load(open(d + '/meta.json'))
        work = os.path.join(base, sid)
        shutil.copytree(pristine, work)
        r = subprocess.run(['git', 'apply', '--unsafe-paths', '--directory=' + work, d + '/patch.diff'], cwd='/', stdout=subprocess.PIPE, stderr=subprocess.STDOUT)
        if r.returncode != 0:
            r = subprocess.run(['patch', '-p1', '-s', '-d', work, '-i', d + '/patch.diff'], stdout=subprocess.PIPE, stderr=subprocess.STDOUT)
        if r.returncode != 0:
            summary.append((sid, 'PATCH-FAILED', r.stdout.decode()[-200:])); continue
        props = claimed if allprops else [p for p in [meta['breaks_property']] if p in claimed]
        fired = {}
        for pid in props:
            c = subprocess.run([V + '/bin/check', pid, '--repo', work, '--evidence-dir', os.path.join(base, 'ev')], stdout=subprocess.PIPE, stderr=subprocess.STDOUT)
            out = c.stdout.decode()
            rules = sorted(set(re.findall(r'violated (\S+) in', out)))
            if c.returncode == 1:
                fired[pid] = rules
            elif c.returncode == 2:
                fired[pid] = ['ANALYSIS-BROKEN: ' + ' | '.join(re.findall(r'ANALYSIS-BROKEN property=\S+ (.*)', out))[:300]]
        own = meta['breaks_property']
        status = 'not-claimed' if own not in claimed else ('CAUGHT' if any(not x.startswith('ANALYSIS') for x in fired.get(own, [])) else ('broken' if own in fired else 'MISSED'))
        summary.append((sid, status, fired))
        if update:
            meta['detected_by'] = fired or None
            meta['detection_status'] = status
            json.dump(meta, open(d + '/meta.json', 'w'), indent=1)
        shutil.rmtree(work, ignore_errors=True)
    for sid, st, f in summary:
        print('%-8s %-12s %s' % (sid, st, f))
finally:
    shutil.rmtree(base, ignore_errors=True)
