#!/usr/bin/env python3
"""Replay of ledger entry F51 (C07): the class a client gets depended on whether ANOTHER client was still waiting.
iauth_xquery_x_reply released the slot of a service that a reload had retired as soon as its last awaited answer came in -
before the request was re-checked - so a class rule with `xreply_ok <that service>` no longer found the service; with a
second client still waiting on it, the slot survived and the rule matched.  usage: f51_unref_before_check.py [tree]"""
import os, sys
sys.path.insert(0, os.path.join(os.path.dirname(os.path.abspath(__file__)), '..', 'tools'))
import daemon_harness
from daemon_harness import Daemon
tree = sys.argv[1] if len(sys.argv) > 1 else '/repo'
class D2(Daemon):
    def write_conf(self, body):
        text = ('core {\n library_path ( "%s/modules/.libs" )\n modules ( iauth_xquery, iauth_class )\n}\n'
                'logs { "*.>=fatal" "file:%s/demo.log" }\niauth { timeout 0 }\n%s\n') % (self.tree, self.dir, body)
        open(self.conf, 'w').write(text)
RULES = 'iauth_class { "a_trusted" { class trusted\n xreply_ok "login.example.org" }\n "z_default" { class default_clients } }'
WITH = 'iauth_xquery { login.example.org login }\n' + RULES
WITHOUT = 'iauth_xquery { }\n' + RULES
def client(n, name):
    return ['%d C 10.0.0.%d 400%d 10.9.9.9 6667' % (n, n, n), '%d P :+x %s secret' % (n, name), '%d N h%d.example.net' % (n, n), '%d u %s' % (n, name), '%d n %s' % (n, name), '%d U %s :%s' % (n, name, name)]
res = {}
for other in (False, True):
    d = D2(tree, WITH)
    try:
        d.send(*client(1, 'alice'))
        if other:
            d.send(*client(2, 'bob'))
        d.reload(WITHOUT, lambda rep: any('-login.example.org' in l for l in rep))
        out = d.send('-1 X login.example.org 1_1 :OK alice:1700000000')
        res[other] = [l for l in out if l.startswith('R 1 ')]
    finally:
        d.close()
print('client 1 alone:          ', res[False])
print('with client 2 waiting:   ', res[True])
bad = res[False] != res[True]
if bad:
    print('DEFECT: the verdict for client 1 depends on whether client 2 is waiting')
sys.exit(1 if bad else 0)
