#!/usr/bin/env python3
"""Replay of ledger entry F55 (C09/C05): a login service answering `OK :77` made `:77` the account stamp, and the verdict
`R <id> <ip> <port> :77 <class>` - a line whose account word starts the trailing parameter and swallows the class.
usage: f55_colon_account.py [tree]  (exit 1 = defect shown)"""
import os, sys
sys.path.insert(0, os.path.join(os.path.dirname(os.path.abspath(__file__)), '..', 'tools'))
from daemon_harness import Daemon
tree = sys.argv[1] if len(sys.argv) > 1 else '/repo'
d = Daemon(tree, 'iauth_xquery { login.svc login }')
bad = []
try:
    out = d.send('1 C 10.0.0.1 1234 10.0.0.2 6667', '1 N host.example.org', '1 u ident', '1 n nick', '1 P :+x acct pass', '1 U user :real name')
    out = d.send('-1 X login.svc 1_1 :OK :77')
    print('after `OK :77`:', out)
    for l in out:
        w = l.split(' ')
        if w[0] in ('R', 'D') and any(x.startswith(':') for x in w[4:5]):
            bad.append('the verdict %r has an account word that starts with a colon' % l)
finally:
    d.close()
for b in bad:
    print('DEFECT:', b)
sys.exit(1 if bad else 0)
