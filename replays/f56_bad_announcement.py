#!/usr/bin/env python3
"""Replay of ledger entries F56 (C09) and F57 (C10): an announcement whose address cannot be parsed was acted on with
whatever the parser had written before it gave up (`37 C 1:2:3:4:5:6:7:8:9 ...` answered as 1:2:3:4:5:6:7:8), and an
announcement with id -1 created a request no later message can name (`-1 D` is garbage: "1 in use" for good).
usage: f56_bad_announcement.py [tree]  (exit 1 = defect shown)"""
import os, sys
sys.path.insert(0, os.path.join(os.path.dirname(os.path.abspath(__file__)), '..', 'tools'))
from daemon_harness import Daemon
tree = sys.argv[1] if len(sys.argv) > 1 else '/repo'
d = Daemon(tree, '')
bad = []
try:
    out = d.send('37 C 1:2:3:4:5:6:7:8:9 1000 10.0.0.1 6667', '37 H Users')
    print('unparsable address:', out)
    if any(l.startswith(('D 37 ', 'R 37 ')) for l in out):
        bad.append('client 37 was answered under an address the server never announced: %r' % [l for l in out if l[:1] in 'DR'][0])
    d.send('-1 C 1.1.1.1 1 2.2.2.2 2', '-1 D', '-1 T')
    d.p.stdin.write(b'-1 ? stats2\n'); d.p.stdin.flush()
    import time
    use = []
    dl = time.time() + 5
    while True:
        l = d._readline(dl)
        if l is None or l == 's':
            break
        if 'in use' in l:
            use.append(l)
    print('after `-1 C`, `-1 D`, `-1 T`:', use[-1:] )
    if use and ' 0 in use' not in use[-1]:
        bad.append('a request announced with id -1 stays in use for good')
finally:
    d.close()
for b in bad:
    print('DEFECT:', b)
sys.exit(1 if bad else 0)
