#!/usr/bin/env python3
"""Replay of ledger entry F31 (C06): a service slot freed at a reload and handed to a new service keeps, for clients in
flight across the reload, the old service's per-client bits.  usage: f31_slot_reuse.py [tree]  (exit 1 = defect shown)"""
import os, sys
sys.path.insert(0, os.path.join(os.path.dirname(os.path.abspath(__file__)), '..', 'tools'))
from daemon_harness import Daemon
tree = sys.argv[1] if len(sys.argv) > 1 else '/repo'
A = 'iauth_xquery { svcA dronecheck; svcB dronecheck }'
NONE = 'iauth_xquery { svcB dronecheck }'
C = 'iauth_xquery { svcB dronecheck; svcC dronecheck }'
d = Daemon(tree, A)
bad = []
try:
    out = d.send('5 C 192.0.2.5 40000 10.0.0.1 6667', '5 N 192.0.2.5', '5 d', '5 u ident', '5 n nick', '5 U user host serv :real')
    xs = [l for l in out if l.startswith('X ')]
    print('before reload:', xs)
    tag = xs[0].split()[2] if xs else None
    # svcA answers; svcB never does, so the client stays in flight across the reloads
    out = d.send('-1 X svcA %s OK' % tag)
    print('svcA answers OK:', out)
    d.reload(NONE, lambda rep: not any('svcA' in l for l in rep))
    rep = d.reload(C, lambda rep: any('svcC' in l for l in rep))
    print('config after reloads:', rep)
    out = d.send('5 H Users')
    print('after hurry-up:', out)
    out2 = d.send('5 P :pw')
    print('after P:', out2)
    if not any(l.startswith('X svcC') for l in out + out2):
        bad.append('client 5 was never reported to svcC')
finally:
    d.close()
for b in bad:
    print('DEFECT:', b)
sys.exit(1 if bad else 0)
