#!/usr/bin/env python3
"""Replay of ledger entry F47 (C08/C15): iauth_class keeps the module name pointer its constructor was handed; that
pointer is an element of the core.modules list, which a reload with a different list frees.  `-1 ? config` then reads
freed memory.  Runs the daemon under valgrind.  usage: f47_owner_uaf.py [tree]  (exit 1 = defect shown)"""
import os, signal, subprocess, sys, tempfile, time, shutil
tree = os.path.abspath(sys.argv[1] if len(sys.argv) > 1 else '/repo')
d = tempfile.mkdtemp(prefix='f47.')
conf = os.path.join(d, 'c.conf')
def write(mods):
    open(conf, 'w').write('core { library_path ( "%s/modules/.libs" ); modules ( %s ) }\nlogs { "*.>=fatal" "file:%s/log" }\n' % (tree, mods, d))
write('iauth, iauth_xquery, iauth_class')
log = os.path.join(d, 'vg.log')
p = subprocess.Popen(['timeout', '-k', '2', '60', 'valgrind', '-q', '--log-file=' + log, '--error-exitcode=9', os.path.join(tree, 'src', 'iauthd-c'), '-n', '-f', conf],
                     stdin=subprocess.PIPE, stdout=subprocess.PIPE, stderr=subprocess.DEVNULL)
try:
    time.sleep(3)
    write('iauth_class, iauth, iauth_xquery')
    # the daemon is the grandchild: timeout -> valgrind(iauthd-c)
    kids = open('/proc/%d/task/%d/children' % (p.pid, p.pid)).read().split()
    os.kill(int(kids[0]), signal.SIGUSR1)
    time.sleep(2)
    p.stdin.write(b'-1 ? config\n-1 ? stats\n'); p.stdin.flush()
    time.sleep(2)
    p.stdin.close()
    out = p.stdout.read().decode('latin-1')
    rc = p.wait()
finally:
    if p.poll() is None:
        p.kill()
vg = open(log).read() if os.path.exists(log) else ''
shutil.rmtree(d, ignore_errors=True)
print(out[-600:])
bad = 'Invalid read' in vg
print('valgrind:', 'INVALID READ of freed memory' if bad else 'clean', '(rc=%s)' % rc)
if bad:
    print('\n'.join(vg.splitlines()[:14]))
sys.exit(1 if bad else 0)
