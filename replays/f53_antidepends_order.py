#!/usr/bin/env python3
"""Replay of ledger entry F53 (C20, recorded as known): module_antidepends() loads the dependent module from inside the
declaring module's constructor, so a module reached from there can finish constructing before one of its own
dependencies has.  Three stub modules: a: module_antidepends("e"); e: module_depends("d"); d: module_depends("a");
config `modules (a)`.  Edges e->a, e->d, d->a - acyclic.  usage: f53_antidepends_order.py [tree]  (exit 1 = shown)"""
import os, shutil, subprocess, sys, tempfile
tree = os.path.abspath(sys.argv[1] if len(sys.argv) > 1 else '/repo')
STUB = r'''
#include <stdio.h>
#include <stdlib.h>
void module_depends(const char *name, ...);
void module_antidepends(const char *name, ...);
static void ev(const char *what) { FILE *f = fopen(getenv("EVLOG"), "a"); if (f) { fprintf(f, "%s %s\n", what, MODNAME); fclose(f); } }
void module_constructor(const char name[]) { (void)name; ev("ctor-begin"); BODY ev("ctor-end"); }
'''
top = tempfile.mkdtemp(prefix='f53.')
try:
    mods = {'a': 'module_antidepends("e", NULL);', 'e': 'module_depends("d", NULL);', 'd': 'module_depends("a", NULL);'}
    os.mkdir(top + '/mods')
    for m, body in mods.items():
        src = '%s/%s.c' % (top, m)
        open(src, 'w').write('#define MODNAME "%s"\n#define BODY %s\n%s' % (m, body, STUB))
        subprocess.check_call(['timeout', '60', 'gcc', '-shared', '-fPIC', '-w', '-o', '%s/mods/%s.so' % (top, m), src])
    conf = top + '/c.conf'
    open(conf, 'w').write('core { library_path ( "%s/mods" ); modules ( a ) }\n' % top)
    env = dict(os.environ, EVLOG=top + '/ev.log')
    p = subprocess.run(['timeout', '10', tree + '/src/iauthd-c', '-n', '-k', '-f', conf], env=env, stdin=subprocess.DEVNULL, stdout=subprocess.PIPE, stderr=subprocess.STDOUT)
    evs = open(top + '/ev.log').read().split('\n') if os.path.exists(top + '/ev.log') else []
finally:
    shutil.rmtree(top, ignore_errors=True)
evs = [e for e in evs if e]
print(' | '.join(evs), '(rc=%d)' % p.returncode)
bad = 'ctor-end d' in evs and 'ctor-end a' in evs and evs.index('ctor-end d') < evs.index('ctor-end a')
if bad:
    print('DEFECT: d (which depends on a) finished constructing before a did')
sys.exit(1 if bad else 0)
