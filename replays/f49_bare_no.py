#!/usr/bin/env python3
"""Replay of ledger entry F49 (C02/C05): a refusal with an empty message, written without a trailing blank (`:NO`), is not
recognised: "Unexpected XR reply", the client is not refused (and is accepted when the timeout fires).  The module's own
header says the NO message "may be empty", and OK is accepted with or without the blank.
usage: f49_bare_no.py [tree]  (exit 1 = defect shown)"""
import os, sys
sys.path.insert(0, os.path.join(os.path.dirname(os.path.abspath(__file__)), '..', 'tools'))
from daemon_harness import Daemon
tree = sys.argv[1] if len(sys.argv) > 1 else '/repo'
d = Daemon(tree, 'iauth_xquery { drone.svc dronecheck }')
bad = []
try:
    out = d.send('1 C 10.0.0.1 1234 10.0.0.2 6667', '1 N host.example.org', '1 u ident', '1 n nick', '1 U user :real name')
    print('registration:', out)
    out = d.send('-1 X drone.svc 1_1 :NO')
    print('after bare NO:', out)
    if not any(l.startswith(('k 1 ', 'K 1 ')) for l in out):
        bad.append('the bare NO did not refuse client 1')
    out = d.send('2 C 10.0.0.2 1235 10.0.0.2 6667', '2 N host.example.org', '2 u ident', '2 n nick', '2 U user :real name', '-1 X drone.svc 2_2 :NO ')
    print('control (NO with the blank):', out)
finally:
    d.close()
for b in bad:
    print('DEFECT:', b)
sys.exit(1 if bad else 0)
