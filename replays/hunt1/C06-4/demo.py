#!/usr/bin/env python3
"""C06 demo 4: after a reload that changes a service's protocol in place, clients in flight that were asked under the old protocol are never asked under the new one."""
import os, sys, subprocess, tempfile, shutil, time, select, signal

class Daemon:
    """Runs <tree>/src/iauthd-c (under `timeout`) on a temporary configuration and talks to it over pipes."""
    def __init__(self, tree, services):
        self.tree = os.path.abspath(tree)
        self.tmp = tempfile.mkdtemp(prefix="c06demo_")
        self.conf = os.path.join(self.tmp, "demo.conf")
        self.write_conf(services)
        self.p = subprocess.Popen(
            ["timeout", "-k", "2", "30", os.path.join(self.tree, "src", "iauthd-c"), "-n", "-f", self.conf],
            stdin=subprocess.PIPE, stdout=subprocess.PIPE, stderr=subprocess.DEVNULL, cwd=self.tmp)
        self.buf = b""
        # wait for the start-up banner ("O S..." is its last line)
        self.start = self.read_until(lambda l: l.startswith("O "), 5.0)
    def write_conf(self, services):
        with open(self.conf, "w") as f:
            f.write('core { library_path ( "%s/modules/.libs" ); modules ( iauth_xquery ) }\n' % self.tree)
            f.write('logs { "*.>=info" "file:demo.log" }\n')
            f.write('iauth { timeout 0 }\n')
            f.write('iauth_xquery {\n%s\n}\n' % "\n".join("    " + s for s in services))
    def send(self, *lines):
        for l in lines:
            self.p.stdin.write(l.encode("latin-1") + b"\n")
        self.p.stdin.flush()
    def _pump(self, t):
        r, _, _ = select.select([self.p.stdout], [], [], max(t, 0))
        if not r:
            return False
        d = os.read(self.p.stdout.fileno(), 65536)
        if not d:
            return False
        self.buf += d
        return True
    def read(self, quiet=0.4):
        """Returns the lines written until the daemon has been quiet for `quiet` seconds."""
        while self._pump(quiet):
            pass
        *ls, self.buf = self.buf.split(b"\n")
        return [l.decode("latin-1") for l in ls]
    def read_until(self, pred, limit):
        out = []; end = time.time() + limit
        while time.time() < end:
            self._pump(0.1)
            *ls, self.buf = self.buf.split(b"\n")
            out += [l.decode("latin-1") for l in ls]
            if any(pred(l) for l in out):
                break
        return out
    def reload(self, services):
        """Rewrites the configuration file and sends SIGUSR1 (re-read) to the daemon."""
        self.write_conf(services)
        for pid in os.listdir("/proc"):
            if not pid.isdigit():
                continue
            try:
                with open("/proc/%s/stat" % pid) as f:
                    st = f.read()
                ppid = int(st[st.rindex(")") + 2:].split()[1])
            except Exception:
                continue
            if ppid == self.p.pid:
                os.kill(int(pid), signal.SIGUSR1)
        time.sleep(0.5)
    def close(self):
        try:
            self.p.stdin.close()
            self.p.wait(timeout=5)
        except Exception:
            self.p.kill()
        shutil.rmtree(self.tmp, ignore_errors=True)

def trace_run(tree, services, steps):
    d = Daemon(tree, services)
    trace = []
    try:
        for s in steps:
            if isinstance(s, list):
                d.reload(s)
                d.send("-1 ? config")
                cfg = [l for l in d.read(0.3) if l.startswith("A xquery")]
                trace.append(("(reload) iauth_xquery { %s }" % "; ".join(s), cfg))
            else:
                d.send(s)
                trace.append((s, [l for l in d.read(0.3) if l[:2] in ("X ", "D ", "R ", "k ")]))
    finally:
        d.close()
    return trace

def show(trace):
    for s, xs in trace:
        print("    > %s" % s)
        for l in xs: print("        < %s" % l)

def main():
    if len(sys.argv) != 2:
        print("usage: demo.py <tree>"); return 2
    tree = sys.argv[1]
    C = "5 C 192.0.2.7 40000 198.51.100.1 6667"
    data = ["5 N client.example.net", "5 u ident", "5 n nick", "5 U user :Real Name"]
    bad = 0

    print("== A: login -> dronecheck ==")
    t = trace_run(tree, ["gate.example.org login"],
                  [C, "5 P :+x acct secret", "-1 X gate.example.org 5_1 :OK acct",
                   ["gate.example.org dronecheck"]] + data + ["5 H"])
    show(t)
    checks = [l for s, xs in t[3:] for l in xs if l.startswith("X gate.example.org") and ":CHECK" in l]
    reconfigured = any("gate.example.org dronecheck" in l for l in t[3][1])
    print("expected: once N, u, n and U are in (at the U line), 'X gate.example.org 5_1 :CHECK nick ident 192.0.2.7 client.example.net :Real Name'")
    print("observed: %s" % (checks or "no CHECK at all; the client is accepted unchecked"))
    if reconfigured and not checks: bad += 1

    print("== B: dronecheck -> login ==")
    t = trace_run(tree, ["gate.example.org dronecheck"],
                  [C, "5 P :+x acct secret"] + data + [["gate.example.org login"], "5 H"])
    show(t)
    logins = [l for s, xs in t[6:] for l in xs if l.startswith("X gate.example.org") and ":LOGIN" in l]
    reconfigured = any("gate.example.org login" in l for l in t[6][1])
    print("expected: 'X gate.example.org 5_1 :LOGIN acct secret' at the latest when the server says hurry up (the well-formed password is known)")
    print("observed: %s" % (logins or "no LOGIN at all"))
    if reconfigured and not logins: bad += 1

    print("== control: the same client data against a service that was dronecheck / login from the start ==")
    t = trace_run(tree, ["gate.example.org dronecheck"], [C, "5 P :+x acct secret"] + data)
    c1 = [l for s, xs in t for l in xs if ":CHECK" in l]
    t = trace_run(tree, ["gate.example.org login"], [C, "5 P :+x acct secret"])
    c2 = [l for s, xs in t for l in xs if ":LOGIN" in l]
    print("    ", c1, c2)
    if not (c1 and c2):
        print("INCONCLUSIVE: control failed"); return 0
    if bad:
        print("DEFECT: %d of 2 in-place protocol changes left the in-flight client unasked under the new protocol" % bad); return 1
    print("ok"); return 0

if __name__ == "__main__":
    sys.exit(main())
