#!/usr/bin/env python3
"""C10 defect 1: a re-announced (replaced) request is freed but never counted as freed.

usage: demo.py <tree>      (<tree> = built iauthd-c tree: <tree>/src/iauthd-c, <tree>/modules/.libs/*.so)

Exit status: 1 = defect shown, 0 = not shown (or run inconclusive; a message says so).
"""
import os, re, shutil, subprocess, sys, tempfile

LINES = [
    "7 C 1.2.3.4 1000 5.6.7.8 6667",    # client 7 announced
    "7 C 1.2.3.4 1001 5.6.7.8 6667",    # id 7 announced again while live: replaces the first request
    "-1 ? stats",                        # (a)
    "7 D",                               # the (one) live client 7 is withdrawn
    "-1 ? stats",                        # (b)
]

CONF = """core {
    library_path ( "%(lib)s" )
    modules ( iauth_xquery )
}
iauth { }
iauth_xquery { svc.example.org dronecheck }
"""


def main():
    if len(sys.argv) != 2:
        print(__doc__)
        return 0
    tree = os.path.abspath(sys.argv[1])
    binary = os.path.join(tree, "src", "iauthd-c")
    lib = os.path.join(tree, "modules", ".libs")
    if not os.access(binary, os.X_OK) or not os.path.exists(os.path.join(lib, "iauth.so")):
        print("INCONCLUSIVE: %s is not built (no src/iauthd-c or modules/.libs/iauth.so)" % tree)
        return 0
    tmp = tempfile.mkdtemp(prefix="c10-demo1-")
    try:
        conf = os.path.join(tmp, "demo.conf")
        with open(conf, "w") as f:
            f.write(CONF % {"lib": lib})
        data = "".join(l + "\n" for l in LINES).encode()
        proc = subprocess.run(["timeout", "20", binary, "-n", "-f", conf], input=data,
                              stdout=subprocess.PIPE, stderr=subprocess.PIPE, cwd=tmp)
        out = proc.stdout.decode(errors="replace")
    finally:
        shutil.rmtree(tmp, ignore_errors=True)

    print("input lines sent to the daemon:")
    for l in LINES:
        print("    " + l)
    reports = re.findall(r"^S iauth :(\d+)-(\d+) reqs alloc, (\d+) in use; (\d+) data frees", out, re.M)
    print("daemon exit status: %d" % proc.returncode)
    if len(reports) != 2:
        print("INCONCLUSIVE: expected two 'S iauth' statistics lines, got %d; output was:\n%s\n%s"
              % (len(reports), out, proc.stderr.decode(errors="replace")))
        return 0
    expected = [("2", "1", "1"), ("2", "2", "0")]
    shown = False
    for tag, rep, exp in zip("ab", reports, expected):
        allocs, frees, in_use, data_frees = rep
        print("(%s) observed: S iauth :%s-%s reqs alloc, %s in use; %s data frees" % (tag, allocs, frees, in_use, data_frees))
        print("    expected: S iauth :%s-%s reqs alloc, %s in use   (allocated - freed == in use)" % exp)
        if int(allocs) - int(frees) != int(in_use):
            print("    -> the counters do not balance: %s allocated - %s freed = %d, but %s in use"
                  % (allocs, frees, int(allocs) - int(frees), in_use))
            shown = True
    if shown:
        print("DEFECT SHOWN: the request replaced by the second announcement was released (its per-module data"
              " is counted in 'data frees') but the 'freed' counter of the same report never saw it.")
        return 1
    print("defect not shown: allocated - freed equals in use in both reports")
    return 0


if __name__ == "__main__":
    sys.exit(main())
