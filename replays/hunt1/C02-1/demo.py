#!/usr/bin/env python3
"""C02 defect 1: a 33rd xquery service shares its bit of the 32-bit per-client
masks with the 1st one (1u << 32 == 1u << 0 on x86): one reply releases the
hold for both, and the other service's refusal is then ignored.

usage: demo.py <tree>     exits 1 when the tree shows the defect, 0 otherwise
"""
import os, select, shutil, subprocess, sys, tempfile, time

class Daemon:
    def __init__(self, tree, conf_rest, modules="iauth_xquery"):
        self.tmp = tempfile.mkdtemp(prefix="c02_d1_")
        conf = os.path.join(self.tmp, "d.conf")
        with open(conf, "w") as f:
            f.write('core { library_path ( "%s/modules/.libs" ); modules ( %s ); };\n' % (tree, modules))
            f.write('logs { "*.>=debug" "file:%s/d.log" };\n' % self.tmp)
            f.write(conf_rest)
        self.p = subprocess.Popen(["timeout", "60", os.path.join(tree, "src/iauthd-c"), "-n", "-f", conf],
                                  stdin=subprocess.PIPE, stdout=subprocess.PIPE,
                                  stderr=subprocess.STDOUT, cwd=self.tmp)
        self.read(0.5)
    def read(self, wait=0.2):
        out, end = b"", time.time() + wait
        while True:
            r, _, _ = select.select([self.p.stdout], [], [], max(0, end - time.time()))
            if not r:
                break
            chunk = os.read(self.p.stdout.fileno(), 65536)
            if not chunk:
                break
            out += chunk
        return out.decode("latin1").splitlines()
    def send(self, line, wait=0.2, show=True):
        self.p.stdin.write((line + "\n").encode("latin1"))
        self.p.stdin.flush()
        got = self.read(wait)
        if show:
            print("  > %s" % line)
            for l in got:
                print("  < %s" % l)
        return got
    def close(self):
        try:
            self.p.stdin.close()
            self.p.wait(timeout=5)
        except Exception:
            self.p.kill()
        shutil.rmtree(self.tmp, ignore_errors=True)

def verdicts(lines, cid):
    return [l for l in lines if l.split()[0] in ("D", "R", "k") and l.split()[1] == str(cid)]

def conf():
    svcs = "".join('    "s%02d.svc" %s;\n' % (i, "login" if i == 32 else "dronecheck") for i in range(33))
    return "iauth { timeout 0 };\niauth_xquery {\n" + svcs + "};\n"

REG = ["%d C 10.0.0.1 1234 10.0.0.2 6667", "%d N host.example", "%d u ident", "%d n nick",
       "%d U user :real name", "%d P :+x acct pw"]

def history_a(tree):
    """s00 never answers; everybody else says OK."""
    print("History A: 33 services (s00..s31 dronecheck, s32 login), no timeout; client 1 is sent to all 33;")
    print("           s32 and s01..s31 answer OK, s00 has NOT answered.")
    d = Daemon(tree, conf())
    try:
        asked = set()
        for l in REG:
            for o in d.send(l % 1, show=False):
                if o.startswith("X "):
                    asked.add(o.split()[1])
        print("  queries were sent to %d services (s00.svc asked: %s, s32.svc asked: %s)"
              % (len(asked), "s00.svc" in asked, "s32.svc" in asked))
        out = d.send("-1 X s32.svc 1_1 :OK acct")
        for i in range(1, 32):
            out += d.send("-1 X s%02d.svc 1_1 :OK" % i, wait=0.03, show=(i == 31))
        out += d.read(0.3)
        v = verdicts(out, 1)
        print("  observed verdict: %s" % (v or "none"))
        print("  expected        : none yet - the CHECK sent to s00.svc is unanswered and no timeout is configured")
        return bool(v) and len(asked) == 33
    finally:
        d.close()

def history_b(tree):
    """s32 answers first, then s00 refuses."""
    print("History B: same configuration; s32.svc answers OK first, then s00.svc answers NO, then s01..s31 OK.")
    d = Daemon(tree, conf())
    try:
        for l in REG:
            d.send(l % 2, show=False)
        out = d.send("-1 X s32.svc 2_1 :OK acct")
        out += d.send("-1 X s00.svc 2_1 :NO you are a drone")
        refused = any(l.startswith("k 2 ") for l in out)
        print("  after the NO of s00.svc: %s (expected: k 2 10.0.0.1 1234 :you are a drone)"
              % ("client killed" if refused else "nothing happened"))
        for i in range(1, 32):
            out += d.send("-1 X s%02d.svc 2_1 :OK" % i, wait=0.03, show=(i == 31))
        out += d.read(0.3)
        v = verdicts(out, 2)
        print("  observed verdict: %s" % (v or "none"))
        print("  expected        : a kill; a client refused by a service it was submitted to is never accepted")
        return any(l.split()[0] in ("D", "R") for l in v)
    finally:
        d.close()

def main():
    if len(sys.argv) != 2:
        print(__doc__)
        return 2
    tree = os.path.abspath(sys.argv[1])
    a = history_a(tree)
    print("  => %s\n" % ("VIOLATION: accepted with a query unanswered" if a else "ok"))
    b = history_b(tree)
    print("  => %s\n" % ("VIOLATION: refused client accepted" if b else "ok"))
    if a or b:
        print("DEFECT SHOWN")
        return 1
    print("defect not shown")
    return 0

if __name__ == "__main__":
    sys.exit(main())
