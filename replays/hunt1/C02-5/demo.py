#!/usr/bin/env python3
"""C02 defect 5: a MORE reply (a challenge - by the module's own specification not a
final response) releases the soft hold and stops the module listening to that
service: the client is accepted the moment the challenge is issued, and the
service's eventual NO is dropped.

usage: demo.py <tree>     exits 1 when the tree shows the defect, 0 otherwise
"""
import os, select, shutil, subprocess, sys, tempfile, time

class Daemon:
    def __init__(self, tree, conf_rest, modules="iauth_xquery"):
        self.tmp = tempfile.mkdtemp(prefix="c02_d5_")
        conf = os.path.join(self.tmp, "d.conf")
        with open(conf, "w") as f:
            f.write('core { library_path ( "%s/modules/.libs" ); modules ( %s ); };\n' % (tree, modules))
            f.write('logs { "*.>=debug" "file:%s/d.log" };\n' % self.tmp)
            f.write(conf_rest)
        self.p = subprocess.Popen(["timeout", "60", os.path.join(tree, "src/iauthd-c"), "-n", "-f", conf],
                                  stdin=subprocess.PIPE, stdout=subprocess.PIPE,
                                  stderr=subprocess.STDOUT, cwd=self.tmp)
        self.read(0.5)
    def read(self, wait=0.2):
        out, end = b"", time.time() + wait
        while True:
            r, _, _ = select.select([self.p.stdout], [], [], max(0, end - time.time()))
            if not r:
                break
            chunk = os.read(self.p.stdout.fileno(), 65536)
            if not chunk:
                break
            out += chunk
        return out.decode("latin1").splitlines()
    def send(self, line, wait=0.2, show=True):
        self.p.stdin.write((line + "\n").encode("latin1"))
        self.p.stdin.flush()
        got = self.read(wait)
        if show:
            print("  > %s" % line)
            for l in got:
                print("  < %s" % l)
        return got
    def close(self):
        try:
            self.p.stdin.close()
            self.p.wait(timeout=5)
        except Exception:
            self.p.kill()
        shutil.rmtree(self.tmp, ignore_errors=True)

def verdicts(lines, cid):
    return [l for l in lines if l.split()[0] in ("D", "R", "k") and l.split()[1] == str(cid)]


LINES = ["%d C 10.0.0.1 1234 10.0.0.2 6667", "%d P :+x acct pw", "%d N host.example", "%d u ident", "%d n nick",
         "%d U user :real name"]

def history_a(tree):
    print('History A: iauth { timeout 0 }; iauth_xquery { "login.svc" login; }; the service challenges the client.')
    d = Daemon(tree, 'iauth { timeout 0 };\niauth_xquery { "login.svc" login; };\n')
    try:
        for l in LINES:
            d.send(l % 1)
        out = d.send("-1 X login.svc 1_1 :MORE what is 2+2?")
        v = verdicts(out, 1)
        print("  observed verdict at the MORE: %s" % (v or "none"))
        print("  expected: only the challenge (C 1 ... :what is 2+2?); login.svc has not given its verdict")
        late = d.send("1 P :4")
        print("  the client's answer to the challenge gives: %s (expected: X login.svc 1_1 :MORE 4)" % (late or "nothing - the request is gone"))
        return any(l.split()[0] in ("D", "R") for l in v)
    finally:
        d.close()

def history_b(tree):
    print('History B: iauth_xquery { "login.svc" login; "drone.svc" dronecheck; }; login.svc challenges, then refuses.')
    d = Daemon(tree, 'iauth { timeout 0 };\niauth_xquery { "login.svc" login; "drone.svc" dronecheck; };\n')
    try:
        for l in LINES:
            d.send(l % 2)
        out = d.send("-1 X login.svc 2_1 :MORE what is 2+2?")
        out += d.send("-1 X login.svc 2_1 :NO no answer to the challenge")
        print("  at the NO: %s   (expected: k 2 10.0.0.1 1234 :no answer to the challenge)" % (verdicts(out, 2) or "nothing"))
        out += d.send("-1 X drone.svc 2_1 :OK")
        v = verdicts(out, 2)
        print("  observed verdict: %s" % (v or "none"))
        return any(l.split()[0] in ("D", "R") for l in v)
    finally:
        d.close()

def main():
    if len(sys.argv) != 2:
        print(__doc__)
        return 2
    tree = os.path.abspath(sys.argv[1])
    a = history_a(tree)
    print("  => %s\n" % ("VIOLATION: accepted while login.svc still owes its final reply" if a else "ok"))
    b = history_b(tree)
    print("  => %s\n" % ("VIOLATION: the client refused by login.svc is accepted" if b else "ok"))
    if a or b:
        print("DEFECT SHOWN")
        return 1
    print("defect not shown")
    return 0

if __name__ == "__main__":
    sys.exit(main())
