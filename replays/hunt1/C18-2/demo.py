#!/usr/bin/env python3
"""demo.py <tree>: a facility's log lines are attributed under the spelling found in the
logs section (first one ever read), not under the facility's own name.  Exit 1 = defect shown."""
import os, re, shutil, signal, subprocess, sys, tempfile, time

def child_of(pid):
    try:
        kids = open('/proc/%d/task/%d/children' % (pid, pid)).read().split()
        if kids:
            return int(kids[0])
    except OSError:
        pass
    return int(subprocess.check_output(['pgrep', '-P', str(pid)]).split()[0])

def run(tree, confs, lines):
    """start the daemon on confs[0]; before each later conf rewrite the file and send SIGUSR1;
    after each (re)load send lines[i]; return the text of a.log"""
    d = tempfile.mkdtemp(prefix='c18demo2.')
    try:
        conf = os.path.join(d, 'c.conf')
        open(conf, 'w').write(confs[0])
        p = subprocess.Popen(['timeout', '-s', 'KILL', '30', os.path.join(tree, 'src', 'iauthd-c'), '-n', '-f', conf],
                             cwd=d, stdin=subprocess.PIPE, stdout=subprocess.PIPE, stderr=subprocess.PIPE)
        time.sleep(0.5)
        for i, c in enumerate(confs):
            if i:
                open(conf, 'w').write(c)
                os.kill(child_of(p.pid), signal.SIGUSR1)
                time.sleep(0.5)
            p.stdin.write((lines[i] + '\n').encode())
            p.stdin.flush()
            time.sleep(0.3)
        p.communicate(timeout=20)       # closes stdin: the daemon leaves on EOF
        path = os.path.join(d, 'a.log')
        return open(path, errors='replace').read() if os.path.exists(path) else ''
    finally:
        shutil.rmtree(d, ignore_errors=True)

def facilities(text, needle):
    out = []
    for ln in text.split('\n'):
        m = re.match(r'^\[[^\]]*\] \(([^:]*):([a-z]+)\) (.*)$', ln)
        if m and needle in m.group(3):
            out.append((m.group(1), m.group(2), m.group(3)))
    return out

def main():
    tree = os.path.abspath(sys.argv[1])
    core = 'core { library_path ("%s/modules/.libs"); modules (iauth); }\n' % tree
    bad = 0

    # (a) one load
    cA = core + 'logs {\n  "IAuth.*" "file:a.log"\n  "CORE.*" "file:a.log"\n}\n'
    print('=== (a) configuration:\n' + cA)
    print('input on stdin: -1 M irc.example.org 100')
    log = run(tree, [cA], ['-1 M irc.example.org 100'])
    got = facilities(log, '-1 M irc.example.org 100')
    print('observed line(s) for the traced input:', got)
    print('expected: facility "iauth" (the name modules/iauth_core.c registers; "CORE.*" in the same')
    print('          section does produce "(core:...)" lines):',
          sorted(set(f for f, s, t in facilities(log, 'Terminating due to EOF'))))
    if not got:
        print('?? traced input not found in a.log'); bad = 1
    for f, s, t in got:
        if f != 'iauth':
            print('DEFECT: line attributed to facility %r, not "iauth"' % f); bad = 1

    # (b) the spelling survives a reload that spells the facility properly
    cB1 = core + 'logs {\n  "IAUTH.*" "file:a.log"\n}\n'
    cB2 = core + 'logs {\n  "iauth.*" "file:a.log"\n}\n'
    print('\n=== (b) first configuration:\n' + cB1 + 'then, reloaded with SIGUSR1:\n' + cB2)
    log = run(tree, [cB1, cB2], ['-1 M before.example.org 100', '-1 M after.example.org 100'])
    got = facilities(log, 'after.example.org')
    print('observed line(s) written after the reload:', got)
    print('expected: "(iauth:debug) > -1 M after.example.org 100" - the current section says "iauth.*"')
    if not got:
        print('?? traced input not found in a.log'); bad = 1
    for f, s, t in got:
        if f != 'iauth':
            print('DEFECT: after the reload the line is still attributed to %r (spelling of the old section)' % f); bad = 1
    print('\nRESULT:', 'defect present' if bad else 'no defect shown')
    sys.exit(1 if bad else 0)

main()
