#!/usr/bin/env python3
"""demo.py <tree>: an XREPLY whose server name differs from the configured
service name only in letter case is dropped; the client is never accepted.
Exits 1 when the tree shows the defect, 0 when it does not."""
import os, re, select, shutil, subprocess, sys, tempfile, time

def main():
    tree = os.path.abspath(sys.argv[1] if len(sys.argv) > 1 else ".")
    exe = os.path.join(tree, "src", "iauthd-c")
    tmp = tempfile.mkdtemp(prefix="c03_demo1_")
    try:
        conf = os.path.join(tmp, "t.conf")
        with open(conf, "w") as f:
            f.write('core { library_path ( "%s" ); modules ( iauth_xquery ) }\n'
                    'iauth { timeout 0 }\n'
                    'iauth_xquery { "Drone.Example.Org" dronecheck }\n'
                    % os.path.join(tree, "modules", ".libs"))
        p = subprocess.Popen(["timeout", "30", exe, "-n", "-f", conf], cwd=tree,
                             stdin=subprocess.PIPE, stdout=subprocess.PIPE,
                             stderr=subprocess.DEVNULL)
        buf = [b""]

        def readline():
            end = time.time() + 10
            while b"\n" not in buf[0]:
                r, _, _ = select.select([p.stdout], [], [], max(0, end - time.time()))
                if not r:
                    raise RuntimeError("daemon gave no output")
                d = os.read(p.stdout.fileno(), 65536)
                if not d:
                    raise RuntimeError("daemon exited")
                buf[0] += d
            l, buf[0] = buf[0].split(b"\n", 1)
            return l.decode(errors="replace")

        def step(line):
            """Send one line (or none), then a '? stats2' barrier; returns the
            daemon's output for the line and the number of requests in use."""
            if line is not None:
                print("  > " + line)
                p.stdin.write(line.encode() + b"\n")
            p.stdin.write(b"-1 ? stats2\n")
            p.stdin.flush()
            out, inuse = [], None
            while True:
                l = readline()
                if l == "s":
                    break
                m = re.match(r"S iauth :\d+-\d+ reqs alloc, (\d+) in use", l)
                if m:
                    inuse = int(m.group(1))
                elif not l.startswith("S "):
                    out.append(l)
            for l in out:
                print("      < " + l)
            return out, inuse

        def register(cid):
            step("%d C 1.2.3.4 1000 5.6.7.8 6667" % cid)
            step("%d N host.example.com" % cid)
            step("%d u ident" % cid)
            step("%d n nick" % cid)
            out, _ = step("%d U user :real name" % cid)
            q = [l for l in out if l.startswith("X ")]
            assert q, "no XQUERY was sent"
            return q[0].split()[2]  # routing

        step(None)
        print("configured service: \"Drone.Example.Org\" dronecheck; no timeout")
        print("-- control: the reply names the server exactly as configured")
        rt = register(0)
        out, inuse = step("-1 X Drone.Example.Org %s :OK" % rt)
        control_ok = any(l.startswith("D 0 ") for l in out) and inuse == 0
        print("   verdict issued: %s, requests in use: %s" % (control_ok, inuse))

        print("-- test: the ircd names the same server in its own (lower-case) spelling")
        rt = register(1)
        out, inuse = step("-1 X drone.example.org %s :OK" % rt)
        verdict = any(re.match(r"[DRk] 1 ", l) for l in out)
        print("   verdict issued: %s, requests in use: %s" % (verdict, inuse))
        p.stdin.close()
        p.wait(timeout=10)

        if not control_ok:
            print("INCONCLUSIVE: the control run did not behave as expected")
            return 2
        if not verdict and inuse == 1:
            print("DEFECT: client 1 has all its registration data and an OK answer to the only\n"
                  "        query sent about it, yet no verdict was issued (expected 'D 1 1.2.3.4 1000');\n"
                  "        with no timeout configured it waits forever.")
            return 1
        print("no defect: the reply was accepted case-insensitively")
        return 0
    finally:
        shutil.rmtree(tmp, ignore_errors=True)

if __name__ == "__main__":
    sys.exit(main())
