#!/usr/bin/env python3
"""demo.py <tree>: a typed setting whose text cannot be parsed keeps whatever an earlier file or the
registration point left in it - the same last file gives three different effective values.
Exits 1 when the tree shows the defect, 0 when it does not, 2 on a build problem."""
import os, re, shutil, subprocess, sys, tempfile

HARNESS = r'''
#include "src/common.h"
#include <stdarg.h>
struct event_base *ev_base; struct evdns_base *ev_dns; int clean_exit;
struct log_type { int dummy; }; static struct log_type the_type; struct log_type *log_core = &the_type;
void module_close_all(void) {}
struct log_type *log_type_register(const char *name, const char *def) { (void)name; (void)def; return &the_type; }
void log_message(struct log_type *type, enum log_severity sev, const char *format, ...)
{ va_list args; (void)type; printf("LOG %d ", sev); va_start(args, format); vprintf(format, args); va_end(args); printf("\n"); if (sev == LOG_FATAL) _exit(3); }
static int hooks;
static void hook(struct conf_node_base *b) { hooks++; printf("HOOK %s\n", b->name); }
int main(void)
{
    static char line[1024], keep[64][64]; int nkeep = 0;
    struct conf_node_object *top; struct conf_node_string *n = NULL;
    ctype_init(); setvbuf(stdout, NULL, _IOLBF, 0);
    top = conf_register_object(NULL, "top");
    while (fgets(line, sizeof(line), stdin)) {
        char *a = strtok(line, " \n"), *b = strtok(NULL, " \n"), *c = strtok(NULL, " \n");
        if (!a) continue;
        if (!strcmp(a, "load")) printf("LOAD %s -> %d\n", b, conf_read(b));
        else if (!strcmp(a, "reg")) { /* reg <subtype> <default>: registers top/n */
            strcpy(keep[nkeep], c);
            n = conf_register_string(top, atoi(b), "n", keep[nkeep++]); n->base.hook = hook;
        } else if (!strcmp(a, "show")) {
            if (!n) n = conf_get_child(top, "n", CONF_STRING);
            printf("SHOW text=%s effective=%d\n", n->value ? n->value : "NULL", n->parsed.p_integer);
        }
    }
    return 0;
}
'''

def main():
    tree = os.path.abspath(sys.argv[1])
    tmp = tempfile.mkdtemp(prefix='c15demo1')
    try:
        open(os.path.join(tmp, 'h.c'), 'w').write(HARNESS)
        cmd = ['timeout', '120', 'cc', '-g', '-O0', '-DHAVE_CONFIG_H', '-I' + tree, os.path.join(tmp, 'h.c')] + \
              [os.path.join(tree, 'src', f) for f in ('config.c', 'set.c', 'common.c')] + ['-levent', '-o', os.path.join(tmp, 'h')]
        p = subprocess.run(cmd, stdout=subprocess.PIPE, stderr=subprocess.STDOUT)
        if p.returncode:
            print('cannot build the harness:\n' + p.stdout.decode()); return 2
        good = os.path.join(tmp, 'good.conf'); bad = os.path.join(tmp, 'bad.conf')
        open(good, 'w').write('top {\n    n 30m;\n}\n')
        open(bad, 'w').write('top {\n    n 1w;\n}\n')       # "1w" is not an interval the daemon knows (no weeks)
        print('file A:', open(good).read().replace('\n', ' '))
        print('file B:', open(bad).read().replace('\n', ' '))
        print('setting: top/n, CONF_STRING_INTERVAL, registered default "5m" (300)')
        runs = [
            ('register, load A, load B      ', 'reg 4 5m\nload %s\nload %s\nshow\n' % (good, bad)),
            ('register, load B              ', 'reg 4 5m\nload %s\nshow\n' % bad),
            ('load B, register (as modules do)', 'load %s\nreg 4 5m\nshow\n' % bad),
        ]
        vals = []
        for title, script in runs:
            p = subprocess.run(['timeout', '20', os.path.join(tmp, 'h')], input=script.encode(), stdout=subprocess.PIPE, stderr=subprocess.STDOUT)
            out = p.stdout.decode(errors='replace')
            m = re.search(r'SHOW text=(\S+) effective=(-?\d+)', out)
            if p.returncode or not m:
                print('harness failed:\n' + out); return 2
            vals.append(int(m.group(2)))
            print('%s -> text %-4s effective %d seconds' % (title, m.group(1), vals[-1]))
        print('expected: one and the same effective value after every history that ends with file B and the same')
        print('          registration (the registered default, 300, since the file gives nothing usable)')
        if len(set(vals)) != 1:
            print('observed: %s - the value depends on the files loaded before and on the registration point: DEFECT' % vals)
            return 1
        print('observed: %s - deterministic' % vals)
        return 0
    finally:
        shutil.rmtree(tmp, ignore_errors=True)

sys.exit(main())
