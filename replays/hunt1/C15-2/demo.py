#!/usr/bin/env python3
"""demo.py <tree>: a reload that edits an address pair in place keeps what was resolved for the pair of the
previous file: the old address list stays attached, and a request still in flight for the old host later
installs the OLD host's address under the NEW host name.
Exits 1 when the tree shows the defect, 0 when it does not, 2 on a build problem."""
import os, re, shutil, socket, struct, subprocess, sys, tempfile, threading, time

HARNESS = r'''
#include "src/common.h"
#include <stdarg.h>
const char *evutil_format_sockaddr_port_(const struct sockaddr *sa, char *out, size_t outlen);
struct event_base *ev_base; struct evdns_base *ev_dns; int clean_exit;
struct log_type { int dummy; }; static struct log_type the_type; struct log_type *log_core = &the_type;
void module_close_all(void) {}
struct log_type *log_type_register(const char *name, const char *def) { (void)name; (void)def; return &the_type; }
void log_message(struct log_type *type, enum log_severity sev, const char *format, ...)
{ va_list args; (void)type; printf("LOG %d ", sev); va_start(args, format); vprintf(format, args); va_end(args); printf("\n"); if (sev == LOG_FATAL) _exit(3); }
static void hook(struct conf_node_base *b) { printf("HOOK %s\n", b->name); }
int main(void)
{
    static char line[1024];
    struct conf_node_object *top; struct conf_node_inaddr *n = NULL;
    ctype_init(); setvbuf(stdout, NULL, _IOLBF, 0);
    ev_base = event_base_new();
    ev_dns = evdns_base_new(ev_base, 0);
    top = conf_register_object(NULL, "top");
    while (fgets(line, sizeof(line), stdin)) {
        char *a = strtok(line, " \n"), *b = strtok(NULL, " \n");
        if (!a) continue;
        if (!strcmp(a, "load")) printf("LOAD %s -> %d\n", b, conf_read(b));
        else if (!strcmp(a, "dns")) { evdns_base_set_option(ev_dns, "attempts", "1"); printf("DNS %s -> %d\n", b, evdns_base_nameserver_ip_add(ev_dns, b)); }
        else if (!strcmp(a, "reg")) { n = conf_register_inaddr(top, "a", "localhost", "6667"); n->base.hook = hook; }
        else if (!strcmp(a, "get")) { n = conf_get_child(top, "a", CONF_INADDR); }
        else if (!strcmp(a, "validate")) printf("VALIDATE -> %d\n", (int)conf_inaddr_validate(n));
        else if (!strcmp(a, "loop")) { struct timeval tv; tv.tv_sec = atoi(b) / 1000; tv.tv_usec = (atoi(b) % 1000) * 1000; event_base_loopexit(ev_base, &tv); event_base_dispatch(ev_base); }
        else if (!strcmp(a, "show")) {
            char ab[128] = "none";
            if (n->addr) evutil_format_sockaddr_port_(n->addr->ai_addr, ab, sizeof(ab));
            printf("SHOW host=%s service=%s state=%d addr=%s\n", n->hostname, n->service, (int)n->state, ab);
        }
        else if (!strcmp(a, "quit")) { fflush(stdout); _exit(0); }
    }
    return 0;
}
'''

def dns_server(sock):
    """old.test -> 10.0.0.1 after 0.6 s, new.test -> 10.0.0.2 at once; AAAA: empty answer."""
    def later(pkt, addr, delay):
        time.sleep(delay)
        try: sock.sendto(pkt, addr)
        except OSError: pass
    while True:
        try: data, addr = sock.recvfrom(2048)
        except OSError: return
        i = 12; labels = []
        while data[i]:
            l = data[i]; labels.append(data[i + 1:i + 1 + l].decode().lower()); i += 1 + l
        i += 1
        qtype = struct.unpack('>H', data[i:i + 2])[0]; i += 4
        q = data[12:i]; name = '.'.join(labels)
        ip = {'old.test': '10.0.0.1', 'new.test': '10.0.0.2'}.get(name)
        if ip and qtype == 1:
            pkt = data[:2] + struct.pack('>HHHHH', 0x8180, 1, 1, 0, 0) + q + b'\xc0\x0c' + struct.pack('>HHIH', 1, 1, 60, 4) + socket.inet_aton(ip)
        else:
            pkt = data[:2] + struct.pack('>HHHHH', 0x8180 if ip else 0x8183, 1, 0, 0, 0) + q
        threading.Thread(target=later, args=(pkt, addr, 0.6 if name == 'old.test' else 0.0), daemon=True).start()

def run(tmp, script):
    p = subprocess.run(['timeout', '30', os.path.join(tmp, 'h')], input=script.encode(), stdout=subprocess.PIPE, stderr=subprocess.STDOUT, cwd=tmp)
    return p.returncode, p.stdout.decode(errors='replace')

def main():
    tree = os.path.abspath(sys.argv[1])
    tmp = tempfile.mkdtemp(prefix='c15demo2')
    sock = socket.socket(socket.AF_INET, socket.SOCK_DGRAM)
    try:
        open(os.path.join(tmp, 'h.c'), 'w').write(HARNESS)
        cmd = ['timeout', '120', 'cc', '-g', '-O0', '-DHAVE_CONFIG_H', '-I' + tree, os.path.join(tmp, 'h.c')] + \
              [os.path.join(tree, 'src', f) for f in ('config.c', 'set.c', 'common.c')] + ['-levent', '-o', os.path.join(tmp, 'h')]
        p = subprocess.run(cmd, stdout=subprocess.PIPE, stderr=subprocess.STDOUT)
        if p.returncode:
            print('cannot build the harness:\n' + p.stdout.decode()); return 2
        bad = 0

        # Part 1: numeric host, resolved at once (no name server involved).
        open(os.path.join(tmp, 'n1.conf'), 'w').write('top { a "::1" 8080; }\n')
        open(os.path.join(tmp, 'n2.conf'), 'w').write('top { a "::1" 8081; }\n')
        print('part 1: address pair top/a registered (defaults localhost 6667); file 1 `top { a "::1" 8080; }`, resolved;')
        print('        reload with file 2 `top { a "::1" 8081; }`; state of the node right after the reload:')
        rc, out = run(tmp, 'reg\nload n1.conf\nvalidate\nshow\nload n2.conf\nshow\nquit\n')
        shows = re.findall(r'SHOW (.*)', out)
        if rc or len(shows) != 2:
            print('harness failed:\n' + out); return 2
        print('        after file 1 + resolve: ' + shows[0])
        print('        after file 2          : ' + shows[1])
        print('        expected after file 2 : host=::1 service=8081 state=0 addr=none (nothing is resolved for the new pair yet)')
        if 'addr=none' not in shows[1]:
            print('        observed: the address list resolved for the pair of file 1 is still attached (and is overwritten, unfreed, by the next resolution): DEFECT')
            bad = 1

        # Part 2: a reply for the old host arrives after the reload.
        sock.bind(('127.0.0.1', 0)); port = sock.getsockname()[1]
        threading.Thread(target=dns_server, args=(sock,), daemon=True).start()
        open(os.path.join(tmp, 'o.conf'), 'w').write('top { a "old.test" 80; }\n')
        open(os.path.join(tmp, 'w.conf'), 'w').write('top { a "new.test" 80; }\n')
        print('part 2: local name server: old.test = 10.0.0.1 (answers after 0.6 s), new.test = 10.0.0.2 (answers at once)')
        print('        file 1 `top { a "old.test" 80; }`, conf_inaddr_validate (request in flight); reload with file 2')
        print('        `top { a "new.test" 80; }`, the hook runs, conf_inaddr_validate again; then both replies arrive')
        rc, out = run(tmp, 'dns 127.0.0.1:%d\nreg\nload o.conf\nvalidate\nload w.conf\nvalidate\nloop 300\nshow\nloop 1000\nshow\nquit\n' % port)
        shows = re.findall(r'SHOW (.*)', out)
        if rc or len(shows) != 2:
            print('harness failed:\n' + out); return 2
        print('        0.3 s after the reload: ' + shows[0])
        print('        1.3 s after the reload: ' + shows[1])
        print('        expected              : host=new.test service=80 state=3 addr=10.0.0.2:80')
        if 'addr=10.0.0.2:80' not in shows[1]:
            print('        observed: the setting names the host of file 2 but carries the address of the host of file 1: DEFECT')
            bad = 1
        if not bad:
            print('no defect observed')
        return bad
    finally:
        sock.close()
        shutil.rmtree(tmp, ignore_errors=True)

sys.exit(main())
