#!/usr/bin/env python3
"""C02 defect 3: replies are matched to services with strcmp(): the refusal of a
service whose name the ircd reports in another case than the configuration file
spells it is dropped, and the refused client is accepted when the timeout fires.

usage: demo.py <tree>     exits 1 when the tree shows the defect, 0 otherwise
"""
import os, select, shutil, subprocess, sys, tempfile, time

class Daemon:
    def __init__(self, tree, conf_rest, modules="iauth_xquery"):
        self.tmp = tempfile.mkdtemp(prefix="c02_d3_")
        conf = os.path.join(self.tmp, "d.conf")
        with open(conf, "w") as f:
            f.write('core { library_path ( "%s/modules/.libs" ); modules ( %s ); };\n' % (tree, modules))
            f.write('logs { "*.>=debug" "file:%s/d.log" };\n' % self.tmp)
            f.write(conf_rest)
        self.p = subprocess.Popen(["timeout", "60", os.path.join(tree, "src/iauthd-c"), "-n", "-f", conf],
                                  stdin=subprocess.PIPE, stdout=subprocess.PIPE,
                                  stderr=subprocess.STDOUT, cwd=self.tmp)
        self.read(0.5)
    def read(self, wait=0.2):
        out, end = b"", time.time() + wait
        while True:
            r, _, _ = select.select([self.p.stdout], [], [], max(0, end - time.time()))
            if not r:
                break
            chunk = os.read(self.p.stdout.fileno(), 65536)
            if not chunk:
                break
            out += chunk
        return out.decode("latin1").splitlines()
    def send(self, line, wait=0.2, show=True):
        self.p.stdin.write((line + "\n").encode("latin1"))
        self.p.stdin.flush()
        got = self.read(wait)
        if show:
            print("  > %s" % line)
            for l in got:
                print("  < %s" % l)
        return got
    def close(self):
        try:
            self.p.stdin.close()
            self.p.wait(timeout=5)
        except Exception:
            self.p.kill()
        shutil.rmtree(self.tmp, ignore_errors=True)

def verdicts(lines, cid):
    return [l for l in lines if l.split()[0] in ("D", "R", "k") and l.split()[1] == str(cid)]


REG = ["%d C 10.0.0.1 1234 10.0.0.2 6667", "%d N host.example", "%d u ident", "%d n nick", "%d U user :real name"]

def history(tree, spelled, cid):
    print('History: iauth { timeout 2 }; iauth_xquery { "drone.svc" dronecheck; }; the reply names the server "%s".' % spelled)
    d = Daemon(tree, 'iauth { timeout 2 };\niauth_xquery { "drone.svc" dronecheck; };\n')
    try:
        for l in REG:
            d.send(l % cid, wait=0.05)
        out = d.send("-1 X %s %x_1 :NO you are a drone" % (spelled, cid))
        print("  at the NO: %s   (expected: k %d 10.0.0.1 1234 :you are a drone)" % (verdicts(out, cid) or "nothing", cid))
        print("  ... waiting 3 s for the request timeout (2 s) ...")
        late = d.read(3.0)
        for l in late:
            print("  < %s" % l)
        out += late
        v = verdicts(out, cid)
        print("  observed verdict: %s" % (v or "none"))
        return any(l.split()[0] in ("D", "R") for l in v)
    finally:
        d.close()

def main():
    if len(sys.argv) != 2:
        print(__doc__)
        return 2
    tree = os.path.abspath(sys.argv[1])
    ctl = history(tree, "drone.svc", 1)
    print("  => control (same spelling): %s\n" % ("accepted?!" if ctl else "refused, as it must be"))
    bad = history(tree, "Drone.Svc", 2)
    print("  => %s\n" % ("VIOLATION: refused client accepted" if bad else "ok"))
    if bad:
        print("DEFECT SHOWN")
        return 1
    print("defect not shown")
    return 0

if __name__ == "__main__":
    sys.exit(main())
