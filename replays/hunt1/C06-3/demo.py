#!/usr/bin/env python3
"""C06 demo 3: an ident answer with an empty user name ("5 u :") counts as "ident known": LOGIN2 goes out before any user name is known, with an empty <username> word."""
import os, sys, subprocess, tempfile, shutil, time, select, signal

class Daemon:
    """Runs <tree>/src/iauthd-c (under `timeout`) on a temporary configuration and talks to it over pipes."""
    def __init__(self, tree, services):
        self.tree = os.path.abspath(tree)
        self.tmp = tempfile.mkdtemp(prefix="c06demo_")
        self.conf = os.path.join(self.tmp, "demo.conf")
        self.write_conf(services)
        self.p = subprocess.Popen(
            ["timeout", "-k", "2", "30", os.path.join(self.tree, "src", "iauthd-c"), "-n", "-f", self.conf],
            stdin=subprocess.PIPE, stdout=subprocess.PIPE, stderr=subprocess.DEVNULL, cwd=self.tmp)
        self.buf = b""
        # wait for the start-up banner ("O S..." is its last line)
        self.start = self.read_until(lambda l: l.startswith("O "), 5.0)
    def write_conf(self, services):
        with open(self.conf, "w") as f:
            f.write('core { library_path ( "%s/modules/.libs" ); modules ( iauth_xquery ) }\n' % self.tree)
            f.write('logs { "*.>=info" "file:demo.log" }\n')
            f.write('iauth { timeout 0 }\n')
            f.write('iauth_xquery {\n%s\n}\n' % "\n".join("    " + s for s in services))
    def send(self, *lines):
        for l in lines:
            self.p.stdin.write(l.encode("latin-1") + b"\n")
        self.p.stdin.flush()
    def _pump(self, t):
        r, _, _ = select.select([self.p.stdout], [], [], max(t, 0))
        if not r:
            return False
        d = os.read(self.p.stdout.fileno(), 65536)
        if not d:
            return False
        self.buf += d
        return True
    def read(self, quiet=0.4):
        """Returns the lines written until the daemon has been quiet for `quiet` seconds."""
        while self._pump(quiet):
            pass
        *ls, self.buf = self.buf.split(b"\n")
        return [l.decode("latin-1") for l in ls]
    def read_until(self, pred, limit):
        out = []; end = time.time() + limit
        while time.time() < end:
            self._pump(0.1)
            *ls, self.buf = self.buf.split(b"\n")
            out += [l.decode("latin-1") for l in ls]
            if any(pred(l) for l in out):
                break
        return out
    def reload(self, services):
        """Rewrites the configuration file and sends SIGUSR1 (re-read) to the daemon."""
        self.write_conf(services)
        for pid in os.listdir("/proc"):
            if not pid.isdigit():
                continue
            try:
                with open("/proc/%s/stat" % pid) as f:
                    st = f.read()
                ppid = int(st[st.rindex(")") + 2:].split()[1])
            except Exception:
                continue
            if ppid == self.p.pid:
                os.kill(int(pid), signal.SIGUSR1)
        time.sleep(0.5)
    def close(self):
        try:
            self.p.stdin.close()
            self.p.wait(timeout=5)
        except Exception:
            self.p.kill()
        shutil.rmtree(self.tmp, ignore_errors=True)

def run(tree, ident_line):
    d = Daemon(tree, ["ipr.example.org login-ipr"])
    steps = ["5 C 192.0.2.7 40000 198.51.100.1 6667", "5 P :+x acct secret", "5 N client.example.net",
             ident_line, "5 U user :Real Name"]
    trace = []
    try:
        for s in steps:
            d.send(s)
            trace.append((s, [l for l in d.read(0.3) if l.startswith("X ")]))
    finally:
        d.close()
    return trace

def show(trace):
    for s, xs in trace:
        print("    > %r" % s)
        for l in xs: print("        < %r" % l)

def main():
    if len(sys.argv) != 2:
        print("usage: demo.py <tree>"); return 2
    tree = sys.argv[1]
    want = "X ipr.example.org 5_1 :LOGIN2 192.0.2.7 client.example.net ~user acct secret"
    print("configuration: iauth_xquery { ipr.example.org login-ipr }")
    print("control (ident answer without a user name, written '5 u'):")
    ctl = run(tree, "5 u"); show(ctl)
    if ctl[3][1] or ctl[4][1] != [want]:
        print("INCONCLUSIVE: control did not behave as documented"); return 0
    print("same history, the empty user name written as an empty trailing parameter ('5 u :'):")
    t = run(tree, "5 u :"); show(t)
    print("expected: nothing after '5 u :' (no user name is known yet), then after the U line:")
    print("    %r" % want)
    early = t[3][1]
    if early:
        print("observed: the query went out at the ident line, before the user name was known, with an empty <username> word")
        print("          (the service reads LOGIN2 <ip> <host> <username> <account> <password>: 'acct' lands in <username>),")
        print("          and the U line that then supplies the name triggers no query any more: %r" % t[4][1])
        print("DEFECT"); return 1
    if t[4][1] == [want]:
        print("ok"); return 0
    print("observed something else:", t); return 1

if __name__ == "__main__":
    sys.exit(main())
