#!/usr/bin/env python3
"""demo.py <tree>: an "AGAIN" or "MORE" XREPLY that carries no text is not taken
as the service's answer (unlike "NO" and "OK", which may come bare); the client
that was waiting only for that answer is never accepted.
Exits 1 when the tree shows the defect, 0 when it does not."""
import os, re, select, shutil, subprocess, sys, tempfile, time

def main():
    tree = os.path.abspath(sys.argv[1] if len(sys.argv) > 1 else ".")
    exe = os.path.join(tree, "src", "iauthd-c")
    tmp = tempfile.mkdtemp(prefix="c03_demo2_")
    try:
        conf = os.path.join(tmp, "t.conf")
        with open(conf, "w") as f:
            f.write('core { library_path ( "%s" ); modules ( iauth_xquery ) }\n'
                    'iauth { timeout 0 }\n'
                    'iauth_xquery { login.example.org login }\n'
                    % os.path.join(tree, "modules", ".libs"))
        p = subprocess.Popen(["timeout", "30", exe, "-n", "-f", conf], cwd=tree,
                             stdin=subprocess.PIPE, stdout=subprocess.PIPE,
                             stderr=subprocess.DEVNULL)
        buf = [b""]

        def readline():
            end = time.time() + 10
            while b"\n" not in buf[0]:
                r, _, _ = select.select([p.stdout], [], [], max(0, end - time.time()))
                if not r:
                    raise RuntimeError("daemon gave no output")
                d = os.read(p.stdout.fileno(), 65536)
                if not d:
                    raise RuntimeError("daemon exited")
                buf[0] += d
            l, buf[0] = buf[0].split(b"\n", 1)
            return l.decode(errors="replace")

        def step(line):
            """Send one line (or none), then a '? stats2' barrier; returns the
            daemon's output for the line and the number of requests in use."""
            if line is not None:
                print("  > " + line)
                p.stdin.write(line.encode() + b"\n")
            p.stdin.write(b"-1 ? stats2\n")
            p.stdin.flush()
            out, inuse = [], None
            while True:
                l = readline()
                if l == "s":
                    break
                m = re.match(r"S iauth :\d+-\d+ reqs alloc, (\d+) in use", l)
                if m:
                    inuse = int(m.group(1))
                elif not l.startswith("S "):
                    out.append(l)
            for l in out:
                print("      < " + l)
            return out, inuse

        def register(cid):
            step("%d C 1.2.3.4 1000 5.6.7.8 6667" % cid)
            out, _ = step("%d P :+x acct pass" % cid)
            q = [l for l in out if l.startswith("X ")]
            assert q, "no XQUERY was sent"
            step("%d N host.example.com" % cid)
            step("%d u ident" % cid)
            step("%d n nick" % cid)
            step("%d U user :real name" % cid)
            return q[0].split()[2]  # routing

        step(None)
        print("configured service: login.example.org login; no timeout")
        results = {}
        cid = 0
        for reply in ["AGAIN ", "AGAIN", "MORE ", "MORE", "NO"]:
            print("-- client %d: the login service answers %r" % (cid, reply))
            rt = register(cid)
            out, inuse = step("-1 X login.example.org %s :%s" % (rt, reply))
            verdict = any(re.match(r"[DRk] %d " % cid, l) for l in out)
            results[reply] = verdict
            print("   verdict issued: %s, requests in use: %s" % (verdict, inuse))
            cid += 1
        p.stdin.close()
        p.wait(timeout=10)

        if not (results["AGAIN "] and results["MORE "] and results["NO"]):
            print("INCONCLUSIVE: the control replies (with a blank, or a bare NO) did not produce verdicts")
            return 2
        bad = [r for r in ("AGAIN", "MORE") if not results[r]]
        if bad:
            print("DEFECT: after the bare %s reply the client has all its registration data and a final\n"
                  "        answer to the only query sent about it, yet no verdict was issued (expected the\n"
                  "        same as for the reply followed by a blank: 'C <id> ... :' then 'D <id> ...');\n"
                  "        with no timeout configured it waits forever." % " / ".join(repr(b) for b in bad))
            return 1
        print("no defect: bare AGAIN and MORE are final answers")
        return 0
    finally:
        shutil.rmtree(tmp, ignore_errors=True)

if __name__ == "__main__":
    sys.exit(main())
