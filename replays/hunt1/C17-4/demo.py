#!/usr/bin/env python3
"""C17 defect 4: removed services that a client is still waiting for keep their
slots (rightly), but nothing bounds the slot index: a service the reload adds
gets slot 32, shares its per-client bit with slot 0 and is never queried.

usage: demo.py <tree>      exit status 1 = defect shown, 0 = not shown, 2 = harness trouble
"""
import os, sys, subprocess, tempfile, shutil, time, signal, select, re

TIMEOUT = "30"          # seconds, every daemon runs under timeout(1)

class Daemon:
    def __init__(self, tree, body):
        self.tree = os.path.abspath(tree)
        self.dir = tempfile.mkdtemp(prefix="c17demo_")
        self.conf = os.path.join(self.dir, "iauthd.conf")
        self.write(body)
        self.p = subprocess.Popen(["timeout", TIMEOUT, os.path.join(self.tree, "src", "iauthd-c"),
                                   "-n", "-f", self.conf],
                                  stdin=subprocess.PIPE, stdout=subprocess.PIPE,
                                  stderr=subprocess.PIPE, cwd=self.dir)
        self.buf = b""
        self.reloads = 0
        first = self.read(1.0)
        if not first or not first[0].startswith("V "):
            raise RuntimeError("daemon did not start: %r %r" % (first, self.close()))
    def write(self, body):
        text = ('core { library_path ( "%s/modules/.libs" ); modules ( iauth_class, iauth_xquery ) }\n'
                'logs { "*.>=info" "file:log.txt" }\niauth { }\n' % self.tree) + body
        with open(self.conf + ".new", "w") as f:
            f.write(text)
        os.rename(self.conf + ".new", self.conf)
    def pid(self):
        """pid of iauthd-c (the child of timeout)"""
        with open("/proc/%d/task/%d/children" % (self.p.pid, self.p.pid)) as f:
            return int(f.read().split()[0])
    def send(self, line):
        self.p.stdin.write(line.encode() + b"\n")
        self.p.stdin.flush()
    def read(self, quiet=0.4):
        while True:
            r, _, _ = select.select([self.p.stdout], [], [], quiet)
            if not r:
                break
            d = os.read(self.p.stdout.fileno(), 65536)
            if not d:
                break
            self.buf += d
        lines = self.buf.split(b"\n")
        self.buf = lines.pop()
        return [l.decode("latin1") for l in lines]
    def log(self):
        try:
            with open(os.path.join(self.dir, "log.txt")) as f:
                return f.read()
        except FileNotFoundError:
            return ""
    def reload(self, body):
        self.write(body)
        self.reloads += 1
        os.kill(self.pid(), signal.SIGUSR1)
        for _ in range(200):
            if self.log().count("Re-reading config file") >= self.reloads:
                break
            time.sleep(0.05)
        else:
            raise RuntimeError("the daemon did not log the reload")
        time.sleep(0.2)
    def config(self):
        self.read(0.1)
        self.send("-1 ? config")
        return [l for l in self.read() if l.startswith("A ")]
    def close(self):
        try:
            self.p.stdin.close()
            self.p.wait(timeout=5)
        except Exception:
            self.p.kill()
            self.p.wait()
        err = self.p.stderr.read().decode("latin1")
        shutil.rmtree(self.dir, ignore_errors=True)
        return err

def norm(lines):
    """drop the serial from routing tags: it counts the clients the daemon has seen"""
    return [re.sub(r"^(X \S+ [0-9a-f]+)_[0-9a-f]+", r"\1", l) for l in lines]

OLD = ("iauth_xquery {\n  a.example.org dronecheck\n"
       + "".join("  z%02d.example.org dronecheck\n" % i for i in range(1, 32)) + "}\n")
NEW = "iauth_xquery {\n  a.example.org dronecheck\n  y01.example.org dronecheck\n}\n"

WAITING = ["1 C 10.9.9.9 4321 10.0.0.1 6667", "1 d", "1 u", "1 n early", "1 U early host server :Early Bird"]
PROBE = ["7 C 10.1.2.3 1234 10.0.0.1 6667", "7 d", "7 u", "7 n nick", "7 U user host server :Real Name"]

def probe(d):
    cfg = sorted(l for l in d.config() if not l.startswith("A xquery :-"))   # retired lines are legitimate here
    for l in PROBE:
        d.send(l)
    out = norm(d.read())
    return cfg, sorted(l for l in out if l.startswith("X "))

def main():
    if len(sys.argv) != 2:
        print(__doc__)
        return 2
    tree = sys.argv[1]
    a = b = None
    try:
        a = Daemon(tree, OLD)
        for l in WAITING:
            a.send(l)
        early = a.read()
        a.reload(NEW)
        cfg_a, x_a = probe(a)
        b = Daemon(tree, NEW)
        cfg_b, x_b = probe(b)
    finally:
        for d in (a, b):
            if d:
                d.close()
    print("old file: iauth_xquery { a.example.org dronecheck; z01.example.org .. z31.example.org dronecheck }   (32 services)")
    print("new file: iauth_xquery { a.example.org dronecheck; y01.example.org dronecheck }")
    print("history : start on old file; client 1 is reported to all 32 services, none has answered yet:")
    for l in WAITING:
        print("    > " + l)
    print("    < %d lines: %s ... %s" % (len(early), early[0], early[-1]))
    print("          rewrite file, SIGUSR1, then client 7:")
    for l in PROBE:
        print("    > " + l)
    print()
    print("config report  reloaded:", cfg_a)
    print("config report  fresh   :", cfg_b)
    print("queries sent   reloaded:", x_a)
    print("queries sent   fresh   :", x_b)
    if x_a != x_b or cfg_a != cfg_b:
        print("\nDEFECT: the reloaded daemon does not query the services of the new file "
              "(expected the fresh daemon's queries)")
        return 1
    print("\nno difference")
    return 0

if __name__ == "__main__":
    try:
        sys.exit(main())
    except Exception as e:
        print("harness trouble:", e)
        sys.exit(2)
