#!/usr/bin/env python3
"""demo.py <tree>: messages logged while the logs section is being rescanned follow a half-built
table: they are dropped although the section before AND the section after the reload route them
to the same file.  Worst case: the core:fatal message that explains why a reload killed the
daemon is lost.  Exit 1 = defect shown."""
import os, re, shutil, signal, subprocess, sys, tempfile, time

def child_of(pid):
    try:
        kids = open('/proc/%d/task/%d/children' % (pid, pid)).read().split()
        if kids:
            return int(kids[0])
    except OSError:
        pass
    return int(subprocess.check_output(['pgrep', '-P', str(pid)]).split()[0])

def run(tree, conf1, conf2):
    """start on conf1, reload conf2 with SIGUSR1, then close stdin; returns (exit status, a.log text after the reload marker)"""
    d = tempfile.mkdtemp(prefix='c18demo1.')
    try:
        conf = os.path.join(d, 'c.conf')
        open(conf, 'w').write(conf1.replace('@D@', d))
        p = subprocess.Popen(['timeout', '-s', 'KILL', '30', os.path.join(tree, 'src', 'iauthd-c'), '-n', '-f', conf],
                             cwd=d, stdin=subprocess.PIPE, stdout=subprocess.PIPE, stderr=subprocess.PIPE)
        time.sleep(0.5)
        open(conf, 'w').write(conf2.replace('@D@', d))
        os.kill(child_of(p.pid), signal.SIGUSR1)
        time.sleep(0.7)
        try:
            p.communicate(timeout=20)
        except (BrokenPipeError, ValueError):
            p.wait(timeout=20)
        path = os.path.join(d, 'a.log')
        text = open(path, errors='replace').read() if os.path.exists(path) else ''
        marker = 'Re-reading config file due to signal'
        after = text.split(marker, 1)[1] if marker in text else None
        return p.returncode, text, after
    finally:
        shutil.rmtree(d, ignore_errors=True)

def main():
    tree = os.path.abspath(sys.argv[1])
    core = 'core { library_path ("%s/modules/.libs"); modules (iauth); }\n' % tree
    bad = 0
    c1 = core + 'logs {\n  "core.*" "file:a.log"\n}\n'

    # (a) the reload names a file that cannot be opened -> LOG_FATAL; where does that message go?
    for fac in ('config', 'iauth'):
        c2 = core + 'logs {\n  "core.*" "file:a.log"\n  "%s.info" "file:@D@/missing/x.log"\n}\n' % fac
        print('=== (a/%s) running configuration:\n%sreloaded (SIGUSR1) with (@D@ = the temporary directory; @D@/missing does not exist):\n%s' % (fac, c1, c2))
        rc, text, after = run(tree, c1, c2)
        if after is None:
            print('?? reload marker not found in a.log:\n' + text); bad = 1; continue
        print('daemon exit status: %r' % rc)
        print('a.log after "Re-reading config file due to signal":' + (after if after.strip() else ' (nothing)\n'))
        has_fatal = re.search(r'\(core:fatal\) Log open failed', after) is not None
        print('expected: "(core:fatal) Log open failed for file:.../missing/x.log" in a.log - "core.*" -> a.log')
        print('          is in the section before and in the section after the reload')
        print('observed: core:fatal line %s' % ('present' if has_fatal else 'ABSENT'))
        if rc == 1 and not has_fatal:
            print('DEFECT: the daemon died on the reload and its core:fatal message reached no destination')
            bad = 1
        print()
    print('(the only difference between a/config and a/iauth is whether the entry sorts before or after "core.*")\n')

    # (b) a harmless reload: the rescan's own core:info messages
    c2 = core + 'logs {\n  "core.*" "file:a.log"\n  "zeta.info" "file:b.log"\n}\n'
    print('=== (b) running configuration:\n%sreloaded with:\n%s' % (c1, c2))
    rc, text, after = run(tree, c1, c2)
    if after is None:
        print('?? reload marker not found in a.log:\n' + text); bad = 1
    else:
        got = re.findall(r'\(core:info\) (Attaching \S+ to \S+)\.\n', after)
        want = ['Attaching file:a.log to core.%s' % s for s in ('debug', 'command', 'info', 'warning', 'error', 'fatal')] \
             + ['Attaching file:b.log to zeta.info']
        print('core:info messages the rescan logged, found in a.log:'); [print('   ', g) for g in got]
        missing = [w for w in want if w not in got]
        print('expected all of these (core.info -> a.log before and after the reload); missing:'); [print('   ', m) for m in missing]
        if missing:
            print('DEFECT: %d core:info message(s) were dropped during the rescan' % len(missing)); bad = 1
    print('\nRESULT:', 'defect present' if bad else 'no defect shown')
    sys.exit(1 if bad else 0)

main()
