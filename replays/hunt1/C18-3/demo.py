#!/usr/bin/env python3
"""demo.py <tree>: a message that contains a line feed is written as several physical lines; the
later ones carry no (or a forged) facility:severity.  Exit 1 = defect shown."""
import os, re, shutil, subprocess, sys, tempfile

LINE = re.compile(r'^\[\d\d:\d\d:\d\d \d\d/\d\d/\d{4}\] \(([^:()]*):([a-z]+)\) (.*)$')

def main():
    tree = os.path.abspath(sys.argv[1])
    conf_text = (
        'core { library_path ("%s/modules/.libs"); modules (iauth); }\n'
        'logs {\n'
        '  "*.>=info" "file:audit.log"\n'
        '}\n'
        'iauth {\n'
        '  timeout "5x\\nsecond line\\n[00:00:00 01/01/2030] (iauth:fatal) forged entry"\n'
        '}\n') % tree
    d = tempfile.mkdtemp(prefix='c18demo3.')
    bad = 0
    try:
        conf = os.path.join(d, 'c.conf')
        open(conf, 'w').write(conf_text)
        print('configuration (the value of iauth.timeout uses the documented \\n escape):\n' + conf_text)
        r = subprocess.run(['timeout', '-s', 'KILL', '30', os.path.join(tree, 'src', 'iauthd-c'), '-n', '-f', conf],
                           cwd=d, input=b'', stdout=subprocess.PIPE, stderr=subprocess.PIPE)
        print('daemon exit status', r.returncode, '(stdin was an empty pipe: it leaves on EOF)')
        path = os.path.join(d, 'audit.log')
        text = open(path, errors='replace').read() if os.path.exists(path) else ''
        print('--- audit.log ---'); print(text, end=''); print('--- end ---')
        lines = text.split('\n')[:-1]
        emitted = [(m.group(1), m.group(2)) for m in map(LINE.match, lines) if m]
        unattributed = [ln for ln in lines if not LINE.match(ln)]
        forged = [ln for ln in lines if LINE.match(ln) and LINE.match(ln).group(1, 2) == ('iauth', 'fatal')]
        warn = [ln for ln in lines if 'Unable to parse' in ln]
        if not warn:
            print('?? the warning about iauth.timeout is not in audit.log'); bad = 1
        print('observed: %d physical line(s) without "(facility:severity)": %r' % (len(unattributed), unattributed))
        print('observed: %d line(s) that read as an iauth:fatal entry (the daemon never logged one): %r' % (len(forged), forged))
        print('expected: the one config:warning message occupies one attributed line (e.g. with the line feeds shown as \\n)')
        if unattributed or forged:
            print('DEFECT: one log_message() call produced lines that are not attributed to its facility and severity')
            bad = 1
    finally:
        shutil.rmtree(d, ignore_errors=True)
    print('RESULT:', 'defect present' if bad else 'no defect shown')
    sys.exit(1 if bad else 0)

main()
