#!/usr/bin/env python3
"""C02 defect 4: the configured request timeout is accumulated in 32 bits without
any overflow check: `timeout 4294967297` (or 49710d6h28m17s) becomes ONE second,
so a client is accepted with its query unanswered 136 years before its
configured timeout expires.

usage: demo.py <tree>     exits 1 when the tree shows the defect, 0 otherwise
"""
import os, select, shutil, subprocess, sys, tempfile, time

class Daemon:
    def __init__(self, tree, conf_rest, modules="iauth_xquery"):
        self.tmp = tempfile.mkdtemp(prefix="c02_d4_")
        conf = os.path.join(self.tmp, "d.conf")
        with open(conf, "w") as f:
            f.write('core { library_path ( "%s/modules/.libs" ); modules ( %s ); };\n' % (tree, modules))
            f.write('logs { "*.>=debug" "file:%s/d.log" };\n' % self.tmp)
            f.write(conf_rest)
        self.p = subprocess.Popen(["timeout", "60", os.path.join(tree, "src/iauthd-c"), "-n", "-f", conf],
                                  stdin=subprocess.PIPE, stdout=subprocess.PIPE,
                                  stderr=subprocess.STDOUT, cwd=self.tmp)
        self.read(0.5)
    def read(self, wait=0.2):
        out, end = b"", time.time() + wait
        while True:
            r, _, _ = select.select([self.p.stdout], [], [], max(0, end - time.time()))
            if not r:
                break
            chunk = os.read(self.p.stdout.fileno(), 65536)
            if not chunk:
                break
            out += chunk
        return out.decode("latin1").splitlines()
    def send(self, line, wait=0.2, show=True):
        self.p.stdin.write((line + "\n").encode("latin1"))
        self.p.stdin.flush()
        got = self.read(wait)
        if show:
            print("  > %s" % line)
            for l in got:
                print("  < %s" % l)
        return got
    def close(self):
        try:
            self.p.stdin.close()
            self.p.wait(timeout=5)
        except Exception:
            self.p.kill()
        shutil.rmtree(self.tmp, ignore_errors=True)

def verdicts(lines, cid):
    return [l for l in lines if l.split()[0] in ("D", "R", "k") and l.split()[1] == str(cid)]


REG = ["%d C 10.0.0.1 1234 10.0.0.2 6667", "%d N host.example", "%d u ident", "%d n nick", "%d U user :real name"]

def history(tree, value, cid):
    print('History: iauth { timeout %s }; iauth_xquery { "drone.svc" dronecheck; }; drone.svc never answers.' % value)
    d = Daemon(tree, 'iauth { timeout %s };\niauth_xquery { "drone.svc" dronecheck; };\n' % value)
    try:
        out = []
        for l in REG:
            out += d.send(l % cid, wait=0.02)
        print("  ... waiting 2.5 s ...")
        late = d.read(2.5)
        for l in late:
            print("  < %s" % l)
        out += late
        v = verdicts(out, cid)
        print("  observed verdict within 2.5 s: %s" % (v or "none"))
        print("  expected: none - the query to drone.svc is unanswered and the configured timeout is far away")
        return any(l.split()[0] in ("D", "R") for l in v)
    finally:
        d.close()

def main():
    if len(sys.argv) != 2:
        print(__doc__)
        return 2
    tree = os.path.abspath(sys.argv[1])
    ctl = history(tree, "4294967295", 1)
    print("  => control (largest value that fits): %s\n" % ("accepted?!" if ctl else "still held, as it must be"))
    a = history(tree, "4294967297", 2)
    print("  => %s\n" % ("VIOLATION: accepted after ~1 s" if a else "ok"))
    b = history(tree, "49710d6h28m17s", 3)
    print("  => %s\n" % ("VIOLATION: accepted after ~1 s" if b else "ok"))
    if (a or b) and not ctl:
        print("DEFECT SHOWN")
        return 1
    print("defect not shown")
    return 0

if __name__ == "__main__":
    sys.exit(main())
