#!/usr/bin/env python3
"""C04 / defect 1: with more than 32 configured XQUERY services, the per-client
32-bit masks alias (slot 32 shares bit 0 with slot 0, ...), so a reply from a
service that was never asked about the client is accepted and decides its fate.

usage: demo.py <tree>      exits 1 when the tree shows the defect, 0 when it does not
"""
import os, select, shutil, signal, subprocess, sys, tempfile, time

def run(tree, conf_text, lines, wait_each=0.5):
    """Feeds `lines` one by one to src/iauthd-c (under timeout); returns, per
    line, the list of stdout lines the daemon wrote in answer to it."""
    tmp = tempfile.mkdtemp(prefix="c04_d1_")
    try:
        conf = os.path.join(tmp, "iauthd.conf")
        with open(conf, "w") as f:
            f.write(conf_text.replace("@LIB@", os.path.join(tree, "modules", ".libs")))
        p = subprocess.Popen(["timeout", "30", "./src/iauthd-c", "-n", "-f", conf], cwd=tree,
                             stdin=subprocess.PIPE, stdout=subprocess.PIPE, stderr=subprocess.STDOUT)
        def drain(first):
            out, wait = b"", first
            while True:
                r, _, _ = select.select([p.stdout], [], [], wait)
                if not r:
                    break
                d = os.read(p.stdout.fileno(), 65536)
                if not d:
                    break
                out += d
                wait = 0.2
            return out.decode(errors="replace").splitlines()
        banner = drain(2.0)
        res = []
        for l in lines:
            if isinstance(l, tuple):        # ("RELOAD", new configuration text): rewrite the file, SIGUSR1
                with open(conf, "w") as f:
                    f.write(l[1].replace("@LIB@", os.path.join(tree, "modules", ".libs")))
                pid = subprocess.check_output(["pgrep", "-P", str(p.pid)]).split()[0]
                os.kill(int(pid), signal.SIGUSR1)
                time.sleep(0.15)
                res.append(drain(0.1))
                continue
            p.stdin.write(l.encode() + b"\n"); p.stdin.flush()
            res.append(drain(wait_each))
        p.stdin.close()
        try:
            rc = p.wait(timeout=10)
        except subprocess.TimeoutExpired:
            p.kill(); rc = p.wait()
        return banner, res, rc
    finally:
        shutil.rmtree(tmp, ignore_errors=True)

def main():
    if len(sys.argv) != 2:
        print(__doc__); return 2
    tree = os.path.abspath(sys.argv[1])
    # 33 services; s00 is the only drone checker, s01..s32 are login services.
    # The services take their slots in the (sorted) order of the block, so
    # s00 -> slot 0 and s32 -> slot 32 (see the 'A xquery' lines of the banner).
    svcs = "".join("    s%02d.example.org %s\n" % (i, "dronecheck" if i == 0 else "login") for i in range(33))
    conf = ('core { library_path ( "@LIB@" ); modules ( iauth, iauth_xquery ); }\n'
            'iauth { timeout 0 }\n'
            'iauth_xquery {\n' + svcs + '}\n')
    history = ["5 C 10.0.0.1 1234 10.0.0.2 6667",
               "5 N host.example.org",
               "5 u ident",
               "5 n nick",
               "5 U user :Real Name"]       # no PASS: no login service is ever asked
    failed = False
    for title, stray, bad_prefix in (
            ("account stamp from a login service that was never asked",
             "-1 X s32.example.org 5_1 :OK intruder", "R 5 "),
            ("refusal from a login service that was never asked",
             "-1 X s32.example.org 5_1 :NO you lose", "k 5 "),
            ("'unlinked' notice for a login service that was never asked",
             "-1 x s32.example.org 5_1 :Server not online", "C 5 ")):
        banner, res, rc = run(tree, conf, history + [stray])
        if not any(l.startswith("A xquery : s32.example.org") for l in banner):
            print("SETUP PROBLEM: daemon did not report 33 services:\n  " + "\n  ".join(banner)); return 2
        queries = [l for step in res[:-1] for l in step if l.startswith("X ")]
        print("== " + title)
        print("   configuration: iauth_xquery { s00.example.org dronecheck; s01..s32.example.org login } (33 services)")
        print("   input        : " + " | ".join(history))
        print("   queries sent : " + repr(queries))
        print("   stray line   : " + stray)
        print("   observed     : " + repr(res[-1]))
        print("   expected     : []   (s32 was never sent an XQUERY for 5_1; only s00 owes an answer)")
        asked_s32 = any(l.startswith("X s32.example.org ") for l in queries)
        if asked_s32:
            print("   (s32 was asked in this tree: scenario does not apply)")
            continue
        if res[-1]:
            failed = True
            print("   -> VIOLATION: a reply from a not-awaited service produced output" +
                  (" and decided the client's fate" if any(l.startswith(bad_prefix) for l in res[-1]) else ""))
        else:
            print("   -> ok")

    # Variant B: never more than ONE configured service.  A retired service keeps its slot while
    # refs > 0, and refs is not given back when the client leaves unanswered, so 32 renames walk
    # the table up to slot 32, which shares bit 0 with the long-retired svc00.
    def conf1(n):
        return ('core { library_path ( "@LIB@" ); modules ( iauth, iauth_xquery ); }\n'
                'iauth { timeout 0 }\n'
                'iauth_xquery { svc%02d login }\n' % n)
    hist = []
    for k in range(32):
        hist += ["7 C 10.0.0.1 1234 10.0.0.2 6667", "7 P :+x alice secret", "7 D", ("RELOAD", conf1(k + 1))]
    hist += ["-1 ? config", "9 C 10.0.0.9 999 10.0.0.2 6667", "9 P :+x bob pw"]
    stray = "-1 X svc00 9_21 :OK mallory"
    banner, res, rc = run(tree, conf1(0), hist + [stray], wait_each=0.12)
    cfg, query, got = res[-4], res[-2], res[-1]
    print("== variant B: one configured service at a time, renamed 32 times while a client left unanswered")
    print("   history      : 32 x [7 C ... | 7 P :+x alice secret | 7 D | reload: iauth_xquery { svc<k+1> login }],")
    print("                  then 9 C 10.0.0.9 999 10.0.0.2 6667 | 9 P :+x bob pw")
    print("   service table: %d slots (%d retired)" % (len([l for l in cfg if l.startswith("A xquery")]),
                                                        len([l for l in cfg if l.startswith("A xquery :-")])))
    print("   query sent   : " + repr(query))
    print("   stray line   : " + stray + "   (svc00 left the configuration 32 reloads ago and was never asked about 9_21)")
    print("   observed     : " + repr(got))
    print("   expected     : []")
    if query != ["X svc32 9_21 :LOGIN bob pw"]:
        print("   (scenario did not set up as on HEAD - slot 32 not reached; not counted)")
    elif got:
        failed = True
        print("   -> VIOLATION: the account of a service that was never asked was applied")
    else:
        print("   -> ok")
    return 1 if failed else 0

if __name__ == "__main__":
    sys.exit(main())
