#!/usr/bin/env python3
"""C07 demo 1: the class client 1 is admitted to depends on whether ANOTHER
client (id 7) happens to be waiting for the same service when that service is
dropped from the configuration.

usage: demo.py <tree>     exit status 1 = defect shown, 0 = not shown
"""
import os, re, select, shutil, signal, subprocess, sys, tempfile, time


class Daemon:
    """Runs <tree>/src/iauthd-c (under `timeout`) on pipes, in a private directory."""

    def __init__(self, tree, conf_text):
        self.tree = os.path.abspath(tree)
        self.dir = tempfile.mkdtemp(prefix="c07demo_")
        self.conf = os.path.join(self.dir, "iauthd.conf")
        self.write_conf(conf_text)
        exe = os.path.join(self.tree, "src", "iauthd-c")
        self.p = subprocess.Popen(["timeout", "60", exe, "-n", "-f", self.conf],
                                  stdin=subprocess.PIPE, stdout=subprocess.PIPE,
                                  stderr=subprocess.DEVNULL, cwd=self.dir)
        self.buf = b""
        self.log = []          # ("<" sent | ">" received | "#" note, text)

    def write_conf(self, text):
        text = text.replace("@LIB@", os.path.join(self.tree, "modules", ".libs"))
        with open(self.conf + ".tmp", "w") as f:
            f.write(text)
        os.rename(self.conf + ".tmp", self.conf)

    def daemon_pid(self):
        out = subprocess.run(["pgrep", "-P", str(self.p.pid)],
                             capture_output=True, text=True).stdout.split()
        return int(out[0])

    def sync(self):
        """Asks for `stats2` (its last line is a bare "s") and returns every
        line written before that, minus the statistics themselves."""
        self.p.stdin.write(b"-1 ? stats2\n")
        self.p.stdin.flush()
        out = []
        end = time.time() + 10
        while time.time() < end:
            while b"\n" in self.buf:
                line, self.buf = self.buf.split(b"\n", 1)
                line = line.decode("latin1")
                if line == "s":
                    for l in out:
                        self.log.append((">", l))
                    return out
                if not line.startswith("S "):
                    out.append(line)
            r, _, _ = select.select([self.p.stdout], [], [], 1)
            if r:
                data = os.read(self.p.stdout.fileno(), 65536)
                if not data:
                    break
                self.buf += data
        raise RuntimeError("daemon does not answer")

    def send(self, line):
        self.log.append(("<", line))
        self.p.stdin.write(line.encode("latin1") + b"\n")
        self.p.stdin.flush()
        return self.sync()

    def reload(self, conf_text, note):
        self.log.append(("#", "SIGUSR1 after rewriting the file: " + note))
        self.write_conf(conf_text)
        os.kill(self.daemon_pid(), signal.SIGUSR1)
        time.sleep(0.3)
        return self.sync()

    def close(self):
        try:
            self.p.stdin.close()
            self.p.wait(timeout=5)
        except Exception:
            self.p.kill()
        shutil.rmtree(self.dir, ignore_errors=True)


def about(lines, cid):
    """Per-client projection: lines about client `cid`, serial of the routing tag masked."""
    res = []
    for l in lines:
        w = l.split(" ")
        if w[0] == "X" and len(w) > 2 and re.match(r"^%x_[0-9a-f]+$" % cid, w[2]):
            w[2] = "%x_*" % cid
            res.append(" ".join(w))
        elif w[0] not in ("X", "A", "a", "V", "O", ">", "S", "s") and len(w) > 1 and w[1] == str(cid):
            res.append(l)
    return res


def tag_of(lines, cid):
    for l in reversed(lines):
        w = l.split(" ")
        if w[0] == "X" and len(w) > 2 and w[2].startswith("%x_" % cid):
            return w[2]
    raise RuntimeError("no query for client %d seen" % cid)


def show(title, d):
    print("--- " + title)
    for k, l in d.log:
        print("   %s %s" % (k, l))


CONF = '''core { library_path ( "@LIB@" ); modules ( iauth_class ); };
logs { "*.>=fatal" "file:demo.log" };
iauth { timeout 0 };
iauth_xquery { %s };
iauth_class {
    a_trusted { class trusted; xreply_ok "login.example.org" };
    z_default { class default_clients };
};
'''
WITH = CONF % "login.example.org login"
WITHOUT = CONF % ""

# client 1's own events; the reload sits at the same place of its history in both runs
def run(tree, other_client):
    d = Daemon(tree, WITH)
    try:
        out = d.sync()
        if other_client:
            # client 7: announces itself, sends its login, and keeps waiting for the answer
            out += d.send("7 C 10.0.0.7 7007 10.9.9.9 6667")
            out += d.send("7 P :+x bob hunter2")
        out += d.send("1 C 10.0.0.1 1001 10.9.9.9 6667")
        out += d.send("1 P :+x alice secret")
        out += d.send("-1 X login.example.org %s :OK alice:1700000000" % tag_of(out, 1))
        out += d.reload(WITHOUT, "iauth_xquery { } (login.example.org dropped)")
        out += d.send("1 N host1.example.net")
        out += d.send("1 u alice")
        out += d.send("1 n alice")
        out += d.send("1 U alice :Alice")
    finally:
        d.close()
    return d, about(out, 1)


def main():
    tree = sys.argv[1]
    d_alone, alone = run(tree, False)
    d_both, both = run(tree, True)
    show("run A: client 1 alone", d_alone)
    show("run B: same events of client 1, client 7 waits for login.example.org meanwhile", d_both)
    print()
    print("lines about client 1, run A:", *alone, sep="\n    ")
    print("lines about client 1, run B:", *both, sep="\n    ")
    if alone != both:
        print("\nDEFECT: client 1's conversation depends on client 7's traffic")
        print("expected: identical lines about client 1 in both runs (property C07);")
        print("observed: the verdict names class %r alone and %r next to client 7"
              % (alone[-1].split(" ")[-1], both[-1].split(" ")[-1]))
        return 1
    print("\nnot shown: client 1 is told the same in both runs")
    return 0


if __name__ == "__main__":
    sys.exit(main())
