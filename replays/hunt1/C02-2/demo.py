#!/usr/bin/env python3
"""C02 defect 2: a service that is asked a second time (password after the data, or a
second PASS) has two queries outstanding but owes only one reply: the answer to
the first query releases the hold and the client is accepted while the LOGIN is
unanswered.

usage: demo.py <tree>     exits 1 when the tree shows the defect, 0 otherwise
"""
import os, select, shutil, subprocess, sys, tempfile, time

class Daemon:
    def __init__(self, tree, conf_rest, modules="iauth_xquery"):
        self.tmp = tempfile.mkdtemp(prefix="c02_d2_")
        conf = os.path.join(self.tmp, "d.conf")
        with open(conf, "w") as f:
            f.write('core { library_path ( "%s/modules/.libs" ); modules ( %s ); };\n' % (tree, modules))
            f.write('logs { "*.>=debug" "file:%s/d.log" };\n' % self.tmp)
            f.write(conf_rest)
        self.p = subprocess.Popen(["timeout", "60", os.path.join(tree, "src/iauthd-c"), "-n", "-f", conf],
                                  stdin=subprocess.PIPE, stdout=subprocess.PIPE,
                                  stderr=subprocess.STDOUT, cwd=self.tmp)
        self.read(0.5)
    def read(self, wait=0.2):
        out, end = b"", time.time() + wait
        while True:
            r, _, _ = select.select([self.p.stdout], [], [], max(0, end - time.time()))
            if not r:
                break
            chunk = os.read(self.p.stdout.fileno(), 65536)
            if not chunk:
                break
            out += chunk
        return out.decode("latin1").splitlines()
    def send(self, line, wait=0.2, show=True):
        self.p.stdin.write((line + "\n").encode("latin1"))
        self.p.stdin.flush()
        got = self.read(wait)
        if show:
            print("  > %s" % line)
            for l in got:
                print("  < %s" % l)
        return got
    def close(self):
        try:
            self.p.stdin.close()
            self.p.wait(timeout=5)
        except Exception:
            self.p.kill()
        shutil.rmtree(self.tmp, ignore_errors=True)

def verdicts(lines, cid):
    return [l for l in lines if l.split()[0] in ("D", "R", "k") and l.split()[1] == str(cid)]


REG = ["%d C 10.0.0.1 1234 10.0.0.2 6667", "%d N host.example", "%d u ident", "%d n nick", "%d U user :real name"]

def history(tree, title, svc_type, lines, reply, cid):
    print(title)
    d = Daemon(tree, 'iauth { timeout 0 };\niauth_xquery { "auth.svc" %s; };\n' % svc_type)
    try:
        out = []
        for l in lines:
            out += d.send(l % cid)
        nq = sum(1 for o in out if o.startswith("X auth.svc ") and " :CHECK " in o) if svc_type == "combined" else \
             sum(1 for o in out if o.startswith("X auth.svc ") and " :LOGIN " in o)
        print("  queries sent to auth.svc: %d, replies so far: 0" % nq)
        out = d.send("-1 X auth.svc %x_1 :%s" % (cid, reply))
        v = verdicts(out, cid)
        print("  replies so far: 1; observed verdict: %s" % (v or "none"))
        print("  expected: none yet - the second query (with the LOGIN) is unanswered and no timeout is configured")
        late = d.send("-1 X auth.svc %x_1 :NO bad password" % cid)
        print("  the service's verdict on the LOGIN (NO bad password) then gives: %s" % (verdicts(late, cid) or "nothing - the request is gone"))
        return nq >= 2 and any(l.split()[0] in ("D", "R") for l in v)
    finally:
        d.close()

def history_c(tree):
    print("History C: auth.svc combined and drone.svc dronecheck; password after the data; auth.svc answers the")
    print("           first CHECK with OK and the CHECK+LOGIN with NO; then drone.svc answers OK.")
    d = Daemon(tree, 'iauth { timeout 0 };\niauth_xquery { "auth.svc" combined; "drone.svc" dronecheck; };\n')
    try:
        for l in REG + ["%d P :+x acct wrongpw"]:
            d.send(l % 3)
        out = d.send("-1 X auth.svc 3_1 :OK")
        out += d.send("-1 X auth.svc 3_1 :NO bad password")
        print("  at the NO: %s   (expected: k 3 10.0.0.1 1234 :bad password)" % (verdicts(out, 3) or "nothing"))
        out += d.send("-1 X drone.svc 3_1 :OK")
        v = verdicts(out, 3)
        print("  observed verdict: %s" % (v or "none"))
        return any(l.split()[0] in ("D", "R") for l in v)
    finally:
        d.close()

def main():
    if len(sys.argv) != 2:
        print(__doc__)
        return 2
    tree = os.path.abspath(sys.argv[1])
    a = history(tree, "History A: service auth.svc of type combined; the password arrives after the registration data.",
                "combined", REG + ["%d P :+x acct wrongpw"], "OK", 1)
    print("  => %s\n" % ("VIOLATION: accepted with the CHECK+LOGIN query unanswered" if a else "ok"))
    b = history(tree, "History B: service auth.svc of type login; the client sends PASS twice.",
                "login", ["%d C 10.0.0.1 1234 10.0.0.2 6667", "%d P :+x acct pw1", "%d P :+x acct pw2"] + REG[1:], "OK", 2)
    print("  => %s\n" % ("VIOLATION: accepted with the second LOGIN unanswered" if b else "ok"))
    c = history_c(tree)
    print("  => %s\n" % ("VIOLATION: the client refused by auth.svc is accepted" if c else "ok"))
    if a or b or c:
        print("DEFECT SHOWN")
        return 1
    print("defect not shown")
    return 0

if __name__ == "__main__":
    sys.exit(main())
