#!/usr/bin/env python3
"""demo.py <tree>: a reload that REMOVES an address pair somebody had resolved touches freed memory:
after the lookup finished, the node still holds the handle of the (freed) request and hands it to
evdns_getaddrinfo_cancel; while the lookup is in flight, the cancellation notice is delivered to the freed node.
Needs valgrind.  Exits 1 when the tree shows the defect, 0 when it does not, 2 on a build/tool problem."""
import os, re, shutil, socket, struct, subprocess, sys, tempfile, threading, time

HARNESS = r'''
#include "src/common.h"
#include <stdarg.h>
const char *evutil_format_sockaddr_port_(const struct sockaddr *sa, char *out, size_t outlen);
struct event_base *ev_base; struct evdns_base *ev_dns; int clean_exit;
struct log_type { int dummy; }; static struct log_type the_type; struct log_type *log_core = &the_type;
void module_close_all(void) {}
struct log_type *log_type_register(const char *name, const char *def) { (void)name; (void)def; return &the_type; }
void log_message(struct log_type *type, enum log_severity sev, const char *format, ...)
{ va_list args; (void)type; printf("LOG %d ", sev); va_start(args, format); vprintf(format, args); va_end(args); printf("\n"); if (sev == LOG_FATAL) _exit(3); }
static void hook(struct conf_node_base *b) { printf("HOOK %s\n", b->name); }
int main(void)
{
    static char line[1024];
    struct conf_node_object *top; struct conf_node_inaddr *n = NULL;
    ctype_init(); setvbuf(stdout, NULL, _IOLBF, 0);
    ev_base = event_base_new();
    ev_dns = evdns_base_new(ev_base, 0);
    top = conf_register_object(NULL, "top");
    while (fgets(line, sizeof(line), stdin)) {
        char *a = strtok(line, " \n"), *b = strtok(NULL, " \n");
        if (!a) continue;
        if (!strcmp(a, "load")) printf("LOAD %s -> %d\n", b, conf_read(b));
        else if (!strcmp(a, "dns")) { evdns_base_set_option(ev_dns, "attempts", "1"); printf("DNS %s -> %d\n", b, evdns_base_nameserver_ip_add(ev_dns, b)); }
        else if (!strcmp(a, "reg")) { n = conf_register_inaddr(top, "a", "localhost", "6667"); n->base.hook = hook; }
        else if (!strcmp(a, "get")) { n = conf_get_child(top, "a", CONF_INADDR); }
        else if (!strcmp(a, "validate")) printf("VALIDATE -> %d\n", (int)conf_inaddr_validate(n));
        else if (!strcmp(a, "loop")) { struct timeval tv; tv.tv_sec = atoi(b) / 1000; tv.tv_usec = (atoi(b) % 1000) * 1000; event_base_loopexit(ev_base, &tv); event_base_dispatch(ev_base); }
        else if (!strcmp(a, "show")) {
            char ab[128] = "none";
            if (n->addr) evutil_format_sockaddr_port_(n->addr->ai_addr, ab, sizeof(ab));
            printf("SHOW host=%s service=%s state=%d addr=%s\n", n->hostname, n->service, (int)n->state, ab);
        }
        else if (!strcmp(a, "quit")) { fflush(stdout); _exit(0); }
    }
    return 0;
}
'''

def dns_server(sock):
    """old.test -> 10.0.0.1 after 0.6 s, new.test -> 10.0.0.2 at once; AAAA: empty answer."""
    def later(pkt, addr, delay):
        time.sleep(delay)
        try: sock.sendto(pkt, addr)
        except OSError: pass
    while True:
        try: data, addr = sock.recvfrom(2048)
        except OSError: return
        i = 12; labels = []
        while data[i]:
            l = data[i]; labels.append(data[i + 1:i + 1 + l].decode().lower()); i += 1 + l
        i += 1
        qtype = struct.unpack('>H', data[i:i + 2])[0]; i += 4
        q = data[12:i]; name = '.'.join(labels)
        ip = {'old.test': '10.0.0.1', 'new.test': '10.0.0.2'}.get(name)
        if ip and qtype == 1:
            pkt = data[:2] + struct.pack('>HHHHH', 0x8180, 1, 1, 0, 0) + q + b'\xc0\x0c' + struct.pack('>HHIH', 1, 1, 60, 4) + socket.inet_aton(ip)
        else:
            pkt = data[:2] + struct.pack('>HHHHH', 0x8180 if ip else 0x8183, 1, 0, 0, 0) + q
        threading.Thread(target=later, args=(pkt, addr, 0.6 if name == 'old.test' else 0.0), daemon=True).start()

def run(tmp, script):
    p = subprocess.run(['timeout', '120', 'valgrind', '-q', '--error-exitcode=9', os.path.join(tmp, 'h')], input=script.encode(),
                       stdout=subprocess.PIPE, stderr=subprocess.STDOUT, cwd=tmp)
    return p.returncode, p.stdout.decode(errors='replace')

def main():
    tree = os.path.abspath(sys.argv[1])
    if not shutil.which('valgrind'):
        print('valgrind not found'); return 2
    tmp = tempfile.mkdtemp(prefix='c15demo3')
    sock = socket.socket(socket.AF_INET, socket.SOCK_DGRAM)
    try:
        open(os.path.join(tmp, 'h.c'), 'w').write(HARNESS)
        cmd = ['timeout', '120', 'gcc', '-g', '-O0', '-DHAVE_CONFIG_H', '-I' + tree, os.path.join(tmp, 'h.c')] + \
              [os.path.join(tree, 'src', f) for f in ('config.c', 'set.c', 'common.c')] + ['-levent', '-o', os.path.join(tmp, 'h')]
        p = subprocess.run(cmd, stdout=subprocess.PIPE, stderr=subprocess.STDOUT)
        if p.returncode:
            print('cannot build the harness:\n' + p.stdout.decode()); return 2
        sock.bind(('127.0.0.1', 0)); port = sock.getsockname()[1]
        threading.Thread(target=dns_server, args=(sock,), daemon=True).start()
        open(os.path.join(tmp, 'o.conf'), 'w').write('top { a "old.test" 80; }\n')
        open(os.path.join(tmp, 'e.conf'), 'w').write('top { }\n')
        print('object top registered; file 1 `top { a "old.test" 80; }`; a consumer takes the pair with conf_get_child(top, "a", CONF_INADDR)')
        print('and calls conf_inaddr_validate (local name server: old.test = 10.0.0.1, answers after 0.6 s); file 2 `top { }` removes the pair')
        bad = 0
        for title, script, where in (
            ('reload after the answer arrived  ', 'dns 127.0.0.1:%d\nload o.conf\nget\nvalidate\nloop 1200\nshow\nload e.conf\nloop 100\nquit\n', 'evdns_getaddrinfo_cancel'),
            ('reload while the lookup is in flight', 'dns 127.0.0.1:%d\nload o.conf\nget\nvalidate\nload e.conf\nloop 1200\nquit\n', 'conf_inaddr_resolved'),
        ):
            rc, out = run(tmp, script % port)
            errs = [l for l in out.splitlines() if l.startswith('==')]
            print('%s: valgrind exit status %d, %d report lines' % (title, rc, len(errs)))
            if rc not in (0, 9) or 'LOAD e.conf -> 0' not in out:
                print('harness failed:\n' + out); return 2
            if rc == 9:
                first = []
                for l in errs:
                    if re.search(r'Invalid (read|write)', l) and first: break
                    first.append('      ' + l)
                print('\n'.join(first[:24]))
                print('   expected: no memory error; observed: freed memory used in %s: DEFECT' % where)
                bad = 1
            else:
                print('   no memory error')
        return bad
    finally:
        sock.close()
        shutil.rmtree(tmp, ignore_errors=True)

sys.exit(main())
