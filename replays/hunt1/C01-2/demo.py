#!/usr/bin/env python3
"""C01 / defect 2: an announcement the daemon rejects (too few fields, unreadable address)
for an id that is still live leaves the previous holder's request in the table; the new
client's lines are then applied to it and a verdict is issued that names the previous,
withdrawn client (old address and port, old password/account).

usage: demo.py <tree>      exit 1 = defect shown, 0 = not shown, 2 = could not run
"""
import os, shutil, subprocess, sys, tempfile

def run(tree, lines):
    tmp = tempfile.mkdtemp(prefix="c01d2.")
    try:
        conf = os.path.join(tmp, "d.conf")
        with open(conf, "w") as f:
            f.write('core {\n library_path ( "%s/modules/.libs" )\n modules ( iauth_xquery )\n}\n'
                    'logs { "*.>=fatal" "file:%s/d.log" }\n'
                    'iauth { timeout 0 }\niauth_xquery { login.svc login }\n' % (tree, tmp))
        data = "".join(l + "\n" for l in lines).encode()
        # stdin reaches EOF after the last line: the daemon then exits by itself
        p = subprocess.run(["timeout", "-k", "2", "20", os.path.join(tree, "src", "iauthd-c"), "-n", "-f", conf],
                           input=data, stdout=subprocess.PIPE, stderr=subprocess.PIPE, cwd=tmp)
        return p.returncode, p.stdout.decode("latin-1").splitlines(), p.stderr.decode("latin-1")
    finally:
        shutil.rmtree(tmp, ignore_errors=True)

OLD = "5 1.1.1.1 1000"

def main():
    if len(sys.argv) != 2:
        print(__doc__); return 2
    tree = os.path.abspath(sys.argv[1])
    tail = ["5 N b.example", "5 u bob", "5 n bob", "5 U bob b.example irc.example :Bob",
            "-1 X login.svc 5_1 :OK alice"]
    cases = [
        ("control: a readable re-announcement replaces the old request",
         "5 C 2.2.2.2 2000 9.9.9.9 6667"),
        ("re-announcement with an address the daemon cannot read",
         "5 C 2.2.2.2:x 2000 9.9.9.9 6667"),
        ("re-announcement with too few fields",
         "5 C 2.2.2.2 2000"),
    ]
    shown = 0
    for n, (title, reannounce) in enumerate(cases):
        lines = ["5 C 1.1.1.1 1000 9.9.9.9 6667", "5 P :+x alice secret", reannounce] + tail
        rc, out, err = run(tree, lines)
        if rc != 0 and not out:
            print("cannot run the daemon (rc=%s): %s" % (rc, err.strip())); return 2
        print("case: %s" % title)
        for l in lines:
            print("   input    > %s" % l)
        # everything after the query for the first client's password is output that
        # follows the re-announcement (the re-announcement itself is the third line)
        seen_query = False
        bad = []
        for o in out:
            if o.split(" ")[0] in ("V", "a", "A", "O"):
                continue
            print("   output   < %s" % o)
            if o.startswith("X login.svc 5_1 :LOGIN alice secret") and not seen_query:
                seen_query = True
                continue
            w = o.split(" ")
            if seen_query and len(w) >= 4 and " ".join(w[1:4]) == OLD:
                bad.append(o)
        if n == 0:
            if bad:
                print("   unexpected: the control case already names the old client"); shown += 1
            else:
                print("   ok: after the re-announcement nothing names 1.1.1.1 port 1000")
            continue
        if bad:
            shown += 1
            print("   OBSERVED : after the server re-announced id 5, the daemon still speaks about the")
            print("              previous holder (1.1.1.1 port 1000): %s" % "; ".join(bad))
            print("   EXPECTED : nothing further that names the withdrawn client; no verdict built from")
            print("              its record (its account 'alice' is handed to whoever holds id 5 now)")
        else:
            print("   ok: nothing names the previous holder")
    if shown:
        print("DEFECT SHOWN in %d case(s)" % shown); return 1
    print("defect not shown"); return 0

if __name__ == "__main__":
    sys.exit(main())
