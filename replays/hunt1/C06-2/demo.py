#!/usr/bin/env python3
"""C06 demo 2: a PASS with a <mode> and an account name but an empty password ("+x acct ") is forwarded to the login services."""
import os, sys, subprocess, tempfile, shutil, time, select, signal

class Daemon:
    """Runs <tree>/src/iauthd-c (under `timeout`) on a temporary configuration and talks to it over pipes."""
    def __init__(self, tree, services):
        self.tree = os.path.abspath(tree)
        self.tmp = tempfile.mkdtemp(prefix="c06demo_")
        self.conf = os.path.join(self.tmp, "demo.conf")
        self.write_conf(services)
        self.p = subprocess.Popen(
            ["timeout", "-k", "2", "30", os.path.join(self.tree, "src", "iauthd-c"), "-n", "-f", self.conf],
            stdin=subprocess.PIPE, stdout=subprocess.PIPE, stderr=subprocess.DEVNULL, cwd=self.tmp)
        self.buf = b""
        # wait for the start-up banner ("O S..." is its last line)
        self.start = self.read_until(lambda l: l.startswith("O "), 5.0)
    def write_conf(self, services):
        with open(self.conf, "w") as f:
            f.write('core { library_path ( "%s/modules/.libs" ); modules ( iauth_xquery ) }\n' % self.tree)
            f.write('logs { "*.>=info" "file:demo.log" }\n')
            f.write('iauth { timeout 0 }\n')
            f.write('iauth_xquery {\n%s\n}\n' % "\n".join("    " + s for s in services))
    def send(self, *lines):
        for l in lines:
            self.p.stdin.write(l.encode("latin-1") + b"\n")
        self.p.stdin.flush()
    def _pump(self, t):
        r, _, _ = select.select([self.p.stdout], [], [], max(t, 0))
        if not r:
            return False
        d = os.read(self.p.stdout.fileno(), 65536)
        if not d:
            return False
        self.buf += d
        return True
    def read(self, quiet=0.4):
        """Returns the lines written until the daemon has been quiet for `quiet` seconds."""
        while self._pump(quiet):
            pass
        *ls, self.buf = self.buf.split(b"\n")
        return [l.decode("latin-1") for l in ls]
    def read_until(self, pred, limit):
        out = []; end = time.time() + limit
        while time.time() < end:
            self._pump(0.1)
            *ls, self.buf = self.buf.split(b"\n")
            out += [l.decode("latin-1") for l in ls]
            if any(pred(l) for l in out):
                break
        return out
    def reload(self, services):
        """Rewrites the configuration file and sends SIGUSR1 (re-read) to the daemon."""
        self.write_conf(services)
        for pid in os.listdir("/proc"):
            if not pid.isdigit():
                continue
            try:
                with open("/proc/%s/stat" % pid) as f:
                    st = f.read()
                ppid = int(st[st.rindex(")") + 2:].split()[1])
            except Exception:
                continue
            if ppid == self.p.pid:
                os.kill(int(pid), signal.SIGUSR1)
        time.sleep(0.5)
    def close(self):
        try:
            self.p.stdin.close()
            self.p.wait(timeout=5)
        except Exception:
            self.p.kill()
        shutil.rmtree(self.tmp, ignore_errors=True)

def run(tree, pw):
    d = Daemon(tree, ["login.example.org login", "ipr.example.org login-ipr", "comb.example.org combined"])
    try:
        lines = ["5 C 192.0.2.7 40000 198.51.100.1 6667", "5 P :" + pw,
                 "5 N client.example.net", "5 u ident", "5 n nick", "5 U user :Real Name"]
        d.send(*lines)
        out = d.read(0.6)
    finally:
        d.close()
    return lines, [l for l in out if l.startswith("X ")]

def main():
    if len(sys.argv) != 2:
        print("usage: demo.py <tree>"); return 2
    tree = sys.argv[1]
    bad = 0
    # control: a complete password is forwarded
    lines, xs = run(tree, "+x acct secret")
    ctl = [l for l in xs if "LOGIN" in l]
    print("control  'P :+x acct secret' ->", ctl)
    if len(ctl) != 3:
        print("INCONCLUSIVE: the control password was not forwarded to the three login-type services"); return 0
    for pw in ["+x acct ", "+x acct    ", "+! acct "]:
        lines, xs = run(tree, pw)
        fwd = [l for l in xs if "LOGIN" in l]
        print("input:")
        for l in lines: print("    %r" % l)
        print("expected: no LOGIN / LOGIN2 line (the text after the <mode> is '<account>' followed by blanks only: there is no <password>);")
        print("          the combined service gets its CHECK line only")
        print("observed:")
        for l in xs: print("    %r" % l)
        if fwd:
            bad += 1
    if bad:
        print("DEFECT: a password without the '<modes> <account> <password>' shape was forwarded"); return 1
    print("ok"); return 0

if __name__ == "__main__":
    sys.exit(main())
