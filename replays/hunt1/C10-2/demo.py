#!/usr/bin/env python3
"""C10 defect 2: a request that ends while XQUERY replies are outstanding never gives back its references
on the services, so a service that is later removed from the configuration is kept (and reported) forever
although no request is in use.

usage: demo.py <tree>      (<tree> = built iauthd-c tree: <tree>/src/iauthd-c, <tree>/modules/.libs/*.so)

Exit status: 1 = defect shown, 0 = not shown (or run inconclusive; a message says so).
"""
import os, re, select, shutil, signal, subprocess, sys, tempfile, time

CONF = """core {
    library_path ( "%(lib)s" )
    modules ( iauth_xquery )
}
iauth { %(iauth)s }
iauth_xquery {
%(xq)s
}
"""

INFO = ["%d N host.example.org", "%d u ident", "%d n nick", "%d U user :real name"]


def announce(i):
    return ["%d C 1.2.3.4 1000 5.6.7.8 6667" % i] + [l % i for l in INFO]

# name, iauth block, services before the reload, lines, pause before the reload
SCENARIOS = [
    ("control: the reply arrives, then the client is withdrawn", "", "svc.b dronecheck",
     announce(1) + ["-1 X svc.b 1_1 :OK", "1 D"], 0),
    ("client withdrawn (D) before the reply", "", "svc.b dronecheck",
     announce(1) + ["1 D"], 0),
    ("client reported registered (T) before the reply", "", "svc.b dronecheck",
     announce(1) + ["1 T"], 0),
    ("id re-announced (C) before the reply, new client withdrawn at once", "", "svc.b dronecheck",
     announce(1) + ["1 C 1.2.3.9 1000 5.6.7.8 6667", "1 D"], 0),
    ("client refused by another service (NO) before the reply", "", "svc.a dronecheck\n svc.b dronecheck",
     announce(1) + ["-1 X svc.a 1_1 :NO go away"], 0),
    ("client accepted by the request timeout before the reply", "timeout 1", "svc.b dronecheck",
     announce(1), 1.6),
]


def daemon_pid(wrapper):
    """The daemon runs under timeout(1); signals must go to the daemon itself."""
    for _ in range(100):
        try:
            with open("/proc/%d/task/%d/children" % (wrapper.pid, wrapper.pid)) as f:
                kids = f.read().split()
            if kids:
                return int(kids[0])
        except OSError:
            pass
        time.sleep(0.02)
    return None


def read_for(proc, seconds):
    out = b""
    end = time.time() + seconds
    while True:
        left = end - time.time()
        if left <= 0:
            break
        r, _, _ = select.select([proc.stdout], [], [], left)
        if not r:
            break
        chunk = os.read(proc.stdout.fileno(), 65536)
        if not chunk:
            break
        out += chunk
    return out


def run(binary, lib, iauth, xq, lines, pause):
    tmp = tempfile.mkdtemp(prefix="c10-demo2-")
    proc = None
    try:
        conf = os.path.join(tmp, "demo.conf")
        with open(conf, "w") as f:
            f.write(CONF % {"lib": lib, "iauth": iauth, "xq": " " + xq})
        proc = subprocess.Popen(["timeout", "30", binary, "-n", "-f", conf], stdin=subprocess.PIPE,
                                stdout=subprocess.PIPE, stderr=subprocess.PIPE, cwd=tmp)
        out = read_for(proc, 0.3)
        proc.stdin.write("".join(l + "\n" for l in lines).encode())
        proc.stdin.flush()
        out += read_for(proc, 0.3 + pause)
        # reload: svc.b is no longer configured
        with open(conf + ".new", "w") as f:
            f.write(CONF % {"lib": lib, "iauth": iauth, "xq": ""})
        os.rename(conf + ".new", conf)
        pid = daemon_pid(proc)
        if pid is None:
            return None, "could not find the daemon's pid"
        os.kill(pid, signal.SIGUSR1)
        out += read_for(proc, 0.3)
        mark = len(out)
        proc.stdin.write(b"-1 ? config\n-1 ? stats\n")
        proc.stdin.flush()
        out += read_for(proc, 0.4)
        proc.stdin.close()
        proc.stdin = None
        rest, err = proc.communicate(timeout=35)
        out += rest
        return (out[:mark].decode(errors="replace"), out[mark:].decode(errors="replace"), proc.returncode), None
    finally:
        if proc is not None and proc.poll() is None:
            proc.kill()
            proc.wait()
        shutil.rmtree(tmp, ignore_errors=True)


def main():
    if len(sys.argv) != 2:
        print(__doc__)
        return 0
    tree = os.path.abspath(sys.argv[1])
    binary = os.path.join(tree, "src", "iauthd-c")
    lib = os.path.join(tree, "modules", ".libs")
    if not os.access(binary, os.X_OK) or not os.path.exists(os.path.join(lib, "iauth_xquery.so")):
        print("INCONCLUSIVE: %s is not built (no src/iauthd-c or modules/.libs/iauth_xquery.so)" % tree)
        return 0
    shown = 0
    for name, iauth, xq, lines, pause in SCENARIOS:
        print("=== " + name)
        print("configuration: iauth { %s }  iauth_xquery { %s }" % (iauth, xq.replace("\n", ";")))
        for l in lines:
            print("    > " + l)
        if pause:
            print("    (wait %.1f s)" % pause)
        print("    (configuration file rewritten with an empty iauth_xquery block, SIGUSR1)")
        print("    > -1 ? config")
        print("    > -1 ? stats")
        res, why = run(binary, lib, iauth, xq, lines, pause)
        if res is None:
            print("INCONCLUSIVE: " + why)
            continue
        before, after, rc = res
        for l in before.splitlines():
            if re.match(r"^[XdDRk] ", l):
                print("    < " + l)
        m_use = re.search(r"^S iauth :(\d+)-(\d+) reqs alloc, (\d+) in use", after, re.M)
        m_srv = re.search(r"^S xquery :(\d+)-(\d+) srv alloc", after, re.M)
        lingering = re.findall(r"^A xquery :(-\S+ \S+)", after, re.M)
        if not m_use or not m_srv:
            print("INCONCLUSIVE: no statistics in the daemon's output:\n" + before + after)
            continue
        in_use = int(m_use.group(3))
        allocs, frees = int(m_srv.group(1)), int(m_srv.group(2))
        print("    observed: %s in use; services: %d allocated, %d freed; retired services still reported: %s; exit status %d"
              % (in_use, allocs, frees, lingering or "none", rc))
        print("    expected: 0 in use; services: %d allocated, %d freed; retired services still reported: none"
              % (allocs, allocs))
        if in_use == 0 and (allocs != frees or lingering):
            print("    -> no request is in use, yet %d service(s) removed from the configuration are still held"
                  " by the references of requests that no longer exist" % (allocs - frees))
            shown += 1
    if shown:
        print("DEFECT SHOWN in %d scenario(s)" % shown)
        return 1
    print("defect not shown")
    return 0


if __name__ == "__main__":
    sys.exit(main())
