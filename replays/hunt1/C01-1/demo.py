#!/usr/bin/env python3
"""C01 / defect 1: the id field of an input line is narrowed from long to int unchecked
(and a line without any id is taken to carry id 0), so the daemon issues verdicts
for ids the server never announced.

usage: demo.py <tree>      exit 1 = defect shown, 0 = not shown, 2 = could not run
"""
import os, shutil, subprocess, sys, tempfile

def run(tree, lines):
    tmp = tempfile.mkdtemp(prefix="c01d1.")
    try:
        conf = os.path.join(tmp, "d.conf")
        with open(conf, "w") as f:
            f.write('core {\n library_path ( "%s/modules/.libs" )\n modules ( iauth_xquery )\n}\n'
                    'logs { "*.>=fatal" "file:%s/d.log" }\n'
                    'iauth { timeout 0 }\niauth_xquery { }\n' % (tree, tmp))
        data = "".join(l + "\n" for l in lines).encode()
        # stdin reaches EOF after the last line: the daemon then exits by itself
        p = subprocess.run(["timeout", "-k", "2", "20", os.path.join(tree, "src", "iauthd-c"), "-n", "-f", conf],
                           input=data, stdout=subprocess.PIPE, stderr=subprocess.PIPE, cwd=tmp)
        return p.returncode, p.stdout.decode("latin-1").splitlines(), p.stderr.decode("latin-1")
    finally:
        shutil.rmtree(tmp, ignore_errors=True)

def named_id(line):
    """The client id an output line names, or None."""
    w = line.split(" ")
    if len(w) >= 4 and len(w[0]) == 1 and w[0] in "DRkdoUuNIMC":
        try:
            return int(w[1])
        except ValueError:
            return None
    if w[0] == "X" and len(w) >= 3 and "_" in w[2]:
        try:
            return int(w[2].split("_")[0], 16)
        except ValueError:
            return None
    return None

def main():
    if len(sys.argv) != 2:
        print(__doc__); return 2
    tree = os.path.abspath(sys.argv[1])
    cases = [
        ("id 2^32+5 is folded onto id 5",
         ["4294967301 C 1.2.3.4 1000 9.9.9.9 6667", "4294967301 H"], {4294967301}),
        ("id -(2^32-7) is folded onto id 7",
         ["-4294967289 C 1.2.3.4 1000 9.9.9.9 6667", "-4294967289 H"], {-4294967289}),
        ("a line without an id is taken for id 0",
         ["C 1.2.3.4 1000 9.9.9.9 6667", "H"], set()),
    ]
    shown = 0
    for title, lines, announced in cases:
        rc, out, err = run(tree, lines)
        if rc != 0 and not out:
            print("cannot run the daemon (rc=%s): %s" % (rc, err.strip())); return 2
        print("case: %s" % title)
        for l in lines:
            print("   input    > %s" % l)
        bad = []
        for o in out:
            cid = named_id(o)
            if cid is not None:
                print("   output   < %s" % o)
                if cid not in announced:
                    bad.append(o)
        if bad:
            shown += 1
            print("   OBSERVED : the daemon names id %s, which the server never announced (announced: %s)"
                  % (sorted(set(named_id(b) for b in bad)), sorted(announced) or "nothing"))
            print("   EXPECTED : no verdict (indeed no message at all) for an id the server has not announced")
        else:
            print("   ok: nothing was said about an unannounced id")
    if shown:
        print("DEFECT SHOWN in %d of %d cases" % (shown, len(cases))); return 1
    print("defect not shown"); return 0

if __name__ == "__main__":
    sys.exit(main())
