#!/usr/bin/env python3
"""C17 defect 3: a service that ever had a client leave without a final reply
(disconnect, registration/timeout, or a NO verdict) can never be released: a
reload that removes it leaves it in the table (and in the config report) for good.

usage: demo.py <tree>      exit status 1 = defect shown, 0 = not shown, 2 = harness trouble
"""
import os, sys, subprocess, tempfile, shutil, time, signal, select, re

TIMEOUT = "30"          # seconds, every daemon runs under timeout(1)

class Daemon:
    def __init__(self, tree, body):
        self.tree = os.path.abspath(tree)
        self.dir = tempfile.mkdtemp(prefix="c17demo_")
        self.conf = os.path.join(self.dir, "iauthd.conf")
        self.write(body)
        self.p = subprocess.Popen(["timeout", TIMEOUT, os.path.join(self.tree, "src", "iauthd-c"),
                                   "-n", "-f", self.conf],
                                  stdin=subprocess.PIPE, stdout=subprocess.PIPE,
                                  stderr=subprocess.PIPE, cwd=self.dir)
        self.buf = b""
        self.reloads = 0
        first = self.read(1.0)
        if not first or not first[0].startswith("V "):
            raise RuntimeError("daemon did not start: %r %r" % (first, self.close()))
    def write(self, body):
        text = ('core { library_path ( "%s/modules/.libs" ); modules ( iauth_class, iauth_xquery ) }\n'
                'logs { "*.>=info" "file:log.txt" }\niauth { }\n' % self.tree) + body
        with open(self.conf + ".new", "w") as f:
            f.write(text)
        os.rename(self.conf + ".new", self.conf)
    def pid(self):
        """pid of iauthd-c (the child of timeout)"""
        with open("/proc/%d/task/%d/children" % (self.p.pid, self.p.pid)) as f:
            return int(f.read().split()[0])
    def send(self, line):
        self.p.stdin.write(line.encode() + b"\n")
        self.p.stdin.flush()
    def read(self, quiet=0.4):
        while True:
            r, _, _ = select.select([self.p.stdout], [], [], quiet)
            if not r:
                break
            d = os.read(self.p.stdout.fileno(), 65536)
            if not d:
                break
            self.buf += d
        lines = self.buf.split(b"\n")
        self.buf = lines.pop()
        return [l.decode("latin1") for l in lines]
    def log(self):
        try:
            with open(os.path.join(self.dir, "log.txt")) as f:
                return f.read()
        except FileNotFoundError:
            return ""
    def reload(self, body):
        self.write(body)
        self.reloads += 1
        os.kill(self.pid(), signal.SIGUSR1)
        for _ in range(200):
            if self.log().count("Re-reading config file") >= self.reloads:
                break
            time.sleep(0.05)
        else:
            raise RuntimeError("the daemon did not log the reload")
        time.sleep(0.2)
    def config(self):
        self.read(0.1)
        self.send("-1 ? config")
        return [l for l in self.read() if l.startswith("A ")]
    def close(self):
        try:
            self.p.stdin.close()
            self.p.wait(timeout=5)
        except Exception:
            self.p.kill()
            self.p.wait()
        err = self.p.stderr.read().decode("latin1")
        shutil.rmtree(self.dir, ignore_errors=True)
        return err

def norm(lines):
    """drop the serial from routing tags: it counts the clients the daemon has seen"""
    return [re.sub(r"^(X \S+ [0-9a-f]+)_[0-9a-f]+", r"\1", l) for l in lines]


OLD = "iauth_xquery { old.example.org dronecheck }\n"
NEW = "iauth_xquery { new.example.org dronecheck }\n"

CLIENT = ["1 C 10.9.9.9 4321 10.0.0.1 6667", "1 d", "1 u", "1 n early", "1 U early host server :Early Bird"]

def history(tree, how):
    a = None
    try:
        a = Daemon(tree, OLD)
        for l in CLIENT:
            a.send(l)
        tr = ["> " + l for l in CLIENT] + ["< " + l for l in a.read()]
        routing = [l.split()[3] for l in tr if l.startswith("< X ")][0]
        leave = {"disconnect": "1 D", "registered": "1 T", "refused": "-1 X old.example.org %s :NO go away" % routing}[how]
        a.send(leave)
        tr += ["> " + leave] + ["< " + l for l in a.read()]
        a.send("-1 ? stats")
        inuse = [l for l in a.read() if l.startswith("S iauth ")]
        a.reload(NEW)
        cfg = sorted(a.config())
        return tr, inuse, cfg
    finally:
        if a:
            a.close()

def main():
    if len(sys.argv) != 2:
        print(__doc__)
        return 2
    tree = sys.argv[1]
    b = None
    try:
        b = Daemon(tree, NEW)
        cfg_b = sorted(b.config())
    finally:
        if b:
            b.close()
    print("old file: " + OLD.strip())
    print("new file: " + NEW.strip())
    bad = 0
    for how in ("disconnect", "registered", "refused"):
        tr, inuse, cfg_a = history(tree, how)
        print("\nhistory (%s): start on old file," % how)
        for l in tr:
            print("    " + l)
        print("    requests left before the reload:", inuse)
        print("    rewrite file, SIGUSR1, -1 ? config")
        print("config report  reloaded:", cfg_a)
        print("config report  fresh   :", cfg_b)
        if cfg_a != cfg_b:
            bad += 1
    if bad:
        print("\nDEFECT: with no client left at all, the reloaded daemon still carries the removed service "
              "(expected the fresh daemon's table)")
        return 1
    print("\nno difference")
    return 0

if __name__ == "__main__":
    try:
        sys.exit(main())
    except Exception as e:
        print("harness trouble:", e)
        sys.exit(2)
