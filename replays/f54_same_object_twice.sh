#!/bin/sh
# Replay of ledger entry F54 (C20): one shared object named twice - `modules ( iauth, "./iauth" )` - was constructed and
# destroyed twice; the daemon aborted at exit (rc 134).  usage: f54_same_object_twice.sh [tree]   (exit 1 = defect shown)
tree=${1:-/repo}; d=$(mktemp -d /tmp/f54.XXXXXX)
printf 'core { library_path ( "%s/modules/.libs" ); modules ( iauth, "./iauth" ); };\niauth {}\n' "$tree" > $d/c.conf
echo "" | timeout 5 $tree/src/iauthd-c -n -f $d/c.conf > $d/out 2>&1; rc=$?
cat $d/out; echo "rc=$rc"; rm -rf $d
[ $rc -ge 128 ] && { echo "DEFECT: the daemon died of a signal"; exit 1; }
exit 0
