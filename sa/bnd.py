"""BND - bounded writes: every copy sink in scope must match one of the enumerated safe
idioms of this code base (DESIGN.md 3.3 BND).  A sink matching no idiom is reported as an
unrecognised copy; the list is closed."""
import re

from .facts import AnalysisBroken
from .model import sx, walk, is_var, is_field, const_of, root_var, vars_in, same
from . import rules

READ_SINKS = {'fwrite', 'write', 'send'}
SINKS = {'fwrite', 'strncpy', 'strlcpy', 'memcpy', 'memmove', 'strcpy', 'strcat', 'strncat', 'sprintf',
         'snprintf', 'vsnprintf', 'vsprintf', 'memset', 'gets'}
# named exclusion: the index arithmetic inside irc_pton needs relational facts (cpos <= ii <= 8)
EXCLUDED_FUNCS = {'irc_pton': 'index arithmetic over in6[] needs the relational invariant cpos <= ii <= 8 (see DESIGN.md 6, C13)'}


def reader_scope(P):
    """Functions of the protocol layer (modules/*.c) reachable from the line reader."""
    rd = P.need_fn('iauth_read')
    cl = P.closure([rd], may=True)
    return [f for f in cl.values() if f.unit.startswith('modules/')]


def protocol_scope(P):
    return [f for f in P.fns.values() if f.unit.startswith('modules/')]


def extent_of(fn, e):
    """(extent in elements, offset, element size, base expr) of a destination expression that
    denotes (part of) an array object with a known extent; None otherwise."""
    off = 0
    while isinstance(e, dict) and e.get('k') == 'bin' and e['op'] == '+' and const_of(e['r']) is not None:
        off += const_of(e['r'])
        e = e['l']
    if isinstance(e, dict) and e.get('k') == 'un' and e['op'] == '&' and e['e'].get('k') == 'idx' and const_of(e['e']['index']) is not None:
        off += const_of(e['e']['index'])
        e = e['e']['base']
    if isinstance(e, dict) and e.get('k') in ('var', 'mem') and e.get('arr') is not None:
        return e['arr'], off, e.get('elsz', 1), e
    return None


def _numeric(fn):
    from . import numeric
    c = fn.__dict__.get('_numeric_an')
    if c is None:
        c = fn.__dict__['_numeric_an'] = numeric.Analysis(fn)
    return c


def local_def_expr(fn, name):
    d = fn.single_def(name)
    return d[1] if d else None


def sym_index_ok(fn, site, idx_expr, lenv):
    """The index of a store (i, or a post-incremented i++) is below the length parameter `lenv` on every
    path: `i < lenv` was established and i has not been stepped since."""
    e = idx_expr
    inc_ev = None
    if e.get('k') == 'un' and e['op'] == '++' and e.get('postfix') and is_var(e['e']):
        iv, inc_ev = e['e']['name'], e.get('ev')
    elif is_var(e):
        iv = e['name']
    else:
        return False

    def on_edge(st, ed):
        r = rules.edge_rel(ed)
        if r and is_var(r[0], iv) and r[1] == '<' and is_var(r[2], lenv):
            return True
        if r and is_var(r[0], iv) and r[1] == '>=' and is_var(r[2], lenv):
            return False
        return st

    def on_event(st, t):
        ev = t.ev
        if ev['k'] == 'store' and is_var(ev.get('lhs')) and ev['lhs']['name'] in (iv, lenv):
            return False
        return st
    before, _, _, _ = fn.forward(False, on_event, on_edge)
    key = site.key
    if inc_ev is not None:
        for t in fn.sites():
            if t.ev.get('id') == inc_ev:
                key = t.key
    sts = before.get(key, set())
    return bool(sts) and sts <= {True}


def param_pair_ok(P, fn, dst, lenv):
    """Idiom 8: every caller passes (array, sizeof array) for the (dst, len) parameter pair."""
    if dst not in fn.params or lenv not in fn.params:
        return False, 'not a parameter pair'
    di, li = fn.params.index(dst), fn.params.index(lenv)
    sites = P.callers(fn, may=True)
    if not sites:
        return False, 'no callers'
    for s in sites:
        a = s.ev['args']
        if max(di, li) >= len(a):
            return False, 'short call at %s' % s.loc
        ex = extent_of(s.fn, a[di])
        n = const_of(a[li])
        # byte arrays are measured in bytes; arrays of wider elements by their element count
        limit = None if ex is None else ((ex[0] - ex[1]) if ex[2] != 1 else (ex[0] - ex[1]))
        if ex is None or n is None or n > limit:
            return False, 'caller at %s passes (%s, %s)' % (s.loc, sx(a[di]), sx(a[li]))
    return True, '%d caller(s) pass (array, sizeof array)' % len(sites)


def fmt_width(P, fn, fmt, args):
    """Upper bound of the length produced by a literal format, or None."""
    total, ai = 0, 0
    i = 0
    while i < len(fmt):
        c = fmt[i]
        if c != '%':
            total += 1
            i += 1
            continue
        m = re.match(r'%([-+ #0]*)(\d*)(?:\.(\d+))?(hh|h|l|ll|z)?([diuxXcs%])', fmt[i:])
        if not m:
            return None
        conv = m.group(5)
        if conv == '%':
            total += 1
        else:
            if ai >= len(args):
                return None
            a = args[ai]
            ai += 1
            w = None
            if conv in 'di':
                w = 20 if m.group(4) in ('l', 'll', 'z') else 11
            elif conv in 'uxX':
                w = 20 if m.group(4) in ('l', 'll', 'z') else 10
            elif conv == 'c':
                w = 1
            elif conv == 's':
                if a.get('k') in ('mem', 'var') and a.get('arr') is not None and a.get('elsz', 1) == 1:
                    w = a['arr'] - 1
                elif a.get('k') == 'str':
                    w = len(a['v'])
            if w is None:
                return None
            if m.group(2):
                w = max(w, int(m.group(2)))
            total += w
        i += len(m.group(0))
    return total


_depth = [0]


def offset_upper_bound(P, fn, site, offvar, extent):
    """Largest value the offset variable can have at `site` (inclusive), or None.
    Knows: constants, ++ under a test, `off += snprintf(<literal format>)`, and the
    literal-first-word bound of a sender that copies its format's first word."""
    consts = [0]
    for b in fn.blocks.values():
        c = (b.get('term') or {}).get('cond')
        for x in walk(c):
            if x.get('k') == 'bin' and is_var(x['l'], offvar) and const_of(x['r']) is not None:
                consts.append(const_of(x['r']))
    cap = max(consts) + 2
    INF = 10 ** 9
    # first-word refinement: the only ++ of offvar stores *fmt++ of a parameter whose callers all pass literals
    word_cap = None
    incs = [s for s in fn.stores() if is_var(s.ev.get('lhs'), offvar) and s.ev.get('op') == '++']
    if len(incs) == 1:
        inc = incs[0]
        user = [s for s in fn.stores() if s.ev.get('op') == '=' and any(x.get('ev') == inc.ev['id'] for x in walk(s.ev['lhs']))]
        if user:
            rhs = user[0].ev['rhs']
            fv = None
            for x in walk(rhs):
                if x.get('k') == 'un' and x['op'] == '*':
                    rv = root_var(x['e'])
                    if rv is not None and rv.get('sc') == 'param':
                        fv = rv['name']
            if fv is not None and fv in fn.params:
                fi = fn.params.index(fv)
                # loop must stop at NUL or blank of the format
                conds = [sx((b.get('term') or {}).get('cond')) for b in fn.blocks.values() if (b.get('term') or {}).get('cond')]
                stops = any(('*' + fv) in c and "'\\x00'" in c or ('*' + fv) in c and '!= 0' in c for c in conds)
                words = []
                for s in P.callers(fn, may=True):
                    lit = rules.fmt_literal(s.ev, fi)
                    if lit is None:
                        words = None
                        break
                    words.append(len(re.split(r'\s', lit)[0]))
                if words and stops:
                    word_cap = max(words)

    # a counter that only advances while `param[counter]` is not the terminator, the parameter being a literal at
    # every call site, never exceeds the longest literal (measuring the first word of a format before copying it)
    if word_cap is None and incs:
        lit_cap = None
        okall = True
        for inc in incs:
            gs = fn.guards(inc.bid)
            hit = None
            for g in gs:
                l, op, rr = g
                if isinstance(l, dict) and l.get('k') == 'idx' and is_var(l.get('index'), offvar) and is_var(l.get('base')) and l['base'].get('sc') == 'param' \
                        and op == '!=' and const_of(rr) == 0 and l['base']['name'] in fn.params:
                    hit = fn.params.index(l['base']['name'])
            if hit is None:
                okall = False
                break
            lens = []
            for c in P.callers(fn, may=True):
                lit = rules.fmt_literal(c.ev, hit)
                if lit is None:
                    okall = False
                    break
                lens.append(len(lit))
            if not okall or not lens:
                okall = False
                break
            lit_cap = max(lens) if lit_cap is None else max(lit_cap, max(lens))
        if okall and lit_cap is not None:
            word_cap = lit_cap

    def on_edge(ub, e):
        r = rules.edge_rel(e)
        if r:
            n = rules.upper_bound_from_rel(r, offvar)
            if n is not None and n - 1 < ub:
                return n - 1
        return ub

    def on_event(ub, s):
        ev = s.ev
        if ev['k'] == 'decl' and ev.get('var') == offvar:
            c = const_of(ev.get('init'))
            return c if c is not None else INF
        if ev['k'] == 'store' and is_var(ev.get('lhs'), offvar):
            if ev.get('op') == '=':
                c = const_of(ev.get('rhs'))
                if c is None and is_var(ev.get('rhs')) and ev['rhs']['name'] != offvar and _depth[0] < 3:
                    _depth[0] += 1
                    try:
                        o = offset_upper_bound(P, fn, s, ev['rhs']['name'], extent)
                    finally:
                        _depth[0] -= 1
                    return o if o is not None else INF
                return c if c is not None else INF
            if ev.get('op') == '++':
                if word_cap is not None:
                    return min(ub + 1, word_cap) if ub < INF else word_cap
                return ub + 1 if ub + 1 <= cap else INF
            if ev.get('op') == '+=':
                rhs = ev.get('rhs')
                if rhs and rhs.get('k') == 'callref' and rhs.get('callee') in ('snprintf',):
                    fmt = rhs['args'][2].get('v') if len(rhs['args']) > 2 and rhs['args'][2].get('k') == 'str' else None
                    w = fmt_width(P, fn, fmt, rhs['args'][3:]) if fmt is not None else None
                    if w is not None and ub < INF:
                        return ub + w
                return INF
            return INF
        return ub

    before, _, sin, bout = fn.forward(INF, on_event, on_edge)
    sts = before.get(site.key)
    if not sts:
        return None
    m = max(sts)
    return None if m >= INF else m


def nul_store_after(fn, site, base):
    """A constant-index NUL store into `base` within its extent post-dominates `site`."""
    def is_nul(s):
        ev = s.ev
        if ev['k'] != 'store' or ev.get('op') != '=' or const_of(ev.get('rhs')) != 0:
            return False
        lhs = ev['lhs']
        return (lhs.get('k') == 'idx' and same(lhs['base'], base) and const_of(lhs['index']) is not None
                and 0 <= const_of(lhs['index']) < base.get('arr', 0))
    return fn.path_avoiding(site, is_nul) is None


def classify_call(P, fn, s):
    """Returns (idiom, explanation) or (None, reason)."""
    ev = s.ev
    name = ev['callee']
    a = ev['args']
    if name == 'fwrite' and len(a) == 4:
        # reads size*nmemb bytes out of the buffer: the count must stay inside it
        ex = extent_of(fn, a[0])
        if ex is None:
            return '15 fwrite from a heap/unknown buffer', 'not a fixed-size object'
        sz, nm = const_of(a[1]), a[2]
        room = (ex[0] - ex[1]) * ex[2]
        if sz is not None and const_of(nm) is not None:
            return ('15 fwrite(buf, size, n) with size*n <= sizeof buf', '%d <= %d' % (sz * const_of(nm), room)) if sz * const_of(nm) <= room else (None, 'fwrite reads %d bytes from a %d-byte buffer' % (sz * const_of(nm), room))
        if sz == 1 and is_var(nm):
            ub = offset_upper_bound(P, fn, s, nm['name'], ex[0])
            if ub is not None and ub <= room:
                return '15 fwrite(buf, 1, n) with n <= sizeof buf', 'n<=%d size=%d' % (ub, room)
            return None, 'fwrite length %s is not bounded by the buffer size %d (bound found: %s): bytes beyond the buffer would be written out' % (nm['name'], room, ub)
        return None, 'unrecognised fwrite(%s, %s, %s)' % (sx(a[0]), sx(a[1]), sx(a[2]))
    if name in ('strncpy', 'strlcpy') and len(a) == 3:
        ex = extent_of(fn, a[0])
        n = const_of(a[2])
        if ex is None and isinstance(a[0], dict) and a[0].get('k') == 'bin' and a[0].get('op') == '+' and is_var(a[0]['r']) and extent_of(fn, a[0]['l']) is not None:
            # array + variable offset: take the offset's largest value from the numeric analysis
            from . import numeric
            an = _numeric(fn)
            lo, hi = an.range_of(a[0]['r'], an.at(s))
            if lo is not None and lo >= 0 and hi != numeric.INF and hi < extent_of(fn, a[0]['l'])[0]:
                b0 = extent_of(fn, a[0]['l'])
                ex = (b0[0], b0[1] + int(hi), b0[2], b0[3])
        if ex is None:
            return None, 'destination %s has no known extent' % sx(a[0])
        if n is None:
            return None, 'length %s is not a constant' % sx(a[2])
        ext, off, elsz, base = ex
        room = ext - off
        if name == 'strlcpy':
            return ('3 strlcpy(dst, src, n<=extent)', 'n=%d extent=%d' % (n, room)) if n <= room else (None, 'n=%d exceeds extent %d' % (n, room))
        if base.get('k') == 'mem':
            if n <= room - 1:
                return '1 strncpy(field, src, n<=extent-1) into zero-allocated record', 'n=%d extent=%d' % (n, room)
            return None, 'strncpy n=%d leaves no terminator in extent %d' % (n, room)
        if n <= room and nul_store_after(fn, s, base):
            return '2 strncpy(local+k, src, n<=extent-k) then constant-index NUL', 'n=%d room=%d' % (n, room)
        return None, 'strncpy into local: n=%d room=%d, NUL store %s' % (n, room, 'missing' if n <= room else 'irrelevant')
    if name in ('memcpy', 'memmove', 'memset') and len(a) == 3:
        n = const_of(a[2])
        d = a[0]
        if d.get('k') == 'un' and d['op'] == '&' and d.get('size') is not None and n is not None:
            return ('5 mem*(&obj, ., n<=sizeof obj)', 'n=%d size=%d' % (n, d['size'])) if n <= d['size'] else (None, 'n=%d exceeds object size %d' % (n, d['size']))
        if is_var(d) and d.get('psz') is not None and n is not None:
            return ('5 mem*(ptr, ., n<=sizeof *ptr)', 'n=%d size=%d' % (n, d['psz'])) if n <= d['psz'] else (None, 'n=%d exceeds pointee size %d' % (n, d['psz']))
        ex = extent_of(fn, d)
        if ex is not None and n is not None:
            room = (ex[0] - ex[1]) * ex[2]
            return ('5 mem*(array, ., n<=sizeof array)', 'n=%d size=%d' % (n, room)) if n <= room else (None, 'n=%d exceeds %d' % (n, room))
        # idiom 18 (fill): memset(p, c, (lim + J) - p) with p a pointer cursor that never passes lim, K + J <= extent
        if name == 'memset' and is_var(d) and isinstance(a[2], dict) and a[2].get('k') == 'bin' and a[2].get('op') == '-' and is_var(a[2].get('r'), d['name']):
            pc = _ptr_cursor(fn, d['name'])
            if pc is not None:
                top = a[2]['l']
                J = 0
                if isinstance(top, dict) and top.get('k') == 'bin' and top.get('op') == '+' and isinstance(const_of(top.get('r')), int):
                    J, top = const_of(top['r']), top['l']
                if is_var(top, pc[3]) and J >= 0 and pc[2] + J <= pc[1]:
                    return '18 memset(p, c, (array + K + J) - p) with p a cursor that never passes array + K', 'K=%d J=%d extent=%d' % (pc[2], J, pc[1])
        # idiom 17: mem*(array + off, ., sizeof array - off): fill / copy "to the end of the array"
        if isinstance(d, dict) and d.get('k') == 'bin' and d.get('op') == '+' and is_var(d.get('r')) and extent_of(fn, d['l']) is not None \
                and isinstance(a[2], dict) and a[2].get('k') == 'bin' and a[2].get('op') == '-' and is_var(a[2].get('r'), d['r']['name']) and const_of(a[2]['l']) is not None:
            b0 = extent_of(fn, d['l'])
            total = (b0[0] - b0[1]) * b0[2]
            from . import numeric
            an = _numeric(fn)
            lo, hi = an.range_of(d['r'], an.at(s))
            if const_of(a[2]['l']) <= total and b0[2] == 1 and lo is not None and lo >= 0 and hi != numeric.INF and hi <= const_of(a[2]['l']):
                return '17 mem*(array + off, ., sizeof array - off) with 0 <= off <= sizeof array', 'off in [%s,%s] size=%d' % (lo, hi, total)
            return None, '%s(%s + %s, ., %s): offset range [%s, %s] is not inside the array of %d bytes' % (name, sx(d['l']), sx(d['r']), sx(a[2]), lo, hi, total)
        if ex is not None and is_var(a[2]):
            room = (ex[0] - ex[1]) * ex[2]
            ub = offset_upper_bound(P, fn, s, a[2]['name'], ex[0])
            if ub is not None and ub <= room:
                # bytes copied without a terminator: the text must be terminated behind them on every path (a NUL store
                # into the array or a formatted write that continues it), otherwise an older, longer content shows through
                def terminates(t):
                    ev2 = t.ev
                    if ev2['k'] == 'call' and ev2.get('callee') in ('snprintf', 'vsnprintf') and ev2['args']:
                        rv2 = root_var(ev2['args'][0])
                        return rv2 is not None and root_var(d) is not None and rv2['name'] == root_var(d)['name']
                    if ev2['k'] == 'store' and ev2.get('op') == '=' and const_of(ev2.get('rhs')) == 0 and (ev2['lhs'] or {}).get('k') == 'idx' and same(ev2['lhs']['base'], d):
                        return True
                    if ev2['k'] == 'call' and ev2.get('callee') == 'memset' and len(ev2['args']) == 3 and const_of(ev2['args'][1]) == 0:
                        rv3 = root_var(ev2['args'][0])
                        return rv3 is not None and root_var(d) is not None and rv3['name'] == root_var(d)['name']
                    return False
                if name == 'memset' or d.get('elsz', 1) != 1 or fn.path_avoiding(s, terminates) is None:
                    return '16 mem*(array, ., n) with n bounded by the array size, text terminated afterwards', 'n<=%d size=%d' % (ub, room)
                return None, '%s(%s, ., %s) is bounded but nothing terminates the copied text: stale bytes of a longer earlier value remain' % (name, sx(d), sx(a[2]))
        # idiom 4: memcpy(dst, src_array, p - src_array), p = strchr(src_array, c) non-null here
        a2x = a[2]
        if is_var(a2x):
            sd_ = fn.single_def(a2x['name'])
            if sd_ and isinstance(sd_[1], dict):
                a2x = sd_[1]          # one level: `len = p - src; memcpy(dst, src, len)`
        if ex is not None and isinstance(a2x, dict) and a2x.get('k') == 'bin' and a2x['op'] == '-' and is_var(a2x['l']):
            p = a2x['l']['name']
            src = a2x['r']
            sex = extent_of(fn, src)
            dfn = local_def_expr(fn, p)
            if dfn is None:
                # variables assigned several times: accept when the reaching store in the dominating chain is strchr
                defs = [t for t in fn.local_defs(p) if (t.ev.get('rhs') or t.ev.get('init') or {}).get('callee') == 'strchr']
                dfn = (defs[0].ev.get('rhs') or defs[0].ev.get('init')) if defs else None
            nonnull = any(is_var(r[0], p) and r[1] == '!=' and const_of(r[2]) == 0 for r in fn.guards(s.bid))
            if (dfn is not None and dfn.get('callee') == 'strchr' and same(dfn['args'][0], src) and same(a[1], src)
                    and sex is not None and nonnull and ex[0] - ex[1] >= sex[0]):
                return '4 memcpy(dst, src, strchr(src,c)-src), extent(dst)>=extent(src)', 'dst=%d src=%d' % (ex[0], sex[0])
        # idiom 4b: memcpy(dst, src_array, n) with n = strcspn(src_array, ..) / strlen(src_array) / strnlen(..): the length
        # measured inside a terminated array of extent E is at most E - 1
        a2y = a[2]
        if is_var(a2y):
            sd_ = fn.single_def(a2y['name'])
            if sd_ and isinstance(sd_[1], dict):
                a2y = sd_[1]
        while isinstance(a2y, dict) and a2y.get('k') == 'cast':
            a2y = a2y.get('e')
        if ex is not None and isinstance(a2y, dict) and a2y.get('k') == 'callref' and a2y.get('callee') in ('strcspn', 'strlen', 'strnlen', 'strspn') and a2y.get('args') and same(a2y['args'][0], a[1]):
            sex = extent_of(fn, a[1])
            if sex is not None and ex[0] - ex[1] >= sex[0]:
                return '4b memcpy(dst, src, %s(src..)), extent(dst)>=extent(src)' % a2y['callee'], 'dst=%d src=%d' % (ex[0], sex[0])
        return None, 'unrecognised %s(%s, %s, %s)' % (name, sx(a[0]), sx(a[1]), sx(a[2]))
    if name in ('snprintf', 'vsnprintf') and len(a) >= 3:
        d, n = fn.expand_local(a[0], s), fn.expand_local(a[1], s)
        if const_of(n) is None and n.get('k') == 'bin' and n['op'] == '-' and const_of(n['l']) is None:
            pass
        ex = extent_of(fn, d)
        if ex is not None and const_of(n) is not None:
            room = (ex[0] - ex[1]) * ex[2]
            return ('6 snprintf(buf, sizeof buf, ...)', 'n=%d extent=%d' % (const_of(n), room)) if const_of(n) <= room else (None, 'size %d exceeds extent %d' % (const_of(n), room))
        if is_var(d) and is_var(n):
            ok, why = param_pair_ok(P, fn, d['name'], n['name'])
            return ('8 (dst, dst_len) parameter pair', why) if ok else (None, '(dst,len) pair: ' + why)
        # idiom 7: snprintf(buf + off, sizeof buf - off, ...)
        if d.get('k') == 'bin' and d['op'] == '+' and is_var(d['r']) and n.get('k') == 'bin' and n['op'] == '-' \
                and is_var(n['r'], d['r']['name']):
            bex = extent_of(fn, d['l'])
            if bex is not None and const_of(n['l']) is not None and const_of(n['l']) <= bex[0] * bex[2]:
                ub = offset_upper_bound(P, fn, s, d['r']['name'], bex[0])
                if ub is not None and ub <= const_of(n['l']):
                    return '7 snprintf(buf+off, sizeof buf-off, ...), off<=sizeof buf', 'off<=%d size=%d' % (ub, const_of(n['l']))
                return None, 'offset %s not bounded by %d (bound found: %s): the size argument can wrap' % (d['r']['name'], const_of(n['l']), ub)
        return None, 'unrecognised %s(%s, %s, ...)' % (name, sx(d), sx(n))
    if name == 'strcpy' and len(a) == 2:
        d, src = a
        if src.get('k') == 'str':
            need = len(src['v']) + 1
            ex = extent_of(fn, d)
            if ex is not None and need <= ex[0] - ex[1]:
                return '9 strcpy(array, "lit") fits', 'need=%d extent=%d' % (need, ex[0] - ex[1])
            if is_var(d):
                # size parameter established > literal on all paths
                for r in fn.guards(s.bid):
                    for p in fn.params:
                        k = rules.lower_bound_from_rel(r, p)
                        if k is not None and k + 1 >= need:
                            ok, why = param_pair_ok(P, fn, d['name'], p)
                            if ok:
                                return '9 strcpy(dst, "lit") under size test', '%s > %d, need %d' % (p, k, need)
            return None, 'strcpy of %d bytes into %s without an established bound' % (need, sx(d))
        # idiom 10: tail of a block allocated as sizeof(*p) + strlen(s)
        if d.get('k') == 'mem' and d.get('arr') == 1 and is_var(d['base']) and is_var(src):
            dfn = None
            for t in fn.local_defs(d['base']['name']):
                v = t.ev.get('rhs') or t.ev.get('init')
                if v and v.get('k') == 'callref' and v.get('callee') in ('xmalloc', 'malloc', 'calloc') and fn.before(t, s):
                    dfn = v
            if dfn is not None:
                sz = dfn['args'][0]
                if sz.get('k') == 'bin' and sz['op'] == '+' and const_of(sz['l']) is not None:
                    r = sz['r']
                    if r.get('k') == 'callref' and r.get('callee') == 'strlen' and is_var(r['args'][0], src['name']):
                        return '10 strcpy(tail[1], s) into sizeof(*p)+strlen(s) block', sx(sz)
        return None, 'unrecognised strcpy(%s, %s)' % (sx(d), sx(src))
    return None, 'unbounded sink %s' % name


def _ptr_cursor(fn, pv):
    """pointer cursor idiom 18: local `p` initialised to an array A (extent E), local `lim` = A + K (K <= E), p moved
    only by ++ at sites dominated by p < lim.  Returns (A-expr, E, K, lim name) or None."""
    init = None
    for t in fn.sites():
        ev = t.ev
        if ev['k'] == 'decl' and ev.get('var') == pv and ev.get('init') is not None:
            init = ev['init']
        if ev['k'] == 'store' and is_var(ev.get('lhs'), pv) and ev.get('op') == '=':
            if init is not None:
                return None
            init = ev.get('rhs')
    if not isinstance(init, dict):
        return None
    ex = extent_of(fn, init)
    if ex is None or ex[1] != 0 or ex[2] != 1:
        return None
    lims = {}
    for b in fn.blocks:
        for e in fn.out[b]:
            r = e.rel()
            if r and is_var(r[0], pv) and r[1] == '<' and is_var(r[2]) and fn.single_def(r[2]['name']):
                d = fn.single_def(r[2]['name'])[1]
                if isinstance(d, dict) and d.get('k') == 'bin' and d.get('op') == '+' and same(d.get('l'), init) and isinstance(const_of(d.get('r')), int):
                    lims[r[2]['name']] = const_of(d['r'])
    if len(lims) != 1:
        return None
    lim, K = list(lims.items())[0]
    if K > ex[0]:
        return None
    # every movement of p is a ++ under p < lim
    for t in fn.sites():
        moved = (t.ev['k'] == 'store' and is_var(t.ev.get('lhs'), pv) and t.ev.get('op') not in ('=',)) or \
            any(x.get('k') == 'un' and x.get('op') in ('++', '--') and is_var(x.get('e'), pv) for ex2 in rules.event_exprs(t.ev) for x in walk(ex2) if t.ev['k'] != 'store' or not is_var(t.ev.get('lhs'), pv))
        if not moved:
            continue
        if t.ev['k'] == 'store' and is_var(t.ev.get('lhs'), pv) and t.ev.get('op') != '++':
            return None
        if any(x.get('k') == 'un' and x.get('op') == '--' and is_var(x.get('e'), pv) for ex2 in rules.event_exprs(t.ev) for x in walk(ex2)):
            return None
        if not any(is_var(g[0], pv) and g[1] == '<' and is_var(g[2], lim) for g in fn.guards(t.bid)):
            return None
    return init, ex[0], K, lim


def classify_store(P, fn, s, cache):
    """Indexed stores: (idiom, explanation) / (None, reason) / ('skip', ..) when not a sink."""
    ev = s.ev
    lhs = ev.get('lhs')
    if ev['k'] != 'store' or lhs is None:
        return 'skip', ''
    if lhs.get('k') == 'un' and lhs['op'] == '*':
        inner = lhs['e']
        if is_var(inner):
            return 'skip', ''          # scalar out-parameter / pointer
        # idiom 14: in-place terminator `*p++ = 0` right after the test `*p != 0`: the byte
        # replaced is a non-NUL byte of the string, hence inside it
        if inner.get('k') == 'un' and inner['op'] == '++' and inner.get('postfix') and is_var(inner['e']) \
                and const_of(ev.get('rhs')) == 0:
            p = inner['e']['name']
            for e in fn.inn[s.bid]:
                pass
            ins = fn.inn[s.bid]
            ok = bool(ins)
            for e in ins:
                r = rules.edge_rel(e)
                if not (r and r[0].get('k') == 'un' and r[0]['op'] == '*' and is_var(r[0]['e'], p) and r[1] == '!=' and const_of(r[2]) == 0):
                    ok = False
            early = [t for t in fn.block_sites(s.bid)[:s.idx] if is_var(t.ev.get('lhs'), p) and t.ev.get('id') != inner.get('ev')]
            if ok and not early:
                return '14 in-place terminator *p++ = 0 after the test *p != 0', 'p=%s' % p
        # idiom 18: *p++ = x with p a pointer cursor over an array, under p < array + K
        pe = inner['e'] if inner.get('k') == 'un' and inner.get('op') == '++' and is_var(inner.get('e')) else None
        if pe is not None:
            pc = _ptr_cursor(fn, pe['name'])
            if pc is not None and any(is_var(g[0], pe['name']) and g[1] == '<' and is_var(g[2], pc[3]) for g in fn.guards(s.bid)):
                return '18 *p++ = x with p a cursor over an array, under p < array + K', 'K=%d extent=%d' % (pc[2], pc[1])
        return None, 'store through computed pointer %s' % sx(lhs)
    if lhs.get('k') != 'idx':
        return 'skip', ''
    base, idx = lhs['base'], lhs['index']
    if base.get('k') == 'mem' and base['field'] == 'bits':
        return 'skip', ''              # bitset pages (constant-extent macros)
    ext = base.get('arr')
    c = const_of(idx)
    if ext is not None and c is not None:
        return ('0 constant index within extent', '%d < %d' % (c, ext)) if 0 <= c < ext else (None, 'constant index %d outside extent %d' % (c, ext))
    if ext is not None:
        m = rules.max_index_at_store(fn, s, idx, cache)
        if m is not None and m <= ext:
            return '11 store a[i] under i < N <= extent', 'index < %d, extent %d' % (m, ext)
        # idiom 4 companion: dst[p - src] = 0 (or dst[len] = 0 with `len = p - src`)
        if is_var(idx):
            sd_ = fn.single_def(idx['name'])
            if sd_ and isinstance(sd_[1], dict) and sd_[1].get('k') == 'bin' and sd_[1].get('op') == '-':
                idx = sd_[1]
        if idx.get('k') == 'bin' and idx['op'] == '-' and is_var(idx['l']):
            sex = extent_of(fn, idx['r'])
            p = idx['l']['name']
            defs = [t for t in fn.local_defs(p) if (t.ev.get('rhs') or t.ev.get('init') or {}).get('callee') == 'strchr'
                    and same((t.ev.get('rhs') or t.ev.get('init'))['args'][0], idx['r'])]
            nonnull = any(is_var(r[0], p) and r[1] == '!=' and const_of(r[2]) == 0 for r in fn.guards(s.bid))
            if sex is not None and defs and nonnull and sex[0] <= ext:
                return '4 dst[strchr(src,c)-src] = 0, extent(dst)>=extent(src)', 'dst=%d src=%d' % (ext, sex[0])
        # idiom 4b companion: dst[n] = 0 with n measured inside a terminated array no larger than dst
        idy = s.ev['lhs'].get('index') if isinstance(s.ev.get('lhs'), dict) else None
        if is_var(idy):
            sd_ = fn.single_def(idy['name'])
            v_ = sd_[1] if sd_ and isinstance(sd_[1], dict) else None
            while isinstance(v_, dict) and v_.get('k') == 'cast':
                v_ = v_.get('e')
            if isinstance(v_, dict) and v_.get('k') == 'callref' and v_.get('callee') in ('strcspn', 'strlen', 'strnlen', 'strspn') and v_.get('args'):
                sex = extent_of(fn, v_['args'][0])
                if sex is not None and sex[0] <= ext:
                    return '4b dst[%s(src..)] = 0, extent(dst)>=extent(src)' % v_['callee'], 'dst=%d src=%d' % (ext, sex[0])
        return None, 'index %s of %s not bounded by its extent %d (bound found: %s)' % (sx(idx), sx(base), ext, m)
    # pointer base: a (dst, len) parameter pair
    if is_var(base) and base.get('sc') == 'param':
        lens = [p for p in fn.params if p != base['name']]
        # clamp idiom 12: dst[i < len ? i : len - 1]
        if idx.get('k') == 'cond':
            c0 = idx['c']
            if c0.get('k') == 'bin' and c0['op'] == '<' and is_var(c0['r']) and same(idx['t'], c0['l']):
                lv = c0['r']['name']
                f = idx['f']
                if f.get('k') == 'bin' and f['op'] == '-' and is_var(f['l'], lv) and const_of(f['r']) == 1:
                    ok, why = param_pair_ok(P, fn, base['name'], lv)
                    if ok:
                        return '12 store at the clamp i < n ? i : n - 1', why
        for lv in lens:
            if sym_index_ok(fn, s, idx, lv):
                ok, why = param_pair_ok(P, fn, base['name'], lv)
                if ok:
                    return '11 store dst[i] / dst[i++] under i < dst_len (parameter pair)', why
        if is_var(idx):
            for lv in lens:
                g = [r for r in fn.guards(s.bid) if is_var(r[0], idx['name']) and r[1] == '<' and is_var(r[2], lv)]
                if g:
                    # no modification of the index between the test and the store within the block
                    mod = [t for t in fn.block_sites(s.bid)[:s.idx] if is_var(t.ev.get('lhs'), idx['name'])]
                    ok, why = param_pair_ok(P, fn, base['name'], lv)
                    if ok and not mod:
                        return '11 store dst[i] under i < dst_len (parameter pair)', why
        return None, 'store %s through a pointer parameter without an established bound' % sx(lhs)
    if is_var(base) and base.get('sc') in ('local',) and base.get('t', '').endswith('*'):
        return None, 'store %s through a local pointer' % sx(lhs)
    return 'skip', ''


def check_scope(P, R, rule, fns, floor=20):
    """Every sink in the given functions matches a safe idiom."""
    n = 0
    used = {}
    for fn in sorted(fns, key=lambda f: f.key):
        cache = {}
        if fn.name in EXCLUDED_FUNCS:
            # only the library sinks with constant sizes are decided inside the exclusion
            for s in fn.calls():
                if s.ev.get('callee') in SINKS:
                    idi, why = classify_call(P, fn, s)
                    if idi:
                        n += 1
                        R.ob(rule, True, s, '%s(%s): idiom %s [%s]' % (s.ev['callee'], sx(s.ev['args'][0]), idi, why), key='sink:%s:%s' % (s.ev['callee'], sx(s.ev['args'][0])))
            R.exception(rule, 'indexed stores in %s' % fn.name, EXCLUDED_FUNCS[fn.name], True)
            continue
        for s in fn.sites():
            ev = s.ev
            if ev['k'] == 'call' and ev.get('callee') in SINKS:
                idi, why = classify_call(P, fn, s)
                n += 1
                used[idi] = used.get(idi, 0) + 1
                R.ob(rule, idi is not None, s,
                     ('%s(%s, ...): idiom %s [%s]' % (ev['callee'], sx(ev['args'][0]), idi, why)) if idi
                     else ('%s: unrecognised or unbounded copy - %s' % (ev['callee'], why)),
                     key='sink:%s:%s' % (ev['callee'], sx(ev['args'][0]) if ev['args'] else ''))
            elif ev['k'] == 'store':
                idi, why = classify_store(P, fn, s, cache)
                if idi == 'skip':
                    continue
                n += 1
                used[idi] = used.get(idi, 0) + 1
                R.ob(rule, idi is not None, s,
                     ('store %s: idiom %s [%s]' % (sx(ev['lhs']), idi, why)) if idi else ('store %s: %s' % (sx(ev['lhs']), why)),
                     key='store:%s' % sx(ev['lhs']), nontrivial=not (idi or '').startswith('0 '))
    R.floor(rule, floor, 'copy sinks in scope')
    R.note('%s idioms used: %s' % (rule, {k: v for k, v in sorted(used.items(), key=lambda kv: str(kv[0]))}))
    return n


def fallback_strlcpy(P, R, rule):
    """Every bounded copy in the daemon that is written as strlcpy(dst, src, sizeof dst) is only as bounded as the
    strlcpy it reaches - and where libc has none (HAVE_STRLCPY undefined), that is the program's own.  Its writes are
    checked against its own contract: writing L for the size it was called with, every memcpy writes at most L bytes
    and the terminator is stored at an index below L.  Symbolic bounds: the size parameter is followed through its
    decrements, the source length through the comparisons on the way to each write."""
    from .model import sx as _sx, const_of as _c, is_var as _iv, walk as _walk
    from . import rules as _rules
    fs = [f for f in P.fns.values() if f.name == 'strlcpy' and not f.unit.startswith('tests/')]
    if not fs:
        R.ob(rule, True, P.need_fn('main'), 'the program defines no strlcpy of its own (libc\'s is used)', key='strlcpy:none', nontrivial=False)
        R.floor(rule, 1)
        return
    n = 0
    for f in fs:
        if len(f.params) < 3:
            raise AnalysisBroken('the program\'s strlcpy does not take (dst, src, size)')
        dst, src, lenp = f.params[:3]
        srclen = {t.ev['lhs']['name'] if t.ev['k'] == 'store' else t.ev.get('var') for t in f.sites()
                  if t.ev['k'] in ('store', 'decl') and isinstance((t.ev.get('rhs') if t.ev['k'] == 'store' else t.ev.get('init')), dict)
                  and (t.ev.get('rhs') if t.ev['k'] == 'store' else t.ev.get('init')).get('k') == 'callref' and (t.ev.get('rhs') if t.ev['k'] == 'store' else t.ev.get('init')).get('callee') == 'strlen'}
        srclen.discard(None)

        # state: (delta of the size parameter, upper bound of the source length as an offset from L or None)
        def on_event(st, t):
            d, ub = st
            ev = t.ev
            if ev['k'] == 'store' and _iv(ev.get('lhs'), lenp):
                if ev.get('op') == '--':
                    return (d - 1, ub)
                if ev.get('op') == '++':
                    return (d + 1, ub)
                if ev.get('op') == '-=' and isinstance(_c(ev.get('rhs')), int):
                    return (d - _c(ev['rhs']), ub)
                return (None, ub)
            return st

        def on_edge(st, e):
            d, ub = st
            r = _rules.edge_rel(e)
            if not r or d is None:
                return st
            def pre(e):
                # `--len` inside the condition: the step has been applied (its store event precedes the branch), the value
                # is the variable's
                if isinstance(e, dict) and e.get('k') == 'un' and e.get('op') in ('--', '++') and not e.get('postfix') and _iv(e.get('e')):
                    return e['e']
                return e
            a, b = _rules.linform(pre(r[0])), _rules.linform(pre(r[2]))
            if a is None or b is None:
                return st
            # in_len (op) len + k
            for x, y, op in ((a, b, r[1]), (b, a, {'<': '>', '<=': '>=', '>': '<', '>=': '<=', '==': '==', '!=': '!='}[r[1]])):
                if len(x[0]) == 1 and list(x[0].values()) == [1] and list(x[0])[0] in srclen and set(y[0]) <= {lenp} and y[0].get(lenp, 0) in (0, 1):
                    k = y[1] - x[1]
                    base = d if y[0].get(lenp) else None
                    if base is None:
                        continue
                    if op == '<':
                        nb = base + k - 1
                    elif op in ('<=', '=='):
                        nb = base + k
                    else:
                        continue
                    return (d, nb if ub is None else min(ub, nb))
            return st
        before, _, _, _ = f.forward((0, None), on_event, on_edge)

        from .model import rel as _rel

        def bound(e, st, ubs=None, depth=0):
            """upper bound of e as an offset from L (the size the function was called with), or None.  Looks through
            locals with one definition and through `a < b ? a : b` (each arm judged under the condition that selects it)."""
            d, ub0 = st
            if ubs is None:
                ubs = {v: ub0 for v in srclen} if ub0 is not None else {}
            while isinstance(e, dict) and e.get('k') in ('cast', 'paren'):
                e = e.get('e')
            if not isinstance(e, dict) or d is None or depth > 6:
                return None
            if e.get('k') == 'cond':
                def refine(r_):
                    u2 = dict(ubs)
                    if r_ and _iv(r_[0]) and r_[1] in ('<', '<='):
                        b_ = bound(r_[2], st, ubs, depth + 1)
                        if isinstance(b_, int):
                            nb_ = b_ - 1 if r_[1] == '<' else b_
                            u2[r_[0]['name']] = min(u2.get(r_[0]['name'], nb_), nb_)
                    if r_ and _iv(r_[2]) and r_[1] in ('>', '>='):
                        b_ = bound(r_[0], st, ubs, depth + 1)
                        if isinstance(b_, int):
                            nb_ = b_ - 1 if r_[1] == '>' else b_
                            u2[r_[2]['name']] = min(u2.get(r_[2]['name'], nb_), nb_)
                    return u2
                bt = bound(e.get('t'), st, refine(_rel(e.get('c'), True)), depth + 1)
                bf = bound(e.get('f'), st, refine(_rel(e.get('c'), False)), depth + 1)
                if isinstance(bt, int) and isinstance(bf, int):
                    return max(bt, bf)
                return None
            lf = _rules.linform(e)
            if lf is None:
                return None
            tot = lf[1]
            rel_terms = 0
            for k_, v in lf[0].items():
                if v != 1:
                    return None
                if k_ == lenp:
                    tot += d
                    rel_terms += 1
                elif k_ in ubs:
                    tot += ubs[k_]
                    rel_terms += 1
                else:
                    sd = f.single_def(k_) if k_ not in f.params else None
                    if not (sd and isinstance(sd[1], dict)):
                        return None
                    b_ = bound(sd[1], st, ubs, depth + 1)
                    if not isinstance(b_, int):
                        return None
                    tot += b_
                    rel_terms += 1
            if rel_terms != 1:
                return None if rel_terms else ('const', lf[1])
            return tot
        for t in f.sites():
            if t.ev['k'] == 'call' and t.ev.get('callee') in ('memcpy', 'memmove', 'strncpy') and t.ev['args'] and _iv(t.ev['args'][0], dst):
                for st in before.get(t.key, set()):
                    b = bound(t.ev['args'][2], st)
                    n += 1
                    R.ob(rule, isinstance(b, int) and b <= 0, t, 'strlcpy copies at most the size it was given: %s(%s) writes at most L%+d bytes' % (t.ev['callee'], _sx(t.ev['args'][2]), b if isinstance(b, int) else 0) if isinstance(b, int)
                         else 'strlcpy copies at most the size it was given: the length %s of its %s is not bounded in terms of that size' % (_sx(t.ev['args'][2]), t.ev['callee']), key='strlcpy:copy')
            if t.ev['k'] == 'store' and (t.ev.get('lhs') or {}).get('k') == 'idx' and _iv(t.ev['lhs'].get('base'), dst):
                for st in before.get(t.key, set()):
                    b = bound(t.ev['lhs']['index'], st)
                    n += 1
                    R.ob(rule, isinstance(b, int) and b <= -1, t, 'strlcpy terminates inside the size it was given: the terminator goes to index %s' % ('L%+d' % b if isinstance(b, int) else _sx(t.ev['lhs']['index'])), key='strlcpy:terminator')
    R.floor(rule, 2, 'writes of the program\'s own strlcpy')
