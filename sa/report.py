"""Obligation bookkeeping, known findings, verdict lines and evidence files."""
import json
import os
import time

HERE = os.path.dirname(os.path.abspath(__file__))
VERIF = os.path.dirname(HERE)
KNOWN = os.path.join(VERIF, 'known_findings.jsonl')


class Report(object):
    """Collects rule instances (obligations) for one property run."""

    def __init__(self, pid, tier, prog):
        self.pid, self.tier, self.prog = pid, tier, prog
        self.obligations = []       # dicts: rule, site, what, ok, nontrivial, detail
        self.counts = {}            # rule -> instances seen
        self.floors = {}            # rule -> minimum instances
        self.exceptions_used = []
        self.notes = []
        self.broken = []            # analysis-broken messages (exit 2)
        self.t0 = time.time()

    # ---- recording ------------------------------------------------------------------
    def ob(self, rule, ok, site, what, key=None, detail=None, nontrivial=True):
        """Record one rule instance.  `key` identifies the construct for known findings:
        (rule, function, construct) - never a line number."""
        fn = None
        loc = None
        if hasattr(site, 'fn'):
            fn, loc = site.fn.name, site.loc
        elif hasattr(site, 'name') and hasattr(site, 'unit'):
            fn, loc = site.name, site.loc
        elif isinstance(site, str):
            loc = site
        o = {'rule': rule, 'ok': bool(ok), 'function': fn, 'loc': loc, 'what': what,
             'key': key or what, 'nontrivial': bool(nontrivial)}
        if detail:
            o['detail'] = detail
        self.obligations.append(o)
        self.counts[rule] = self.counts.get(rule, 0) + 1
        return bool(ok)

    def floor(self, rule, n, why=''):
        self.floors[rule] = (n, why)
        self.counts.setdefault(rule, 0)

    def broke(self, msg):
        self.broken.append(msg)

    def exception(self, rule, what, reason, premises_ok):
        self.exceptions_used.append({'rule': rule, 'what': what, 'reason': reason,
                                     'premises_hold': bool(premises_ok)})

    def note(self, msg):
        self.notes.append(msg)

    # ---- verdict ----------------------------------------------------------------------
    def known_findings(self):
        out = []
        if os.path.exists(KNOWN):
            for line in open(KNOWN):
                line = line.strip()
                if not line or line.startswith('#'):
                    continue
                out.append(json.loads(line))
        return out

    def finish(self, explanation, assumptions, extra=None, write_evidence=True, evidence_dir=None):
        """Prints verdict lines, writes evidence, returns the exit status."""
        for rule, (n, why) in self.floors.items():
            if self.counts.get(rule, 0) < n:
                self.broken.append('rule %s matched %d instance(s), floor is %d%s - the construct it '
                                   'is anchored in has vanished or changed shape'
                                   % (rule, self.counts.get(rule, 0), n, (' (' + why + ')') if why else ''))
        known = [k for k in self.known_findings()
                 if k.get('status') == 'known' and k.get('property') == self.pid]
        viol, kf = [], []
        for o in self.obligations:
            if o['ok']:
                continue
            hit = None
            for k in known:
                if k['rule'] == o['rule'] and k.get('function') == o['function'] and k.get('construct') == o['key']:
                    hit = k
                    break
            (kf if hit else viol).append((o, hit))
        status = 0
        evidence_dir = evidence_dir or os.path.join(VERIF, 'evidence')
        os.makedirs(os.path.join(evidence_dir, 'replay'), exist_ok=True)
        for o, k in kf:
            print('KNOWN-FINDING: property=%s %s %s %s: %s' % (self.pid, o['rule'], o['function'], o['loc'], k.get('what', o['what'])))
        replay = None
        for m in self.broken:
            print('ANALYSIS-BROKEN property=%s %s' % (self.pid, m))
        if self.broken and not viol:
            status = 2
        elif viol:
            status = 1
            replay = os.path.join(evidence_dir, 'replay', '%s.json' % self.pid)
            with open(replay, 'w') as f:
                json.dump({'property': self.pid, 'tier': self.tier,
                           'violations': [o for o, _ in viol]}, f, indent=1)
            for o, _ in viol:
                print('  violated %s in %s at %s: %s%s' % (o['rule'], o['function'], o['loc'], o['what'],
                                                           ('\n      ' + str(o['detail'])) if o.get('detail') else ''))
            print('VIOLATION property=%s replay=%s' % (self.pid, replay))
        n_ob = len(self.obligations)
        n_ok = sum(1 for o in self.obligations if o['ok'])
        distinct = len({(o['rule'], o['function'], o['key']) for o in self.obligations if o['nontrivial']})
        samples = []
        seen_rules = set()
        for o in self.obligations:
            if o['rule'] in seen_rules and len(samples) >= 12:
                continue
            if o['rule'] not in seen_rules or len(samples) < 12:
                seen_rules.add(o['rule'])
                samples.append({k: o[k] for k in ('rule', 'function', 'loc', 'what', 'ok') if o.get(k) is not None})
        cov = {
            'explanation': explanation,
            'obligations': n_ob, 'discharged': n_ok,
            'evaluations': n_ob, 'distinct_nontrivial': distinct,
            'rule': 'one evaluation per rule instance (rule x function x construct) found in the current '
                    'source; non-trivial = decided by a CFG, dataflow or call-graph query over a non-empty '
                    'site set; distinct by (rule, function, construct key)',
            'samples': samples[:40],
            'rule_instances': dict(sorted(self.counts.items())),
            'floors': {r: n for r, (n, _) in self.floors.items()},
            'units': len(self.prog.units) if self.prog else 0,
            'functions': len(self.prog.fns) if self.prog else 0,
            'cfg_blocks': self.prog.n_blocks if self.prog else 0,
            'indirect_slots_resolved': len([s for s, m in self.prog.slots().items() if m]) if self.prog else 0,
            'exceptions_used': self.exceptions_used,
            'known_findings_reported': [o['key'] for o, _ in kf],
            'checker_cmd': 'bin/check %s --tier %s' % (self.pid, self.tier),
            'trusted_base': ['clang 14 front end and CFG builder', 'synthesised compile commands',
                             'libc/libevent models in sa/model.py', 'exception table in the rule files'],
            'exhaustive': True,
        }
        if self.notes:
            cov['notes'] = self.notes
        if extra:
            cov.update(extra)
        ev = {
            'property_id': self.pid, 'tier': self.tier,
            'seed': int(os.environ.get('VERIF_SEED', '0') or 0),
            'level': 'other', 'coverage': cov, 'assumptions': assumptions,
            'wall_s': round(time.time() - self.t0, 3),
            'violations': len(viol), 'status': {0: 'held', 1: 'violation', 2: 'analysis-broken'}[status],
        }
        if write_evidence:
            with open(os.path.join(evidence_dir, '%s.json' % self.pid), 'w') as f:
                json.dump(ev, f, indent=1)
        print('%s %s: %d rule instances, %d held, %d known finding(s), %d violation(s)%s  [%.2fs]'
              % (self.pid, self.tier, n_ob, n_ok, len(kf), len(viol),
                 ', ANALYSIS BROKEN' if self.broken else '', time.time() - self.t0))
        return status


class Remap(object):
    """Proxy that records another property's shared rules under this property's rule ids.
    `mapping` maps a source rule id (or prefix ending in '.') to the id to record; unmapped rules are
    dropped (when only=True) or passed through."""

    def __init__(self, R, mapping, only=True, keys=None):
        """keys: optional tuple of key prefixes; instances with another key are not recorded"""
        self.R, self.mapping, self.only, self.keys = R, mapping, only, keys

    def _m(self, rule):
        if rule in self.mapping:
            return self.mapping[rule]
        for k, v in self.mapping.items():
            if k.endswith('.') and rule.startswith(k):
                return v + rule[len(k):]
        return None if self.only else rule

    def ob(self, rule, *a, **k):
        r = self._m(rule)
        if r is None:
            return True
        if self.keys is not None:
            key = k.get('key') or (a[2] if len(a) > 2 else '')
            if not any(str(key).startswith(p) for p in self.keys):
                return True
        return self.R.ob(r, *a, **k)

    def floor(self, rule, n, why=''):
        r = self._m(rule)
        if r is not None:
            self.R.floor(r, 1 if self.keys is not None else n, why)

    def exception(self, rule, *a, **k):
        r = self._m(rule)
        if r is not None:
            self.R.exception(r, *a, **k)

    def __getattr__(self, n):
        return getattr(self.R, n)
