"""Relational numeric abstract interpretation over one function's CFG (no execution, no solver).

Domain: a bounded disjunction (<= K elements) of *octagons* - conjunctions of constraints
+-x +-y <= c over the function's integer scalars (Mine 2006), stored as difference-bound
matrices with tight (integer) closure.  The disjunction is partitioned by "which variables sit
exactly on a constant the code compares them with" (e.g. `cpos == 8` vs. `cpos <= ii`), which is the
one piece of path sensitivity the address parser needs.  Loop heads are widened with thresholds
(the constants of the function and the array extents it indexes).

Machine arithmetic is respected where it matters: an unsigned subtraction / decrement is only
treated as the mathematical one when the current state proves that it does not wrap, otherwise
the result is the whole range of the type; comparisons that mix a possibly negative signed
variable with unsigned operands give no information.

What is decided with it (callers: sa/props/c13.py, c12.py, c08.py): every subscript of an array
of known extent stays inside it; `memcpy(array + k, src, n)` stays inside; shift counts are below
the operand width; the direction of an overlapping self-copy loop."""
from .model import walk, is_var, const_of, sx
from . import rules

INF = float('inf')
K_DISJ = 8

RANGES = {
    '__uint16_t': (0, 65535), '__uint32_t': (0, 2**32 - 1), '__uint8_t': (0, 255), '__uint64_t': (0, 2**64 - 1),
    'unsigned int': (0, 2**32 - 1), 'uint32_t': (0, 2**32 - 1), 'unsigned': (0, 2**32 - 1), 'in_addr_t': (0, 2**32 - 1),
    'size_t': (0, 2**64 - 1), 'unsigned long': (0, 2**64 - 1), 'uint64_t': (0, 2**64 - 1), 'unsigned long long': (0, 2**64 - 1), 'uintptr_t': (0, 2**64 - 1),
    'int': (-2**31, 2**31 - 1), 'int32_t': (-2**31, 2**31 - 1), 'long': (-2**63, 2**63 - 1), 'ssize_t': (-2**63, 2**63 - 1),
    'int64_t': (-2**63, 2**63 - 1), 'long long': (-2**63, 2**63 - 1), 'ptrdiff_t': (-2**63, 2**63 - 1), 'time_t': (-2**63, 2**63 - 1),
    'uint16_t': (0, 65535), 'unsigned short': (0, 65535), 'in_port_t': (0, 65535), 'short': (-32768, 32767), 'int16_t': (-32768, 32767),
    'uint8_t': (0, 255), 'unsigned char': (0, 255), 'char': (-128, 127), 'signed char': (-128, 127), 'int8_t': (-128, 127),
    '_Bool': (0, 1), 'bool': (0, 1),
}


def type_range(t):
    if not t:
        return None
    t = t.replace('const ', '').replace('volatile ', '').strip()
    if t.startswith('enum '):
        return RANGES['unsigned int'] if False else (-2**31, 2**31 - 1)
    return RANGES.get(t)


def is_unsigned_t(t):
    r = type_range(t)
    return r is not None and r[0] == 0


class Oct(object):
    """One octagon over variables vs (list of names).  m[i][j] bounds V_i - V_j, V_2k = v_k, V_2k+1 = -v_k."""
    __slots__ = ('vs', 'ix', 'm', 'closed', 'empty', 'facts')

    def __init__(self, vs, m=None):
        self.vs = vs
        self.ix = {v: i for i, v in enumerate(vs)}
        n = 2 * len(vs)
        self.m = m if m is not None else [[0 if i == j else INF for j in range(n)] for i in range(n)]
        self.closed = m is None
        self.empty = False
        self.facts = frozenset()      # quotient facts ('div', x, y, c, k): k*x <= y - c <= k*x + k - 1

    def copy(self):
        o = Oct(self.vs, [r[:] for r in self.m])
        o.closed, o.empty = self.closed, self.empty
        o.facts = self.facts
        return o

    # -- constraints -------------------------------------------------------------------------
    def _set(self, i, j, c):
        if c < self.m[i][j]:
            self.m[i][j] = c
            self.m[j ^ 1][i ^ 1] = c
            self.closed = False

    def add(self, terms, c):
        """terms: {var: +1|-1} with one or two variables; constraint sum <= c."""
        it = list(terms.items())
        if len(it) == 1:
            (v, a), = it
            k = self.ix[v]
            if a > 0:
                self._set(2 * k, 2 * k + 1, 2 * c)
            else:
                self._set(2 * k + 1, 2 * k, 2 * c)
        elif len(it) == 2:
            (v, a), (w, b) = it
            i = 2 * self.ix[v] + (0 if a > 0 else 1)
            j = 2 * self.ix[w] + (1 if b > 0 else 0)      # V_i - V_j with V_j = -(b w)
            self._set(i, j, c)
        return self

    def close(self):
        if self.closed or self.empty:
            return self
        m = self.m
        n = len(m)
        for _ in range(2):
            for k in range(n):
                mk = m[k]
                for i in range(n):
                    mik = m[i][k]
                    if mik == INF:
                        continue
                    mi = m[i]
                    for j in range(n):
                        v = mik + mk[j]
                        if v < mi[j]:
                            mi[j] = v
            # tightening (integers) and strengthening
            for i in range(n):
                if m[i][i ^ 1] != INF:
                    m[i][i ^ 1] = 2 * (m[i][i ^ 1] // 2)
            for i in range(n):
                a = m[i][i ^ 1]
                if a == INF:
                    continue
                for j in range(n):
                    b = m[j ^ 1][j]
                    if b == INF:
                        continue
                    v = (a + b) // 2
                    if v < m[i][j]:
                        m[i][j] = v
        for i in range(n):
            if m[i][i] < 0:
                self.empty = True
                break
            m[i][i] = 0
        self.closed = True
        return self

    def is_empty(self):
        self.close()
        return self.empty

    # -- queries -----------------------------------------------------------------------------
    def bounds(self, v):
        self.close()
        k = self.ix[v]
        hi = self.m[2 * k][2 * k + 1]
        lo = self.m[2 * k + 1][2 * k]
        return (-(lo // 2) if lo != INF else -INF, hi // 2 if hi != INF else INF)

    def bound_terms(self, terms):
        """Upper bound of sum(a_v * v) for arbitrary integer coefficients (exact for octagonal shapes)."""
        self.close()
        it = [(v, a) for v, a in terms.items() if a]
        if not it:
            return 0
        if len(it) == 1 and abs(it[0][1]) == 1:
            lo, hi = self.bounds(it[0][0])
            return hi if it[0][1] > 0 else -lo
        if len(it) == 2 and all(abs(a) == 1 for _, a in it):
            (v, a), (w, b) = it
            i = 2 * self.ix[v] + (0 if a > 0 else 1)
            j = 2 * self.ix[w] + (1 if b > 0 else 0)
            return self.m[i][j]
        from math import gcd
        g = 0
        for _, a in it:
            g = gcd(g, abs(a))
        if g > 1:
            r = self.bound_terms({v: a // g for v, a in it})
            return r * g if r != INF else INF
        # pair up where possible, otherwise sum of interval bounds; take the best pairing of the first with any other
        best = 0
        for v, a in it:
            lo, hi = self.bounds(v)
            best += a * hi if a > 0 else a * lo
        if all(abs(a) == 1 for _, a in it) and len(it) <= 4:
            # try every split into (pair) + rest
            for x in range(len(it)):
                for y in range(x + 1, len(it)):
                    p = self.bound_terms(dict([it[x], it[y]]))
                    rest = {v: a for z, (v, a) in enumerate(it) if z not in (x, y)}
                    r = self.bound_terms(rest) if rest else 0
                    if p + r < best:
                        best = p + r
        return best

    def forget(self, v):
        self.close()
        k = self.ix[v]
        n = len(self.m)
        for i in (2 * k, 2 * k + 1):
            for j in range(n):
                if i != j:
                    self.m[i][j] = INF
                    self.m[j][i] = INF
        return self

    def shift(self, v, c):
        """v := v + c"""
        k = self.ix[v]
        p, q = 2 * k, 2 * k + 1
        n = len(self.m)
        m = self.m
        for j in range(n):
            if j in (p, q):
                continue
            m[p][j] += c
            m[j][p] -= c
            m[q][j] -= c
            m[j][q] += c
        m[p][q] += 2 * c
        m[q][p] -= 2 * c
        return self

    def includes(self, o):
        """self >= o (o closed)"""
        o.close()
        if o.empty:
            return True
        self.close()
        if self.empty:
            return False
        n = len(self.m)
        for i in range(n):
            a, b = self.m[i], o.m[i]
            for j in range(n):
                if b[j] > a[j]:
                    return False
        return True

    def join(self, o):
        self.close()
        o.close()
        if self.empty:
            return o.copy()
        if o.empty:
            return self.copy()
        r = Oct(self.vs, [[max(a, b) for a, b in zip(ra, rb)] for ra, rb in zip(self.m, o.m)])
        r.closed = True
        r.facts = self.facts & o.facts
        return r

    def widen(self, o, thresholds):
        """self widened by o (o includes self): entries that grew go to the next threshold or to infinity."""
        n = len(self.m)
        r = [[0] * n for _ in range(n)]
        for i in range(n):
            for j in range(n):
                a, b = self.m[i][j], o.m[i][j]
                if b <= a:
                    r[i][j] = a
                else:
                    scale = 2 if (i ^ 1) == j else 1
                    t = [x * scale for x in thresholds if x * scale >= b]
                    r[i][j] = min(t) if t else INF
        w = Oct(self.vs, r)
        w.closed = False
        w.facts = self.facts & o.facts
        return w

    def describe(self, only=None):
        self.close()
        if self.empty:
            return 'false'
        out = []
        for v in self.vs:
            if only and v not in only:
                continue
            lo, hi = self.bounds(v)
            if lo == hi:
                out.append('%s=%s' % (v, lo))
            elif lo != -INF or hi != INF:
                out.append('%s in [%s,%s]' % (v, lo, hi))
        vs = [v for v in self.vs if not only or v in only]
        for x in range(len(vs)):
            for y in range(x + 1, len(vs)):
                a, b = vs[x], vs[y]
                d1 = self.bound_terms({a: 1, b: -1})
                d2 = self.bound_terms({a: -1, b: 1})
                la, ha = self.bounds(a)
                lb, hb = self.bounds(b)
                if d1 < ha - lb:
                    out.append('%s-%s<=%s' % (a, b, d1))
                if d2 < hb - la:
                    out.append('%s-%s<=%s' % (b, a, d2))
                s1 = self.bound_terms({a: 1, b: 1})
                if s1 < ha + hb:
                    out.append('%s+%s<=%s' % (a, b, s1))
        return ' & '.join(out) or 'true'


# ------------------------------------------------------------------------------------------
# linear forms
# ------------------------------------------------------------------------------------------
class Lin(object):
    """sum(coef[v] * v) + c"""
    __slots__ = ('t', 'c')

    def __init__(self, t=None, c=0):
        self.t = {k: v for k, v in (t or {}).items() if v}
        self.c = c

    def add(self, o, s=1):
        t = dict(self.t)
        for k, v in o.t.items():
            t[k] = t.get(k, 0) + s * v
        return Lin(t, self.c + s * o.c)

    def scale(self, k):
        return Lin({v: a * k for v, a in self.t.items()}, self.c * k)

    def __repr__(self):
        return ' + '.join(['%s*%s' % (a, v) for v, a in sorted(self.t.items())] + [str(self.c)])


class Analysis(object):
    """Forward analysis of one Fn.  After run(): self.at(site) -> list of octagons holding just before
    the event; self.at_term(bid) -> list holding when the block's terminator is evaluated."""

    def __init__(self, fn, assume=None, max_iter=4000):
        self.fn = fn
        self.P = fn.prog
        self.vtypes = {}
        self.addr_taken = set()
        self._collect_vars()
        self.vs = sorted(v for v in self.vtypes if v not in self.addr_taken)
        self.thr = self._thresholds()
        self.part = self._partition_points()
        self.cong = self._congruences()
        self.before = {}
        self.term_state = {}
        self.block_in = {}
        self.assume = assume or []
        self.max_iter = max_iter
        self.notes = []
        self.run()

    # -- set-up ------------------------------------------------------------------------------
    def _exprs(self):
        for s in self.fn.sites():
            for ex in rules.event_exprs(s.ev):
                yield ex
        for b in self.fn.blocks.values():
            c = (b.get('term') or {}).get('cond')
            if isinstance(c, dict):
                yield c

    def _collect_vars(self):
        for p in self.fn.param_info:
            if type_range(p.get('t')):
                self.vtypes[p['name']] = p['t']
        for s in self.fn.sites():
            ev = s.ev
            if ev['k'] == 'decl' and ev.get('var') and not ev.get('array') and type_range(ev.get('t')):
                if not ev.get('static'):
                    self.vtypes[ev['var']] = ev['t']
        for ex in self._exprs():
            for x in walk(ex):
                if x.get('k') == 'var' and x.get('sc') in ('local', 'param') and type_range(x.get('t')) and 'arr' not in x:
                    self.vtypes.setdefault(x['name'], x['t'])
                if x.get('k') == 'un' and x.get('op') == '&' and is_var(x.get('e')):
                    self.addr_taken.add(x['e']['name'])

    def _thresholds(self):
        t = set([0, 1])
        for ex in self._exprs():
            for x in walk(ex):
                c = const_of(x)
                if c is not None and isinstance(c, int) and abs(c) <= 1 << 20:
                    t.update((c - 1, c, c + 1))
                if isinstance(x.get('arr'), int):
                    t.update((x['arr'] - 1, x['arr']))
        for b in self.fn.blocks.values():
            for e in self.fn.out.get(b['id'], []):
                for v in (e.vs or []):
                    t.add(v)
        return sorted(t)

    def _partition_points(self):
        """(var, const) pairs the code compares: a disjunct in which var == const is kept apart."""
        pts = set()
        for b in self.fn.blocks.values():
            for e in self.fn.out.get(b['id'], []):
                r = e.rel()
                if r and is_var(r[0]) and r[0]['name'] in self.vtypes and const_of(r[2]) is not None and isinstance(const_of(r[2]), int):
                    c = const_of(r[2])
                    pts.add((r[0]['name'], c))
                    if r[1] in ('<', '>='):
                        pts.add((r[0]['name'], c))
        return pts

    def _congruences(self):
        """v == r (mod k) for locals only ever set to constants and stepped by +-k: {v: (k, r)}"""
        from math import gcd
        info = {}
        bad = set()
        for s in self.fn.sites():
            ev = s.ev
            v = val = op = None
            if ev['k'] == 'store' and is_var(ev.get('lhs')):
                v, val, op = ev['lhs']['name'], ev.get('rhs'), ev.get('op')
            elif ev['k'] == 'decl' and ev.get('var'):
                v, val, op = ev['var'], ev.get('init'), '='
                if val is None:
                    continue
            if v is None or v not in self.vtypes or v in self.addr_taken:
                continue
            c = const_of(val) if val is not None else None
            if op == '=' and isinstance(c, int):
                info.setdefault(v, {'consts': set(), 'steps': set()})['consts'].add(c)
            elif op in ('+=', '-=') and isinstance(c, int) and c != 0:
                info.setdefault(v, {'consts': set(), 'steps': set()})['steps'].add(abs(c))
            elif op in ('++', '--'):
                info.setdefault(v, {'consts': set(), 'steps': set()})['steps'].add(1)
            else:
                bad.add(v)
        for p in self.fn.param_info:
            bad.add(p['name'])
        out = {}
        for v, d in info.items():
            if v in bad or not d['steps'] or not d['consts']:
                continue
            k = 0
            for x in d['steps']:
                k = gcd(k, x)
            cs = sorted(d['consts'])
            for x in cs[1:]:
                k = gcd(k, abs(x - cs[0]))
            if k > 1:
                out[v] = (k, cs[0] % k)
        return out

    def top(self):
        o = Oct(self.vs)
        for v in self.vs:
            lo, hi = type_range(self.vtypes[v])
            o.add({v: 1}, hi)
            o.add({v: -1}, -lo)
        return o

    def sig(self, o):
        s = []
        for v, c in self.part:
            if v in o.ix:
                lo, hi = o.bounds(v)
                if lo == hi == c:
                    s.append((v, c))
        return frozenset(s)

    # -- expression evaluation -----------------------------------------------------------------
    def _post_adjust(self, x, cur_ev):
        """`v++` / `++v` / `v--` inside a later event: the store has already happened."""
        if not (x.get('k') == 'un' and x.get('op') in ('++', '--') and is_var(x.get('e'))):
            return None
        v = x['e']['name']
        if v not in self.vs_set:
            return None
        if x.get('postfix'):
            return Lin({v: 1}, -1 if x['op'] == '++' else 1)
        return Lin({v: 1}, 0)

    def lin(self, e, o, strict=True):
        """Linear form of e valid in octagon o, or None.  Unsigned subtractions must be proven not to wrap."""
        if not isinstance(e, dict):
            return None
        if e.get('castto') and type_range(e['castto']):
            inner = dict(e)
            inner.pop('castto')
            r = self.lin(inner, o, strict)
            if r is None:
                return None
            lo, hi = type_range(e['castto'])
            up = o.bound_terms(r.t) + r.c
            dn = -(o.bound_terms({v: -a for v, a in r.t.items()})) + r.c
            return r if (dn >= lo and up <= hi) else None
        k = e.get('k')
        if k in ('int', 'chr', 'enum'):
            c = const_of(e)
            return Lin({}, c) if isinstance(c, int) else None
        if k == 'var':
            if e['name'] in self.vs_set:
                return Lin({e['name']: 1}, 0)
            return None
        if k == 'un':
            pa = self._post_adjust(e, None)
            if pa is not None:
                return pa
            if e.get('op') == '-':
                a = self.lin(e['e'], o)
                return a.scale(-1) if a else None
            if e.get('op') == '+':
                return self.lin(e['e'], o)
            return None
        if k == 'bin' and e.get('op') == '=' and is_var(e.get('l')):
            # the value of an assignment expression is the variable just assigned (its store event came first)
            return self.lin(e['l'], o, strict)
        if k == 'bin' and e.get('op') in ('+', '-'):
            a, b = self.lin(e['l'], o), self.lin(e['r'], o)
            if a is None or b is None:
                return None
            r = a.add(b, 1 if e['op'] == '+' else -1)
            if strict and not self._fits(e, r, o):
                return None
            return r
        if k == 'bin' and e.get('op') == '*':
            a, b = self.lin(e['l'], o), self.lin(e['r'], o)
            if a is None or b is None:
                return None
            if not a.t:
                r = b.scale(a.c)
            elif not b.t:
                r = a.scale(b.c)
            else:
                return None
            if strict and not self._fits(e, r, o):
                return None
            return r
        return None

    def _expr_type(self, e):
        """Type in which a +,-,* node is computed (clang's own answer when the facts carry it)."""
        if e.get('ty') and type_range(e['ty']):
            tr = type_range(e['ty'])
            for r in ('unsigned long', 'long', 'unsigned int', 'int'):
                if RANGES[r] == tr:
                    return r
        ts = []
        for x in (e.get('l'), e.get('r')):
            t = self._static_type(x)
            ts.append(t)
        rank = ['unsigned long', 'long', 'unsigned int', 'int']
        for r in rank:
            for t in ts:
                if t is None:
                    continue
                tr = type_range(t)
                if tr == RANGES[r]:
                    return r
        return 'int'

    def _static_type(self, e):
        if not isinstance(e, dict):
            return None
        if e.get('castto') and type_range(e['castto']):
            return e['castto']
        k = e.get('k')
        if k == 'var' or k == 'mem' or k == 'idx':
            return e.get('t') if type_range(e.get('t')) else None
        if k == 'int':
            return 'unsigned long' if e.get('sizeof') else ('unsigned int' if e.get('unsigned') else 'int')
        if k in ('chr', 'enum'):
            return 'int'
        if k == 'un':
            if e.get('op') in ('++', '--', '-', '+', '~'):
                return self._static_type(e.get('e'))
            return None
        if k == 'bin' and e.get('op') in ('+', '-', '*', '/', '%', '&', '|', '^'):
            return self._expr_type(e)
        if k == 'bin' and e.get('op') in ('<<', '>>'):
            return self._static_type(e.get('l'))
        if k == 'callref':
            return e.get('ty') if type_range(e.get('ty')) else None
        return None

    def _fits(self, e, r, o):
        """the mathematical value of r lies in the range of the type e is computed in (no wrap-around)"""
        t = self._expr_type(e)
        lo, hi = RANGES[t]
        up = o.bound_terms(r.t) + r.c
        dn = -(o.bound_terms({v: -a for v, a in r.t.items()})) + r.c
        return dn >= lo and up <= hi

    def interval(self, e, o):
        """(lo, hi) of e in o; falls back to the range of its type."""
        if isinstance(e, dict) and e.get('castto') and type_range(e['castto']):
            inner = dict(e)
            inner.pop('castto')
            lo, hi = self.interval(inner, o)
            tl, th = type_range(e['castto'])
            return (lo, hi) if (lo >= tl and hi <= th) else (tl, th)
        l = self.lin(e, o)
        if l is not None:
            up = o.bound_terms(l.t) + l.c
            dn = -(o.bound_terms({v: -a for v, a in l.t.items()})) + l.c
            return dn, up
        if not isinstance(e, dict):
            return -INF, INF
        k = e.get('k')
        if k == 'cond':
            a, b = self.interval(e['t'], o), self.interval(e['f'], o)
            return min(a[0], b[0]), max(a[1], b[1])
        if k == 'bin':
            op = e.get('op')
            a, b = self.interval(e['l'], o), self.interval(e['r'], o)
            if op == '&':
                cands = [x[1] for x in (a, b) if x[0] >= 0 and x[1] != INF]
                if cands:
                    return 0, min(cands)
            if op == '%' and b[0] > 0 and b[1] != INF and a[0] >= 0:
                return 0, min(b[1] - 1, a[1])
            if op == '/' and b[0] > 0 and a[0] >= 0 and a[1] != INF:
                return a[0] // b[1] if b[1] != INF else 0, a[1] // b[0]
            if op == '>>' and a[0] >= 0 and b[0] >= 0 and a[1] != INF:
                return 0, a[1] >> int(b[0]) if b[0] != INF else 0
            if op in ('+', '-', '*') and all(x not in (INF, -INF) for x in a + b):
                if op == '+':
                    lo, hi = a[0] + b[0], a[1] + b[1]
                elif op == '-':
                    lo, hi = a[0] - b[1], a[1] - b[0]
                else:
                    c = [a[0] * b[0], a[0] * b[1], a[1] * b[0], a[1] * b[1]]
                    lo, hi = min(c), max(c)
                tr = RANGES[self._expr_type(e)]
                if lo >= tr[0] and hi <= tr[1]:
                    return lo, hi
                return tr
            if op in ('<', '<=', '>', '>=', '==', '!=', '&&', '||'):
                return 0, 1
        if k == 'un' and e.get('op') == '!':
            return 0, 1
        tr = type_range(e.get('castto')) or type_range(self._static_type(e) or '') or type_range(e.get('t'))
        if tr:
            return tr
        return -INF, INF

    # -- transfer ----------------------------------------------------------------------------
    def assign(self, o, v, e):
        """v := e"""
        lo_t, hi_t = type_range(self.vtypes[v])
        l = self.lin(e, o)
        if l is not None:
            up = o.bound_terms(l.t) + l.c
            dn = -(o.bound_terms({w: -a for w, a in l.t.items()})) + l.c
            if dn >= lo_t and up <= hi_t:
                others = {w: a for w, a in l.t.items()}
                if list(others.keys()) == [v] and others[v] == 1:
                    return o.shift(v, l.c)
                if v not in others and len(others) == 1 and abs(list(others.values())[0]) == 1:
                    (w, a), = others.items()
                    o.forget(v)
                    o.add({v: 1, w: -a}, l.c)
                    o.add({v: -1, w: a}, -l.c)
                    return o
                if v not in others and len(others) == 2 and all(abs(a) == 1 for a in others.values()):
                    # v = +-x +-y + c is not octagonal; keep the best relaxations v -+ x <= bound(+-y) + c
                    cons = []
                    for w, a in others.items():
                        rest = {u: b for u, b in others.items() if u != w}
                        ru = o.bound_terms(rest)
                        rl = -o.bound_terms({u: -b for u, b in rest.items()})
                        cons.append(({v: 1, w: -a}, ru + l.c))
                        cons.append(({v: -1, w: a}, -(rl + l.c)))
                    o.forget(v)
                    for t, c in cons:
                        if c != INF:
                            o.add(t, c)
                    o.add({v: 1}, up)
                    o.add({v: -1}, -dn)
                    return o
                o.forget(v)
                if up != INF:
                    o.add({v: 1}, up)
                if dn != -INF:
                    o.add({v: -1}, -dn)
                return o
        lo, hi = self.interval(e, o)
        o.forget(v)
        if lo < lo_t or hi > hi_t:
            lo, hi = lo_t, hi_t
        o.add({v: 1}, hi)
        o.add({v: -1}, -lo)
        return o

    def step(self, o, v, d):
        """v := v + d with the type's wrap-around"""
        lo_t, hi_t = type_range(self.vtypes[v])
        lo, hi = o.bounds(v)
        if lo + d >= lo_t and hi + d <= hi_t:
            return o.shift(v, d)
        o.forget(v)
        o.add({v: 1}, hi_t)
        o.add({v: -1}, -lo_t)
        return o

    def event(self, o, ev):
        k = ev['k']
        if k == 'decl' and ev.get('var') in self.vs_set:
            v = ev['var']
            if ev.get('init') is not None:
                return self.assign(o, v, ev['init'])
            lo, hi = type_range(self.vtypes[v])
            o.forget(v)
            o.add({v: 1}, hi)
            o.add({v: -1}, -lo)
            return o
        if k == 'store' and is_var(ev.get('lhs')) and ev['lhs']['name'] in self.vs_set:
            v = ev['lhs']['name']
            op = ev.get('op')
            rhs = ev.get('rhs')
            facts = o.facts
            # y -= k * x (or y = y - k * x) under a quotient fact x == (y - c) / k: the remainder plus c
            rem = self._remainder(o, v, op, rhs)
            o.facts = frozenset(f for f in facts if v not in (f[1], f[2]))
            if rem is not None:
                o.forget(v)
                o.add({v: 1}, rem[1])
                o.add({v: -1}, -rem[0])
                return o
            # x = (y - c) / k with y >= c known
            q = self._quotient(o, rhs) if op == '=' else None
            if q is not None and q[0] != v:
                o = self.assign(o, v, rhs)
                o.facts = o.facts | {('div', v, q[0], q[1], q[2])}
                return o
            if op == '=':
                return self.assign(o, v, rhs)
            if op in ('++', '--'):
                return self.step(o, v, 1 if op == '++' else -1)
            if op in ('+=', '-='):
                c = const_of(rhs)
                if isinstance(c, int):
                    return self.step(o, v, c if op == '+=' else -c)
                e2 = {'k': 'bin', 'op': op[0], 'l': ev['lhs'], 'r': rhs}
                return self.assign(o, v, e2)
            if len(op) >= 2 and op.endswith('='):
                e2 = {'k': 'bin', 'op': op[:-1], 'l': ev['lhs'], 'r': rhs}
                return self.assign(o, v, e2)
        return o

    def _quotient(self, o, e):
        """(y, c, k) when e is (y - c) / k with y, a tracked variable, known to be at least c"""
        if not (isinstance(e, dict) and e.get('k') == 'bin' and e.get('op') == '/' and isinstance(const_of(e.get('r')), int) and const_of(e['r']) > 0):
            return None
        k = const_of(e['r'])
        num = e['l']
        y, c = None, 0
        if is_var(num) and num['name'] in self.vs_set:
            y = num['name']
        elif isinstance(num, dict) and num.get('k') == 'bin' and num.get('op') == '-' and is_var(num.get('l')) and num['l']['name'] in self.vs_set and isinstance(const_of(num.get('r')), int):
            y, c = num['l']['name'], const_of(num['r'])
        if y is None or o.bounds(y)[0] < c:
            return None
        return y, c, k

    def _remainder(self, o, v, op, rhs):
        """range of the new value of v for `v -= k * x` / `v = v - k * x` when ('div', x, v, c, k) holds"""
        sub = None
        if op == '-=':
            sub = rhs
        elif op == '=' and isinstance(rhs, dict) and rhs.get('k') == 'bin' and rhs.get('op') == '-' and is_var(rhs.get('l'), v):
            sub = rhs['r']
        if not isinstance(sub, dict) or sub.get('k') != 'bin' or sub.get('op') != '*':
            return None
        for a, b in ((sub['l'], sub['r']), (sub['r'], sub['l'])):
            if is_var(a) and isinstance(const_of(b), int):
                for f in o.facts:
                    if f[0] == 'div' and f[1] == a['name'] and f[2] == v and f[4] == const_of(b):
                        return (f[3], f[3] + f[4] - 1)
        return None

    def refine(self, o, r):
        """list of octagons for o under relation r = (l, op, rhs)"""
        l, op, rr = r
        if op not in ('<', '<=', '>', '>=', '==', '!='):
            return [o]
        # signedness: a possibly negative signed operand compared as unsigned tells nothing
        tl, tr_ = self._static_type(l), self._static_type(rr)
        uns = any(t and is_unsigned_t(t) and type_range(t)[1] >= 2**32 - 1 for t in (tl, tr_))
        a, b = self.lin(l, o), self.lin(rr, o)
        if a is None or b is None:
            return [o]
        if uns:
            for side in (a, b):
                dn = -(o.bound_terms({v: -c for v, c in side.t.items()})) + side.c
                if dn < 0:
                    return [o]
        d = a.add(b, -1)          # l - r
        if op == '<':
            return [self._constrain(o, d, -1)]
        if op == '<=':
            return [self._constrain(o, d, 0)]
        if op == '>':
            return [self._constrain(o, d.scale(-1), -1)]
        if op == '>=':
            return [self._constrain(o, d.scale(-1), 0)]
        if op == '==':
            return [self._constrain(self._constrain(o, d, 0), d.scale(-1), 0)]
        return [self._constrain(o.copy(), d, -1), self._constrain(o.copy(), d.scale(-1), -1)]

    def _constrain(self, o, d, c):
        """d <= c"""
        c = c - d.c
        t = d.t
        if not t:
            if 0 > c:
                o.empty = True
                o.closed = True
            return o
        if len(t) == 1 and list(t.values())[0] in (1, -1) and list(t.keys())[0] in self.cong:
            (v, a), = t.items()
            k, r = self.cong[v]
            if a == 1:          # v <= c  ->  largest value <= c in the class
                c = c - ((c - r) % k)
            else:               # -v <= c, i.e. v >= -c  ->  smallest value >= -c in the class
                lo = -c
                lo = lo + ((r - lo) % k)
                c = -lo
            return o.add(t, c)
        if len(t) <= 2 and all(abs(a) == 1 for a in t.values()):
            return o.add(t, c)
        if len(t) == 1:
            (v, a), = t.items()
            # a*v <= c
            if a > 0:
                return o.add({v: 1}, c // a)
            return o.add({v: -1}, c // (-a))
        # relax: drop one variable at a time using its bound
        items = list(t.items())
        if len(items) == 3 and all(abs(a) == 1 for _, a in items):
            cons = []
            for x in range(3):
                v, a = items[x]
                lo, hi = o.bounds(v)
                mn = lo if a > 0 else -hi      # min of a*v
                if mn in (INF, -INF):
                    continue
                rest = {w: b for y, (w, b) in enumerate(items) if y != x}
                cons.append((rest, c - mn))
            for rest, cc in cons:
                o.add(rest, cc)
            return o
        return o

    # -- fixpoint ----------------------------------------------------------------------------
    def run(self):
        fn = self.fn
        self.vs_set = set(self.vs)
        if fn.entry is None:
            return
        init = self.top()
        for t, c in self.assume:
            init.add(t, c)
        loop_heads, back, rpo = self._loop_heads()
        states = {fn.entry: [init]}
        visits = {}
        work = [fn.entry]
        it = 0
        while work and it < self.max_iter:
            it += 1
            work.sort(key=lambda b: rpo.get(b, 1 << 30))
            bid = work.pop(0)
            cur = [o.copy() for o in states.get(bid, [])]
            blk = fn.blocks[bid]
            for ev in blk['events']:
                cur = [self.event(o, ev) for o in cur]
            if blk.get('noreturn'):
                continue
            for e in fn.out.get(bid, []):
                outs = []
                for o in cur:
                    outs.extend(self._edge(o.copy(), e))
                outs = [x for x in outs if not x.is_empty()]
                if not outs:
                    continue
                changed = False
                tgt = states.setdefault(e.dst, [])
                for o in outs:
                    if self._merge(tgt, o, (e.src, e.dst) in back, visits, e.dst):
                        changed = True
                if changed and e.dst not in work:
                    work.append(e.dst)
        if work:
            self.notes.append('iteration limit reached; results discarded')
            states = {}
        self.block_in = states
        # record per-site states
        for bid, sts in states.items():
            cur = [o.copy() for o in sts]
            blk = fn.blocks[bid]
            for i, ev in enumerate(blk['events']):
                self.before[(bid, i)] = [o.copy() for o in cur]
                cur = [self.event(o, ev) for o in cur]
            self.term_state[bid] = cur

    def _loop_heads(self):
        fn = self.fn
        heads, color, back, post = set(), {}, set(), []
        stack = [(fn.entry, iter(fn.out.get(fn.entry, [])))]
        color[fn.entry] = 1
        while stack:
            b, itr = stack[-1]
            adv = False
            for e in itr:
                c = color.get(e.dst, 0)
                if c == 1:
                    heads.add(e.dst)
                    back.add((e.src, e.dst))
                elif c == 0:
                    color[e.dst] = 1
                    stack.append((e.dst, iter(fn.out.get(e.dst, []))))
                    adv = True
                    break
            if not adv:
                color[b] = 2
                post.append(b)
                stack.pop()
        rpo = {b: i for i, b in enumerate(reversed(post))}
        return heads, back, rpo

    def _edge(self, o, e):
        if e.label in ('true', 'false') and e.cond is not None:
            r = e.rel()
            return self.refine(o, r) if r else [o]
        if e.label == 'case' and e.cond is not None and e.vs:
            l = self.lin(e.cond, o)
            if l is not None and len(l.t) == 1:
                lo, hi = min(e.vs), max(e.vs)
                o = self._constrain(o, l, hi)
                o = self._constrain(o, l.scale(-1), -lo)
            return [o]
        return [o]

    def _merge(self, tgt, o, is_head, visits, bid):
        o.close()
        for x in tgt:
            if x.includes(o):
                return False
        s = self.sig(o)
        for i, x in enumerate(tgt):
            if self.sig(x) == s:
                j = x.join(o)
                if is_head:
                    n = visits[bid] = visits.get(bid, 0) + 1
                    if n > 4 * max(1, len(tgt)):
                        j = x.widen(j, self.thr if n < 16 * max(1, len(tgt)) else [])
                        j.close()
                    if n > 40 * max(1, len(tgt)):
                        # give up path sensitivity at this head
                        for y in tgt:
                            j = j.join(y)
                        j = Oct(self.vs).close() if False else j.widen(j.join(self.top()), [])
                        j.close()
                        del tgt[:]
                        tgt.append(j)
                        return True
                tgt[i] = j
                return True
        if len(tgt) < K_DISJ:
            tgt.append(o)
            return True
        tgt[0] = tgt[0].join(o)
        return True

    # -- results -----------------------------------------------------------------------------
    def at(self, site):
        return self.before.get(site.key, [])

    def at_term(self, bid):
        return self.term_state.get(bid, [])

    def range_of(self, e, states):
        """hull of e over a list of octagons; (None, None) when unreachable"""
        if not states:
            return None, None
        lo, hi = INF, -INF
        for o in states:
            a, b = self.interval(e, o)
            lo, hi = min(lo, a), max(hi, b)
        return lo, hi


# ------------------------------------------------------------------------------------------
# obligations
# ------------------------------------------------------------------------------------------
def _sub_obligations(an, e, states, out, where):
    """Walk e; under `cond ? a : b`, `a && b`, `a || b` the operands are examined under the refined state."""
    if not isinstance(e, dict) or not states:
        return
    k = e.get('k')
    if k == 'cond':
        _sub_obligations(an, e['c'], states, out, where)
        from .model import rel
        t = [x for o in states for x in an.refine(o.copy(), rel(e['c'], True))]
        f = [x for o in states for x in an.refine(o.copy(), rel(e['c'], False))]
        _sub_obligations(an, e['t'], [x for x in t if not x.is_empty()], out, where)
        _sub_obligations(an, e['f'], [x for x in f if not x.is_empty()], out, where)
        return
    if k == 'bin' and e.get('op') in ('&&', '||'):
        from .model import rel
        _sub_obligations(an, e['l'], states, out, where)
        r = [x for o in states for x in an.refine(o.copy(), rel(e['l'], e['op'] == '&&'))]
        _sub_obligations(an, e['r'], [x for x in r if not x.is_empty()], out, where)
        return
    if k == 'idx':
        base = e.get('base') or {}
        ext = base.get('arr')
        if isinstance(ext, int) and ext > 0:
            lo, hi = an.range_of(e['index'], states)
            out.append({'kind': 'subscript', 'where': where, 'expr': sx(e), 'array': sx(base), 'extent': ext, 'lo': lo, 'hi': hi,
                        'ok': lo is not None and lo >= 0 and hi <= ext - 1})
    if k == 'bin' and e.get('op') in ('<<', '>>'):
        t = an._static_type(e['l'])
        width = 64 if t and type_range(t) and type_range(t)[1] > 2**32 else 32
        lo, hi = an.range_of(e['r'], states)
        out.append({'kind': 'shift', 'where': where, 'expr': sx(e), 'extent': width, 'lo': lo, 'hi': hi,
                    'ok': lo is not None and lo >= 0 and hi <= width - 1})
        # a left shift computed in (signed) int must not reach the sign bit
        rt = e.get('ty') or t
        if e['op'] == '<<' and rt and type_range(rt) == RANGES['int'] and lo is not None and hi <= 31:
            llo, lhi = an.range_of(e['l'], states)
            top = lhi * (1 << int(hi)) if lhi not in (None, INF) and hi not in (None, INF) else INF
            out.append({'kind': 'signed-shift', 'where': where, 'expr': sx(e), 'extent': 2**31 - 1, 'lo': llo, 'hi': top,
                        'ok': llo is not None and llo >= 0 and top <= 2**31 - 1})
        # a right shift of a signed operand that may be negative is implementation-defined and drags the sign in
        lt = an._static_type(e['l'])
        if e['op'] == '>>' and lt and type_range(lt) and type_range(lt)[0] < 0:
            llo, lhi = an.range_of(e['l'], states)
            out.append({'kind': 'signed-shift', 'where': where, 'expr': sx(e), 'extent': 2**31 - 1, 'lo': llo, 'hi': lhi,
                        'ok': llo is not None and llo >= 0})
    for ck in ('base', 'index', 'l', 'r', 'e', 'set', 'bitexpr'):
        if isinstance(e.get(ck), dict):
            _sub_obligations(an, e[ck], states, out, where)
    for lk in ('args', 'items'):
        for a in e.get(lk) or []:
            _sub_obligations(an, a, states, out, where)


def _ptr_parts(e):
    """array + a - b ...  ->  (array node, [(+1, a), (-1, b), ...]); (None, None) when e is not array arithmetic"""
    offs = []
    sign = 1
    while isinstance(e, dict) and e.get('k') == 'bin' and e.get('op') in ('+', '-'):
        offs.append((1 if e['op'] == '+' else -1, e['r']))
        e = e['l']
    if isinstance(e, dict) and isinstance(e.get('arr'), int):
        return e, offs
    return None, None


COPY_FNS = {'memcpy': (0, 1, 2), 'memmove': (0, 1, 2), 'memset': (0, None, 2)}


def obligations(an):
    """Every subscript of a known-extent array, every shift count and every block copy into / out of
    `array + k` in the function, with the inferred range and whether it is inside."""
    out = []
    fn = an.fn
    for s in fn.sites():
        states = an.at(s)
        if not states:
            continue
        for ex in rules.event_exprs(s.ev):
            _sub_obligations(an, ex, states, out, s)
        ev = s.ev
        if ev['k'] == 'call' and ev.get('callee') in COPY_FNS:
            d, src, n = COPY_FNS[ev['callee']]
            for pi in (d, src):
                if pi is None or pi >= len(ev['args']):
                    continue
                a = ev['args'][pi]
                base, offs = _ptr_parts(a)
                if base is None or not (isinstance(base.get('arr'), int) and base.get('elsz')):
                    continue
                total = base['arr'] * base['elsz']
                elsz = base['elsz']
                worst_hi, worst_lo = -INF, INF
                for o in states:
                    # offset (in elements) and length (in bytes) as one linear form, so that `8 - n` elements plus `n * size`
                    # bytes cancel exactly
                    lin_off = Lin({}, 0)
                    okl = True
                    for sign, part in offs:
                        l = an.lin(part, o)
                        if l is None:
                            okl = False
                            break
                        lin_off = lin_off.add(l, sign)
                    ln = an.lin(ev['args'][n], o) if okl else None
                    if okl and ln is not None:
                        tot = lin_off.scale(elsz).add(ln)
                        hi = o.bound_terms(tot.t) + tot.c
                        lo = -(o.bound_terms({v: -c for v, c in lin_off.t.items()})) + lin_off.c
                    else:
                        olo, ohi = (0, 0)
                        for sign, part in offs:
                            a_, b_ = an.interval(part, o)
                            olo, ohi = (olo + a_, ohi + b_) if sign > 0 else (olo - b_, ohi - a_)
                        nlo, nhi = an.interval(ev['args'][n], o)
                        hi = ohi * elsz + nhi if INF not in (ohi, nhi) else INF
                        lo = olo
                    worst_hi, worst_lo = max(worst_hi, hi), min(worst_lo, lo)
                ok = worst_lo >= 0 and worst_hi <= total
                out.append({'kind': 'blockcopy', 'where': s, 'expr': '%s(%s)' % (ev['callee'], ', '.join(sx(x) for x in ev['args'])), 'array': sx(base),
                            'extent': total, 'lo': worst_lo, 'hi': worst_hi, 'ok': ok})
    for bid, blk in fn.blocks.items():
        c = (blk.get('term') or {}).get('cond')
        if isinstance(c, dict) and an.at_term(bid):
            _sub_obligations(an, c, an.at_term(bid), out, ('term', bid, (blk.get('term') or {}).get('loc')))
    return out
