"""Character-classified scan analysis for the small "number + unit letter" parsers (intervals, volumes).

A finite forward dataflow that follows *which character* the parser is looking at, independent of
whether the code uses `switch (*pos++)`, `switch (ch)` after `ch = *pos++`, or an if/else chain on a
variable.  State:
  C     the set of byte values the character under examination may still have (refined by case labels,
        equality and range tests), as a frozenset of ints;
  H     the local variables holding that character;
  rel   how the scan pointer relates to it: 'peek' (*p is the character), 'consumed' (p[-1] is, i.e. the
        value of `*p++` just evaluated), or 'none';
  K     known constant values of locals (e.g. `shift = 10` chosen by an if-chain);
  bad   an unacceptable character has been examined on this path;
  succ  what was last stored through the success pointer: 'T', 'F', '?' or None; snull: the pointer is NULL.
Results: for every accumulate statement `total += f(partial)`, the multiplier applied for each specific
character; for every return, whether a path that examined an unacceptable character reports failure."""
from .model import walk, is_var, const_of, sx
from . import rules

ALL = frozenset(range(256))


def _deref_of(e, ptr):
    """'peek' for *p, 'consumed' for *p++ (postfix) or p[-1], 'pre' for *++p; else None"""
    if not isinstance(e, dict):
        return None
    if e.get('k') == 'un' and e.get('op') == '*':
        x = e.get('e') or {}
        if is_var(x, ptr):
            return 'peek'
        if x.get('k') == 'un' and x.get('op') == '++' and is_var(x.get('e'), ptr):
            return 'consumed' if x.get('postfix') else 'pre'
    if e.get('k') == 'idx' and is_var(e.get('base'), ptr):
        c = const_of(e.get('index'))
        if c == -1:
            return 'consumed'
        if c == 0:
            return 'peek'
    return None


class St(object):
    __slots__ = ('C', 'H', 'rel', 'K', 'bad', 'succ', 'snull')

    def __init__(self, C=ALL, H=frozenset(), rel='none', K=(), bad=False, succ=None, snull=False):
        self.C, self.H, self.rel, self.K, self.bad, self.succ, self.snull = C, H, rel, K, bad, succ, snull

    def key(self):
        return (self.C, self.H, self.rel, self.K, self.bad, self.succ, self.snull)

    def __hash__(self):
        return hash(self.key())

    def __eq__(self, o):
        return self.key() == o.key()

    def copy(self, **kw):
        d = dict(C=self.C, H=self.H, rel=self.rel, K=self.K, bad=self.bad, succ=self.succ, snull=self.snull)
        d.update(kw)
        return St(**d)


def analyse(fn, accepted):
    """accepted: iterable of characters (str) the format allows besides the terminator.
    Returns dict: ptr, succ, mults {char: set of multipliers}, rets [(site, [problem strings])], accum sites."""
    ok_chars = frozenset(ord(c) for c in accepted) | {0}
    # the scan pointer: a `const char *` local or parameter that is dereferenced and incremented
    ptrs = {}
    for s in fn.stores():
        ev = s.ev
        if ev['k'] == 'store' and is_var(ev.get('lhs')) and ev.get('op') in ('++', '+=') and 'char' in ev['lhs'].get('t', '') and '*' in ev['lhs'].get('t', ''):
            ptrs[ev['lhs']['name']] = ptrs.get(ev['lhs']['name'], 0) + 1
    if not ptrs:
        return None
    ptr = max(ptrs, key=lambda k: ptrs[k])
    sp = [p['name'] for p in fn.param_info if p.get('t', '').replace(' ', '') == 'int*']
    succ = sp[0] if sp else None

    # small lookup strings (`static const char units[] = "BbKkMm"`), for `p = strchr(units, ch)` classifications
    lit = {}
    for t in fn.sites():
        if t.ev['k'] == 'decl' and t.ev.get('var') and isinstance(t.ev.get('init'), dict) and t.ev['init'].get('k') == 'str' and len(t.ev['init'].get('v', '')) <= 32:
            lit[t.ev['var']] = t.ev['init']['v']

    def table_of(e):
        if isinstance(e, dict) and e.get('k') == 'str' and len(e.get('v', '')) <= 32:
            return e['v']
        if is_var(e) and e['name'] in lit:
            return lit[e['name']]
        return None

    def subject(e, st):
        """(state', True) if e denotes the examined character (refreshing it when a new character is read)"""
        if is_var(e) and e['name'] in st.H:
            return st, True
        k = _deref_of(e, ptr)
        if k == 'peek':
            if st.rel == 'peek':
                return st, True
            return st.copy(C=ALL, H=frozenset(), rel='peek'), True
        if k == 'consumed':
            if st.rel == 'consumed':
                return st, True
            if st.rel == 'peek':
                # `*p++` after `*p` was examined: the byte read is the one already looked at
                return st.copy(rel='consumed'), True
            return st.copy(C=ALL, H=frozenset(), rel='consumed'), True
        if k == 'pre':
            # `*++p`: a new byte
            return st.copy(C=ALL, H=frozenset(), rel='peek'), True
        return st, False

    def judge(st):
        if st.C and not (st.C & ok_chars):
            return st.copy(bad=True)
        return st

    def refine(st, op, c):
        C = st.C
        if op == '==':
            C = C & {c}
        elif op == '!=':
            C = C - {c}
        elif op == '<':
            C = frozenset(x for x in C if x < c)
        elif op == '<=':
            C = frozenset(x for x in C if x <= c)
        elif op == '>':
            C = frozenset(x for x in C if x > c)
        elif op == '>=':
            C = frozenset(x for x in C if x >= c)
        if not C:
            return None
        return judge(st.copy(C=frozenset(C)))

    def kval(e, st):
        """value of a counter expression under the known constants: v, v++ (already stepped), ++v"""
        d = dict(st.K)
        if is_var(e) and e['name'] in d:
            return d[e['name']]
        if isinstance(e, dict) and e.get('k') == 'un' and e.get('op') in ('++', '--') and is_var(e.get('e')) and e['e']['name'] in d:
            v = d[e['e']['name']]
            return (v - 1 if e['op'] == '++' else v + 1) if e.get('postfix') else v
        return None

    def strip_assign(e):
        """`(ch = *p++)` used as a value: the value is the assigned variable"""
        while isinstance(e, dict) and e.get('k') == 'bin' and e.get('op') == '=' and is_var(e.get('l')):
            e = e['l']
        return e

    def on_edge(st, e):
        if e.cond is None:
            return st
        if e.label in ('case', 'default'):
            subj = strip_assign(e.cond)
            st2, is_s = subject(subj, st)
            if not is_s:
                # a switch over a counter etc.: follow the known constants of locals
                kv = kval(subj, st)
                if kv is not None:
                    if e.label == 'case' and kv not in (e.vs or []):
                        return None
                    if e.label == 'default' and kv in (e.notin or []):
                        return None
                return st
            if e.label == 'case':
                C = st2.C & frozenset(v & 255 for v in (e.vs or []))
            else:
                C = st2.C - frozenset(v & 255 for v in (e.notin or []))
            if not C:
                return None
            return judge(st2.copy(C=frozenset(C)))
        r = e.rel()
        if not r:
            return st
        l, op, rr = r
        l = strip_assign(l)
        c = const_of(rr)
        if succ and is_var(l, succ) and c == 0 and op in ('==', '!='):
            return st.copy(snull=(op == '=='))
        if is_var(l) and c == 0 and op in ('==', '!=') and (l['name'] + '#idx') in dict(st.K):
            found = dict(st.K)[l['name'] + '#idx'] >= 0
            return st if found == (op == '!=') else None
        st2, is_s = subject(l, st)
        if is_s and isinstance(c, int) and op in ('==', '!=', '<', '<=', '>', '>='):
            return refine(st2, op, c & 255 if c >= 0 else c)
        if not is_s and isinstance(c, int):
            kv = kval(l, st)
            if kv is not None and op in ('==', '!=', '<', '<=', '>', '>='):
                if not {'==': kv == c, '!=': kv != c, '<': kv < c, '<=': kv <= c, '>': kv > c, '>=': kv >= c}[op]:
                    return None
        return st2 if is_s else st

    def eval_bool(e, st):
        """'T' / 'F' / '?' for a value stored through the success pointer"""
        c = const_of(e)
        if isinstance(c, int):
            return 'T' if c else 'F'
        if is_var(e) and e['name'] in dict(st.K):
            return 'T' if dict(st.K)[e['name']] else 'F'
        if isinstance(e, dict) and e.get('k') == 'bin' and e.get('op') in ('==', '!=') and isinstance(const_of(e.get('r')), int):
            st2, is_s = subject(e['l'], st)
            if is_s:
                k = const_of(e['r']) & 255
                if st2.C == frozenset([k]):
                    return 'T' if e['op'] == '==' else 'F'
                if k not in st2.C:
                    return 'F' if e['op'] == '==' else 'T'
        if isinstance(e, dict) and e.get('k') == 'un' and e.get('op') == '!':
            st2, is_s = subject(e['e'], st)
            if is_s:
                if st2.C == frozenset([0]):
                    return 'T'
                if 0 not in st2.C:
                    return 'F'
        return '?'

    accum = {}

    def on_event(st, s):
        ev = s.ev
        if ev['k'] == 'store':
            lhs = ev['lhs']
            if is_var(lhs, ptr):
                if ev.get('op') == '++':
                    return st.copy(rel={'peek': 'consumed'}.get(st.rel, 'none'))
                return st.copy(rel='none', H=st.H)
            if succ and lhs.get('k') == 'un' and lhs.get('op') == '*' and is_var(lhs.get('e'), succ):
                return st.copy(succ=eval_bool(ev.get('rhs'), st))
            if is_var(lhs):
                v = lhs['name']
                rhs = ev.get('rhs')
                st0 = st
                K = tuple(x for x in st.K if x[0] != v)
                H = st.H - {v}
                st = st.copy(K=K, H=H)
                if ev.get('op') == '=' and isinstance(rhs, dict) and rhs.get('k') == 'callref' and rhs.get('callee') == 'strchr' and len(rhs.get('args', [])) == 2 and table_of(rhs['args'][0]) is not None:
                    # a table lookup of the examined character: one state per entry it can be, one for "not in the table"
                    tab = table_of(rhs['args'][0])
                    st2, is_s = subject(rhs['args'][1], st)
                    if is_s:
                        outs = []
                        for i, chh in enumerate(tab):
                            if ord(chh) in st2.C:
                                outs.append(judge(st2.copy(C=frozenset([ord(chh)]), K=tuple(sorted(tuple(x for x in st2.K if x[0] != v + '#idx') + ((v + '#idx', i),))))))
                        if 0 in st2.C:
                            outs.append(judge(st2.copy(C=frozenset([0]), K=tuple(sorted(tuple(x for x in st2.K if x[0] != v + '#idx') + ((v + '#idx', len(tab)),))))))
                        rest = st2.C - frozenset(ord(x) for x in tab) - frozenset([0])
                        if rest:
                            outs.append(judge(st2.copy(C=frozenset(rest), K=tuple(sorted(tuple(x for x in st2.K if x[0] != v + '#idx') + ((v + '#idx', -1),))))))
                        return outs
                if ev.get('op') == '=':
                    st2, is_s = subject(rhs, st) if isinstance(rhs, dict) else (st, False)
                    if is_s:
                        return st2.copy(H=st2.H | {v})
                    c = const_of(rhs)
                    if c is None and is_var(rhs) and rhs['name'] in dict(st0.K):
                        c = dict(st0.K)[rhs['name']]         # a copy of a local whose value is known
                    if c is None and isinstance(rhs, dict) and rhs.get('k') == 'cond':
                        # `cond ? a : b` with constant arms and a condition over a known counter
                        cc = rhs.get('c')
                        if isinstance(cc, dict) and cc.get('k') == 'bin' and cc.get('op') in ('==', '!=', '<', '<=', '>', '>=') and isinstance(const_of(cc.get('r')), int):
                            kv = kval(cc.get('l'), st0)
                            if kv is not None:
                                k2 = const_of(cc['r'])
                                truth = {'==': kv == k2, '!=': kv != k2, '<': kv < k2, '<=': kv <= k2, '>': kv > k2, '>=': kv >= k2}[cc['op']]
                                c = const_of(rhs.get('t') if truth else rhs.get('f'))
                    if isinstance(c, int) and abs(c) < 1 << 40:
                        return st.copy(K=tuple(sorted(st.K + ((v, c),))))
                if ev.get('op') == '+=' and isinstance(rhs, dict):
                    accum.setdefault(s.key, (s, set()))[1].add(st0)
                if ev.get('op') in ('++', '--') and v in dict(st0.K) and abs(dict(st0.K)[v]) < 64:
                    return st.copy(K=tuple(sorted(st.K + ((v, dict(st0.K)[v] + (1 if ev['op'] == '++' else -1)),))))
                return st
        if ev['k'] == 'decl' and ev.get('var') and ev.get('init') is not None:
            v = ev['var']
            st2, is_s = subject(ev['init'], st)
            if is_s:
                return st2.copy(H=(st2.H - {v}) | {v})
            c = const_of(ev['init'])
            if isinstance(c, int):
                return st.copy(K=tuple(sorted(tuple(x for x in st.K if x[0] != v) + ((v, c),))))
        return st

    before, at_exit, sin, bout = fn.forward(St(), on_event, on_edge)
    return {'ptr': ptr, 'succ': succ, 'before': before, 'accum': accum, 'ok_chars': ok_chars}


def subst_consts(e, K):
    """e with known locals replaced by their values, `p - table` by the index p was found at, and constant
    sub-expressions folded"""
    d = dict(K)
    if not isinstance(e, dict):
        return e
    if e.get('k') == 'var' and e['name'] in d:
        return {'k': 'int', 'v': d[e['name']]}
    if e.get('k') == 'bin' and e.get('op') == '-' and is_var(e.get('l')) and (e['l']['name'] + '#idx') in d and is_var(e.get('r')):
        return {'k': 'int', 'v': d[e['l']['name'] + '#idx']}
    out = dict(e)
    for k in ('l', 'r', 'e'):
        if isinstance(e.get(k), dict):
            out[k] = subst_consts(e[k], K)
    if out.get('k') == 'cast' and isinstance(out.get('e'), dict) and out['e'].get('k') == 'int':
        return out['e']
    if out.get('k') == 'bin' and isinstance(out.get('l'), dict) and isinstance(out.get('r'), dict) and out['l'].get('k') == 'int' and out['r'].get('k') == 'int':
        a_, b_ = out['l']['v'], out['r']['v']
        try:
            v = {'+': a_ + b_, '-': a_ - b_, '*': a_ * b_, '/': (a_ // b_ if b_ else None), '%': (a_ % b_ if b_ else None), '<<': (a_ << b_ if 0 <= b_ < 64 else None), '>>': (a_ >> b_ if 0 <= b_ < 64 else None)}.get(out['op'])
        except Exception:
            v = None
        if v is not None:
            return {'k': 'int', 'v': v}
    return out
