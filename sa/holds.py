"""Hold-counter analyses shared by C02 and C03.

* soft-hold typestate: `soft_holds` moves only on empty <-> non-empty transitions of the
  awaiting mask (`ref_mask`), exactly once per transition, tested on the mask itself.
* hard-hold signatures: `holds++` / `holds--` only on the no-account <-> account and
  +! <-> -! transitions, with mirrored guards.
* gate re-evaluation typestate (DIRTY)."""
import collections

from .facts import AnalysisBroken
from .model import sx, walk, is_var, is_field, const_of, vars_in, root_var, rel, same
from . import rules, core

MASK = 'ref_mask'
SOFT = 'soft_holds'
HARD = 'holds'


def outer_field(e):
    """Outermost member field of an lvalue (through subscripts), or None."""
    while isinstance(e, dict):
        if e.get('k') == 'mem':
            return e['field']
        if e.get('k') == 'idx':
            e = e['base']
        elif e.get('k') == 'un' and e['op'] in ('++', '--', '*'):
            e = e['e']
        else:
            return None
    return None


class FieldWrites(object):
    """May-summary: fields (by name) a function may store to, closed over calls."""

    def __init__(self, P):
        self.P = P
        self.memo = {}

    def own(self, fn):
        out = set()
        # local pointers into a field (`dst = req->account`, `p = &obj->f[2]`): a store through them writes the field
        into = {}
        for s in fn.sites():
            ev = s.ev
            val = ev.get('init') if ev['k'] == 'decl' else ev.get('rhs') if ev['k'] == 'store' and ev.get('op') == '=' else None
            tgt = ev.get('var') if ev['k'] == 'decl' else (ev['lhs']['name'] if ev['k'] == 'store' and is_var(ev.get('lhs')) else None)
            tt = ev.get('t', '') if ev['k'] == 'decl' else ((ev.get('lhs') or {}).get('t', '') if ev['k'] == 'store' else '')
            if tgt and isinstance(val, dict) and '*' in tt and val.get('k') in ('mem', 'bin', 'un'):
                fs = [x['field'] for x in walk(val) if x.get('k') == 'mem' and x.get('arr') is not None]
                if fs:
                    into.setdefault(tgt, set()).add(fs[0])
        for s in fn.sites():
            ev = s.ev
            if ev['k'] == 'store':
                f = outer_field(ev['lhs'])
                if f:
                    out.add(f)
                l = ev.get('lhs') or {}
                if l.get('k') == 'un' and l.get('op') == '*':
                    for x in walk(l.get('e')):
                        if x.get('k') == 'var' and x.get('name') in into:
                            out |= into[x['name']]
                if l.get('k') == 'idx' and is_var(l.get('base')) and l['base']['name'] in into:
                    out |= into[l['base']['name']]
            elif ev['k'] in ('bitset', 'bitclear'):
                f = outer_field(ev.get('set'))
                if f:
                    out.add(f)
            elif ev['k'] == 'call' and ev.get('callee') and not self.P.callees(s, False):
                from .model import EXT_WRITES
                for i in EXT_WRITES.get(ev['callee'], ()):
                    if i < len(ev['args']):
                        for x in walk(ev['args'][i]):
                            if x.get('k') == 'mem':
                                out.add(x['field'])
                            if x.get('k') == 'var' and x.get('name') in into:
                                out |= into[x['name']]
        return out

    def fields(self, fn, stack=()):
        if fn.key in self.memo:
            return self.memo[fn.key]
        if fn.key in stack:
            return set()
        out = set(self.own(fn))
        for s in fn.calls():
            for t in self.P.callees(s, True):
                out |= self.fields(t, stack + (fn.key,))
        self.memo[fn.key] = out
        return out

    def site_writes(self, s, field):
        ev = s.ev
        if ev['k'] == 'store':
            return outer_field(ev['lhs']) == field
        if ev['k'] in ('bitset', 'bitclear'):
            return outer_field(ev.get('set')) == field
        if ev['k'] == 'call':
            for i in self.P.call_written_args(s):
                if i < len(ev['args']) and any(x.get('k') == 'mem' and x['field'] == field for x in walk(ev['args'][i])):
                    return True
            ts = self.P.callees(s, True)
            if ts:
                return any(field in self.fields(t) for t in ts)
        return False


# ---------------------------------------------------------------------------------------
def soft_hold_typestate(P, R, rule):
    fw = FieldWrites(P)
    touched = [f for f in P.fns.values()
               if any(outer_field(s.ev.get('lhs')) in (MASK, SOFT) for s in f.stores() if s.ev['k'] == 'store')]
    n_sites = 0
    for f in sorted(touched, key=lambda x: x.key):
        problems = []

        def mask_rel(r):
            """'z' / 'n' / None knowledge about the whole mask from relation r."""
            l, op, rr = r
            c = const_of(rr)
            if is_field(l, MASK) and c == 0:
                return 'z' if op in ('==', '<=') else ('n' if op in ('!=', '>') else None)
            if isinstance(l, dict) and l.get('k') == 'bin' and l['op'] == '&' and (is_field(l['l'], MASK) or is_field(l['r'], MASK)) and c == 0:
                return 'n' if op in ('!=', '>') else None
            return None

        def on_edge(st, e):
            r = rules.edge_rel(e)
            if r:
                k = mask_rel(r)
                if k:
                    z, i, pend = st
                    if z != 'u' and z != k:
                        return None            # contradicts what is known: infeasible
                    return (k, i, pend)
            return st

        def on_event(st, s, f=f, problems=problems):
            z, i, pend = st
            ev = s.ev
            if ev['k'] == 'store':
                fld = outer_field(ev['lhs'])
                op = ev.get('op')
                if fld == MASK:
                    if op == '|=':
                        if pend == 'p' and z != 'n':
                            problems.append((s, 'a service is awaited again although the release after the previous clear is unresolved'))
                        if not ((z == 'z' and i == 1) or (z == 'n' and i == 0)):
                            why = {('u', 0): 'without testing whether the awaiting mask was empty',
                                   ('z', 0): 'although the mask was empty and no soft hold was taken',
                                   ('n', 1): 'after taking a soft hold although the mask was already non-empty'}.get((z, min(i, 1)),
                                                                                                                  'with %d soft hold(s) taken and mask knowledge %s' % (i, z))
                            problems.append((s, 'a service is marked as awaited %s' % why))
                        return ('n', 0, None)
                    if op == '&=':
                        if i:
                            problems.append((s, 'soft hold taken but no service marked as awaited before the mask is cleared'))
                        return ('u', 0, 'p')
                    problems.append((s, 'awaiting mask written with %s (only |= bit and &= ~bit keep the hold paired)' % op))
                    return ('u', 0, None)
                if fld == SOFT:
                    if op == '++':
                        if z != 'z' or i != 0:
                            problems.append((s, 'soft hold taken %s' % ('although the awaiting mask is known non-empty' if z == 'n'
                                                                         else 'without the awaiting mask having been tested empty' if z == 'u' else 'twice')))
                        return (z, min(i + 1, 2), pend)
                    if op == '--':
                        if pend != 'p' or z != 'z':
                            problems.append((s, 'soft hold released %s' % ('while a service is still awaited' if z == 'n'
                                                                            else 'without a preceding clear of the awaiting mask' if pend != 'p'
                                                                            else 'without testing that the awaiting mask became empty')))
                        return (z, i, 'done')
                    problems.append((s, 'soft hold counter written with %s' % op))
                    return st
            elif ev['k'] == 'call':
                if fw.site_writes(s, MASK) or fw.site_writes(s, SOFT):
                    if i or pend == 'p' and z != 'n':
                        problems.append((s, 'call that moves the holds made in the middle of a take/release step'))
                    # a clear whose outcome has been looked at (the mask is known non-empty: nothing to release) is settled
                    return ('u', 0, 'p' if (pend == 'p' and z != 'n') else None)
            return st

        before, at_exit, sin, bout = f.forward(('u', 0, None), on_event, on_edge)
        for (z, i, pend) in at_exit:
            if pend == 'p' and z != 'n':
                problems.append((None, 'an awaited service was cleared and the function can return without %s'
                                 % ('releasing the soft hold although the mask became empty' if z == 'z' else 'testing whether the mask became empty')))
            if i:
                problems.append((None, 'a soft hold is taken on a path that never marks a service as awaited'))
        bysite = collections.defaultdict(list)
        for s, msg in problems:
            bysite[s.key if s is not None else None].append(msg)
        for s in f.stores():
            if s.ev['k'] != 'store':
                continue
            fld = outer_field(s.ev['lhs'])
            if fld not in (MASK, SOFT):
                continue
            n_sites += 1
            msgs = sorted(set(bysite.get(s.key, [])))
            R.ob(rule, not msgs, s, ('%s %s: paired with the empty <-> non-empty transition of the awaiting mask' % (sx(s.ev['lhs']), s.ev.get('op')))
                 if not msgs else '; '.join(msgs), key='%s%s' % (fld, s.ev.get('op')))
        if None in bysite:
            for m in sorted(set(bysite[None])):
                R.ob(rule, False, f, m, key='exit:' + m.split(' and ')[0][:40])
    R.floor(rule, 5, 'stores to %s / %s' % (MASK, SOFT))
    return n_sites


def refs_discipline(P, R, rule):
    """The per-service reference count keeps a service alive while any client awaits it: the counter
    moves only by ++/--; every path that marks a service as awaited (`ref_mask |= bit`) takes a
    reference since the previous mask update; every clear of an awaited bit is followed by exactly one
    release before the function returns."""
    n = 0
    for f in sorted(P.fns.values(), key=lambda x: x.key):
        touches = [s for s in f.stores() if s.ev['k'] == 'store' and outer_field(s.ev['lhs']) in ('refs', MASK)]
        if not touches:
            continue
        for s in touches:
            if outer_field(s.ev['lhs']) == 'refs':
                n += 1
                R.ob(rule, s.ev.get('op') in ('++', '--'), s, 'the service reference count moves by a relative step (found %s): an absolute store lets a service that clients still await be freed'
                     % s.ev.get('op'), key='refs:%s' % s.ev.get('op'), nontrivial=False)
        if not any(outer_field(s.ev['lhs']) == MASK for s in touches):
            continue

        def on_event(st, s):
            taken, pend = st
            ev = s.ev
            if ev['k'] == 'store':
                fld, op = outer_field(ev['lhs']), ev.get('op')
                if fld == 'refs' and op == '++':
                    return (min(taken + 1, 2), pend)
                if fld == 'refs' and op == '--':
                    return (taken, 'done' if pend == 'p' else pend)
                if fld == MASK and op == '|=':
                    return (0, pend)
                if fld == MASK and op == '&=':
                    return (taken, 'p')
            return st
        def mask_test(l):
            return isinstance(l, dict) and l.get('k') == 'bin' and l.get('op') == '&' and outer_field(l.get('l')) == MASK

        def on_edge(st, e):
            # the awaited bit found set already: the client holds its reference on the service from the earlier query
            r = e.rel()
            if r and mask_test(r[0]) and r[1] == '!=' and const_of(r[2]) == 0:
                return (max(st[0], 1), st[1])
            return st
        before, at_exit, sin, bout = f.forward((0, None), on_event, on_edge)
        # one reference per client and service: the reply that clears the bit gives back one, so a second one counted
        # under a bit that is already set (the same service asked again before it answered) is never given back and the
        # service, once retired, is kept for ever
        for s in touches:
            if outer_field(s.ev['lhs']) == 'refs' and s.ev.get('op') == '++':
                n += 1
                gs = f.guards(s.bid)
                ok = any(mask_test(g[0]) and g[1] == '==' and const_of(g[2]) == 0 for g in gs)
                R.ob(rule, ok, s, 'a reference on a service is counted only where the client\'s awaited bit for it is clear (one reference per bit: the reply that clears the bit gives back one)', key='ref-once')
        for s in touches:
            if outer_field(s.ev['lhs']) != MASK:
                continue
            n += 1
            if s.ev.get('op') == '|=':
                sts = before.get(s.key, set())
                ok = bool(sts) and all(t >= 1 for t, p in sts)
                if not ok:
                    # or right after: every path onwards takes the reference before anything else can happen
                    def takes(t):
                        return t.ev['k'] == 'store' and outer_field(t.ev['lhs']) == 'refs' and t.ev.get('op') == '++'
                    ok = f.path_avoiding(s, takes) is None
                R.ob(rule, ok, s, 'a service marked as awaited holds a reference taken on the same path (so it cannot be freed under the client)', key='await->ref')
            elif s.ev.get('op') == '&=':
                def rel(t):
                    return t.ev['k'] == 'store' and outer_field(t.ev['lhs']) == 'refs' and t.ev.get('op') == '--'
                p = f.path_avoiding(s, rel)
                ok = p is None
                if not ok and s.bid not in f.reach([e.dst for e in f.out[s.bid]]):
                    # the reference may be given back just BEFORE the bit is cleared: what matters is that every path
                    # through the function gives back as many references as it clears bits (counted below, per path)
                    def ev3(st, t):
                        d, c = st
                        if t.ev['k'] == 'store':
                            fld, op = outer_field(t.ev['lhs']), t.ev.get('op')
                            if fld == 'refs' and op == '--':
                                return (min(d + 1, 3), c)
                            if fld == MASK and op == '&=':
                                return (d, min(c + 1, 3))
                        return st
                    _, ex3, _, _ = f.forward((0, 0), ev3, None)
                    ok = bool(ex3) and all(d == c for d, c in ex3)
                R.ob(rule, ok, s, 'a cleared awaited bit gives its reference back before the function returns', key='clear->unref')
    # ... exactly one: along every path through a function that clears awaited bits, releases and clears come in equal
    # numbers (a second release for one clear frees a service another client still awaits)
    for f in sorted(P.fns.values(), key=lambda x: x.key):
        clears = [s for s in f.stores() if s.ev['k'] == 'store' and outer_field(s.ev['lhs']) == MASK and s.ev.get('op') == '&=']
        if not clears or any(s.bid in f.reach([e.dst for e in f.out[s.bid]]) for s in clears):
            continue        # clears inside a loop are counted per iteration by the rule above

        def on_event2(st, s):
            d, c = st
            ev = s.ev
            if ev['k'] == 'store':
                fld, op = outer_field(ev['lhs']), ev.get('op')
                if fld == 'refs' and op == '--':
                    return (min(d + 1, 3), c)
                if fld == MASK and op == '&=':
                    return (d, min(c + 1, 3))
            return st
        _, at_exit2, _, _ = f.forward((0, 0), on_event2, None)
        n += 1
        bad = sorted({st for st in at_exit2 if st[0] != st[1]})
        R.ob(rule, not bad, clears[0], 'on every path through %s the number of references given back equals the number of awaited bits cleared%s' % (f.name, (' (releases, clears) = %s' % bad) if bad else ''),
             key='unref-once:%s' % f.name)
    R.floor(rule, 6, 'stores to the reference count and the awaiting mask')
    return n


# ---------------------------------------------------------------------------------------
def _position_class(f, pos_bid, pos_idx, writers):
    """'before' if no writer can execute before the position, 'after' if every path to it
    passes a writer, 'const' if there are no writers, else 'mixed'."""
    if not writers:
        return 'const'
    def precedes(w):
        if w.bid == pos_bid:
            if pos_idx is None or w.idx < pos_idx:
                return True
            # later in the same block: only via a loop
            return pos_bid in f.reach([e.dst for e in f.out[w.bid]])
        return pos_bid in f.reach([w.bid])
    any_before = any(precedes(w) for w in writers)
    if not any_before:
        return 'before'
    wb = {w.bid for w in writers if w.bid != pos_bid}
    same_block_earlier = any(w.bid == pos_bid and (pos_idx is None or w.idx < pos_idx) for w in writers)
    if same_block_earlier or pos_bid not in f.reach([f.entry], cut_blocks=wb):
        return 'after'
    return 'mixed'


def text_setter_terminators(setter):
    """Characters at which a copy loop over the second parameter of `setter` stops (the text it stores ends there)."""
    if len(setter.params) < 2:
        return set()
    src = setter.params[1]
    terms = set()
    for b in setter.blocks.values():
        c = (b.get('term') or {}).get('cond')
        for x in walk(c) if c is not None else ():
            if isinstance(x, dict) and x.get('k') == 'bin' and x.get('op') in ('!=', '=='):
                for a, o in ((x.get('l'), x.get('r')), (x.get('r'), x.get('l'))):
                    if isinstance(a, dict) and a.get('k') in ('idx', 'un') and root_var(a) is not None and is_var(root_var(a), src) and isinstance(const_of(o), int):
                        terms.add(const_of(o))
    return terms


def setter_arg_missing(f, s, terms):
    """For the call s = setter(req, text): the terminators that the dominating guards do NOT rule out for the first
    character of `text` (empty list: the stored text is known to be non-empty); None if the argument has no
    recognisable first character."""
    a = s.ev['args'][1] if len(s.ev['args']) > 1 else None
    if not isinstance(a, dict):
        return None
    if a.get('k') == 'bin' and a.get('op') == '+' and is_var(a.get('l')) and isinstance(const_of(a.get('r')), int):
        base, off = a['l']['name'], const_of(a['r'])
    elif is_var(a):
        base, off = a['name'], 0
    else:
        return None

    def first_char(e):
        if not isinstance(e, dict):
            return False
        if e.get('k') == 'idx' and is_var(e.get('base'), base) and const_of(e.get('index')) == off:
            return True
        return e.get('k') == 'un' and e.get('op') == '*' and off == 0 and is_var(e.get('e'), base)
    gs = f.guards(s.bid)
    return [c for c in sorted(terms) if not any(first_char(g[0]) and ((g[1] == '!=' and const_of(g[2]) == c) or (g[1] == '==' and isinstance(const_of(g[2]), int) and const_of(g[2]) != c)) for g in gs)]


def hard_hold_sites(P, R, rule):
    """Every holds++ / holds-- site carries one of the three transition signatures."""
    fw = FieldWrites(P)
    n = 0
    for f in sorted(P.fns.values(), key=lambda x: x.key):
        sites = [s for s in f.stores() if s.ev['k'] == 'store' and outer_field(s.ev['lhs']) == HARD and is_field(s.ev['lhs'], HARD, core.REQ_REC)]
        if not sites:
            continue
        mode_w = [s for s in f.sites() if fw.site_writes(s, 'modes')]
        acct_w = [s for s in f.sites() if fw.site_writes(s, 'account')]
        for s in sites:
            n += 1
            op = s.ev.get('op')
            if op not in ('++', '--'):
                R.ob(rule, False, s, 'hard hold counter written with %s' % op, key='holds%s' % op)
                continue
            facts = []   # (kind, value, timing)
            for e in f.dominating_edges(s.bid):
                r = rules.edge_rel(e)
                if r is None:
                    continue
                l, o, rr = r
                if const_of(rr) != 0 and not (isinstance(l, dict) and l.get('k') == 'idx'):
                    continue
                truth = {'!=': True, '==': False}.get(o)
                expr, bid, idx = l, e.src, None
                if is_var(l) and truth is not None:
                    d = f.single_def(l['name'])
                    if d:
                        expr, bid, idx = d[1], d[0].bid, d[0].idx
                # expr may itself be a comparison (no_account = account[0] == 0)
                er = rel(expr, True) if truth is not None else (l, o, rr)
                if truth is False:
                    er = rel(expr, False)
                el, eo, err = er
                if isinstance(el, dict) and el.get('k') == 'bittest' and el.get('bit') == 'IAUTH_XQUERY_HIDDEN_ONLY' and const_of(err) == 0:
                    facts.append(('HO', eo == '!=', _position_class(f, bid, idx, mode_w)))
                elif isinstance(el, dict) and el.get('k') == 'idx' and is_field(el['base'], 'account') and const_of(el['index']) == 0 and const_of(err) == 0:
                    facts.append(('ACCT_NONEMPTY', eo == '!=', _position_class(f, bid, idx, acct_w)))
            fs = set(facts)
            # the stamp is known to be non-empty after a setter call whose text starts with a character the setter keeps
            if ('ACCT_NONEMPTY', True, 'after') not in fs:
                for w in acct_w:
                    if w.ev['k'] != 'call' or not (w.bid == s.bid and w.idx < s.idx or (w.bid != s.bid and f.dominates(w.bid, s.bid))):
                        continue
                    for t in P.callees(w, False):
                        terms = text_setter_terminators(t)
                        if terms and setter_arg_missing(f, w, terms) == []:
                            fs.add(('ACCT_NONEMPTY', True, 'after'))
            take = {('HO', True, 'after'), ('HO', False, 'before')} <= fs and any(k == 'ACCT_NONEMPTY' and v is False and t in ('const', 'before') for k, v, t in fs)
            rel_mode = {('HO', False, 'after'), ('HO', True, 'before')} <= fs and any(k == 'ACCT_NONEMPTY' and v is False and t in ('const', 'before') for k, v, t in fs)
            rel_acct = (any(k == 'HO' and v is True and t in ('const', 'after') for k, v, t in fs)
                        and ('ACCT_NONEMPTY', False, 'before') in fs and ('ACCT_NONEMPTY', True, 'after') in fs)
            ok = (op == '++' and take) or (op == '--' and (rel_mode or rel_acct))
            want = ('+! newly requested (set now, clear before) and no account' if op == '++'
                    else '+! withdrawn (clear now, set before) with no account, or +! set and account empty before / non-empty after the stamp')
            R.ob(rule, ok, s, 'holds%s guarded by its transition: %s (guards found: %s)' % (op, want, sorted(fs)), key='holds%s' % op)
    # the client's mode set and the hard hold move together: once the set has been written, every path to the function's
    # exit passes the test of the +! bit that decides the transition (a mode set updated on a path that returns early
    # leaves "+! requested" without its hold, and the next PASS sees no transition either)
    for f in sorted(P.fns.values(), key=lambda x: x.key):
        if not any(outer_field(s.ev['lhs']) == HARD for s in f.stores() if s.ev['k'] == 'store'):
            continue
        ws = [s for s in f.sites() if fw.site_writes(s, 'modes') and (s.ev['k'] != 'call' or not any(t.unit.startswith('modules/') for t in P.callees(s, False)))]
        if not ws:
            continue

        def reads_bit(t):
            for ex in rules.event_exprs(t.ev):
                for x in walk(ex):
                    if x.get('k') == 'bittest' and x.get('bit') == 'IAUTH_XQUERY_HIDDEN_ONLY':
                        return True
            return False
        for s in ws:
            ok = f.path_avoiding(s, reads_bit) is None
            if not ok:
                # the bit may be read in a branch condition: blocks whose terminator tests it
                tests = {b for b in f.blocks if f.term_cond(b) is not None and any(x.get('k') == 'bittest' and x.get('bit') == 'IAUTH_XQUERY_HIDDEN_ONLY' for x in walk(f.term_cond(b)))}
                cut = f.reach([e.dst for e in f.out[s.bid]], cut_blocks=list(tests))
                ok = bool(tests) and f.exit not in cut
            n += 1
            R.ob(rule, ok, s, 'after the client\'s mode set is written every path evaluates the +! transition before the function returns', key='modes-then-transition')
    R.floor(rule, 3, 'stores to the hard hold counter')
    return n


# ---------------------------------------------------------------------------------------
class Dirty(object):
    """Gate re-evaluation typestate.  Summary S_f: in-state -> set of out-states over
    {clean, dirty}; the gate, verdict functions and the removal of a request are cleaning."""
    DATA_SKIP = {'IAUTH_RESPONDED', 'IAUTH_SOFT_DONE'}

    def __init__(self, P):
        self.P = P
        acc, gates = core.gate(P)
        self.clean_fns = set(gates) | set(core.verdict_fns(P))
        self.retire = core.retire_pred(P)
        self.S = {}
        self.witness = {}
        self._fix()

    def enabling(self, s):
        ev = s.ev
        if ev['k'] == 'bitset' and core.is_req_flags(ev.get('set')) and ev.get('bit') not in self.DATA_SKIP:
            return 'sets %s' % ev.get('bit')
        if ev['k'] == 'call' and ev.get('callee') in ('bitset_or', 'bitset_set') and ev['args'] and any(core.is_req_flags(x) for x in walk(ev['args'][0])):
            return 'ORs bits into the request flags'
        if ev['k'] == 'store' and is_field(ev.get('lhs'), HARD, core.REQ_REC) and ev.get('op') != '++':
            return 'lowers the hard hold (%s)' % ev.get('op')
        if ev['k'] == 'store' and is_field(ev.get('lhs'), SOFT, core.REQ_REC) and ev.get('op') != '++':
            return 'lowers the soft hold (%s)' % ev.get('op')
        return None

    def _run(self, f, init):
        P = self

        def on_event(st, s):
            ev = s.ev
            if self.enabling(s):
                return 'dirty'
            if ev['k'] == 'call':
                if self.retire(s):
                    return 'clean'
                ts = self.P.callees(s, True)
                if not ts:
                    return st
                outs = set()
                for t in ts:
                    if t.key in self.clean_fns:
                        outs.add('clean')
                    elif t.key not in self.S:
                        outs.add(st)          # core/library code never touches a request
                    else:
                        outs |= self.S[t.key].get(st, set())
                return sorted(outs) if outs else None
            return st
        before, at_exit, sin, bout = f.forward(init, on_event, None)
        return set(at_exit)

    def _fix(self):
        fns = [f for f in self.P.fns.values() if f.unit.startswith('modules/') and f.key not in self.clean_fns]
        for f in fns:
            self.S[f.key] = {'clean': set(), 'dirty': set()}
        changed = True
        rounds = 0
        while changed:
            changed = False
            rounds += 1
            if rounds > 50:
                raise AnalysisBroken('DIRTY summaries do not converge')
            for f in fns:
                for init in ('clean', 'dirty'):
                    out = self._run(f, init)
                    if out - self.S[f.key][init]:
                        self.S[f.key][init] |= out
                        changed = True

    def is_dirty(self, f):
        if f.key in self.clean_fns:
            return False
        return 'dirty' in self.S.get(f.key, {}).get('clean', set())

    def explain(self, f, depth=0):
        """A human-readable reason why f is dirty: the enabling event that is not followed by a re-evaluation."""
        for s in f.sites():
            why = self.enabling(s)
            if why:
                # is there a path from s to exit avoiding cleaning?
                def cleaning(t):
                    if t.ev['k'] != 'call':
                        return False
                    if self.retire(t):
                        return True
                    ts = self.P.callees(t, True)
                    return bool(ts) and all((u.key in self.clean_fns) or self.S.get(u.key, {}).get('dirty') == {'clean'} for u in ts)
                p = f.path_avoiding(s, cleaning)
                if p is not None:
                    return '%s at %s and can return without re-evaluating the gate' % (why, s.loc)
            if s.ev['k'] == 'call' and depth < 4:
                for t in self.P.callees(s, True):
                    if t.key not in self.clean_fns and 'dirty' in self.S.get(t.key, {}).get('clean', set()):
                        def cleaning2(u):
                            if u.ev['k'] != 'call':
                                return False
                            if self.retire(u):
                                return True
                            ts = self.P.callees(u, True)
                            return bool(ts) and all((x.key in self.clean_fns) or self.S.get(x.key, {}).get('dirty') == {'clean'} for x in ts)
                        if f.path_avoiding(s, cleaning2) is not None:
                            return 'calls %s at %s, which %s' % (t.name, s.loc, self.explain(t, depth + 1))
        return 'has a path from an enabling event to its exit without re-evaluation'
