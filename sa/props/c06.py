"""C06 - queries are timely and carry the client's own data.

Decided: the per-protocol prerequisite table; every query send is dominated by its
prerequisites and every skip in the builder loop has a documented reason; the builder is wired
to every data event after the field is stored; arguments of CHECK/LOGIN/LOGIN2 are bound to the
client's own fields; every copy of server data is bounded; the password shape gate.  Not
decided: the ~ marking and truncation *values* (string contents)."""
from ..facts import AnalysisBroken
from ..model import sx, walk, is_var, is_field, const_of, vars_in, root_var, same, on_path, rel
from .. import rules, core, holds, bnd

EXPLANATION = (
    'Rules: (TAB.1) the prerequisite sets computed by interpreting the constructor\'s bit operations on the '
    'per-protocol table equal the documented ones, the table\'s extent equals the protocol enum and the '
    'protocol names spell the enumerators; (GRD.1) a finite dataflow over the builder loop with the atoms '
    'slot non-null, configured, prerequisites satisfied, not-yet-sent, password-event, not-dronecheck, '
    'password non-empty and protocol class shows that each query send is reached only when its conditions '
    'hold, and every edge that skips a service carries one of the documented reasons; (WIRE.1) the builder '
    'is the field_change slot, is reached on all paths from the user_info slot and through the shape gate '
    'from the password slot; each core handler broadcasts the slot of its message after every field store '
    'and flag set, and the user-info handler completes a blank ident before notifying; (FMT.1) CHECK, LOGIN '
    'and LOGIN2 arguments are bound to the request\'s nickname, user name buffer, address text, host-or-'
    'address, real name and the stored password, the user name buffer being filled only from the ident or '
    'the claimed name; (BND.1) every copy sink on the input path matches a bounded idiom; (GRD.2) the '
    'password is stored and forwarded only after the mode-prefix test and the account/password separator '
    'test; (WMC.1) queries are sent only by the builder and the MORE path.  String contents are not decided.'
    ' Rounds 8-9: (MPT.4) a slot that changes hands forgets its per-client bits - eagerly, or lazily by epochs with every look at a mask reached only on an up-to-date client; (COPY.1/MPT.5/MPT.6) shared: the parser\'s group move, merge change tracking, required-data mask; (BND.6) the program\'s own strlcpy keeps its contract.'
    " Hunt round 1: (GRD.2) a password - not only blanks - follows the account; (GRD.8) an empty ident does not make the user name known; (MPT.7) a store of a service's protocol is on a freshly stamped entry or re-stamps it where the protocol differs.")
ASSUMPTIONS = ['clang 14 CFG; the module constructor is straight-line code', 'documented prerequisite table from the property statement and the header comment of iauth_xquery.c']

EXPECTED = {
    'LOGIN': {'IAUTH_GOT_PASSWORD'},
    'LOGIN_IPR': {'IAUTH_GOT_HOSTNAME', 'IAUTH_GOT_IDENT', 'IAUTH_GOT_PASSWORD'},
    'DRONECHECK': {'IAUTH_GOT_HOSTNAME', 'IAUTH_GOT_IDENT', 'IAUTH_GOT_NICK', 'IAUTH_GOT_USER_INFO'},
    'COMBINED': {'IAUTH_GOT_HOSTNAME', 'IAUTH_GOT_IDENT', 'IAUTH_GOT_NICK', 'IAUTH_GOT_USER_INFO'},
}
TABLE = 'iauth_xquery_flags'
UNIT = 'modules/iauth_xquery.c'
LETTER_SLOT = {'N': 'field_change', 'd': 'field_change', 'u': 'field_change', 'n': 'field_change', 'H': 'field_change',
               'U': 'user_info', 'P': 'password'}


def builder(P):
    xq = P.need_fn('iauth_x_query')
    b = None
    for s in P.callers(xq, may=True):
        fmt = rules.fmt_literal(s.ev, 2) or ''
        if fmt.startswith('CHECK'):
            b = s.fn
    if b is None:
        raise AnalysisBroken('no function sends a CHECK query any more')
    return xq, b


def table_index(e):
    """iauth_xquery_flags[T].bits / iauth_xquery_flags[T] -> T (enumerator name) or None."""
    for x in walk(e):
        if x.get('k') == 'idx' and is_var(x['base'], TABLE) and x['index'].get('k') == 'enum':
            return x['index']['name']
    return None


def prereq_table(P, R):
    ctor = P.need_fn('module_constructor', UNIT)
    tab = {}
    order = sorted(ctor.sites(), key=lambda s: (s.line, s.idx))
    # straight-line: interpret in block order from the entry
    seq = []
    b = ctor.entry
    seen = set()
    while b is not None and b not in seen:
        seen.add(b)
        seq.extend(ctor.block_sites(b))
        outs = ctor.out[b]
        b = outs[0].dst if len(outs) == 1 else None
    for s in seq:
        ev = s.ev
        if ev['k'] == 'call' and ev.get('callee') == 'bitset_set' and ev['args']:
            t = table_index(ev['args'][0])
            if t:
                tab.setdefault(t, set()).update(a['name'] for a in ev['args'][1:] if a.get('k') == 'enum')
        elif ev['k'] == 'call' and ev.get('callee') == 'bitset_or' and ev['args']:
            t = table_index(ev['args'][0])
            if t:
                tab[t] = set(tab.get(table_index(ev['args'][1]), set())) | set(tab.get(table_index(ev['args'][2]), set()))
        elif ev['k'] == 'call' and ev.get('callee') == 'bitset_clear' and ev['args']:
            t = table_index(ev['args'][0])
            if t:
                tab.setdefault(t, set()).difference_update(a['name'] for a in ev['args'][1:] if a.get('k') == 'enum')
        elif ev['k'] in ('bitset', 'bitclear'):
            t = table_index(ev.get('set'))
            if t:
                (tab.setdefault(t, set()).add if ev['k'] == 'bitset' else tab.setdefault(t, set()).discard)(ev.get('bit'))
    for t, want in EXPECTED.items():
        R.ob('C06.TAB.1', tab.get(t) == want, ctor, 'protocol %s needs %s (constructor computes %s)' % (t, sorted(want), sorted(tab.get(t, []))), key='prereq:%s' % t)
    enum = [c['name'] for c in P.enums.get('iauth_xquery_type', [])]
    g = P.global_def(TABLE, UNIT)
    R.ob('C06.TAB.1', bool(g) and g[1].get('array') == len(enum) == len(EXPECTED), ctor,
         'the prerequisite table has one entry per protocol (extent %s, enum %s)' % (g[1].get('array') if g else None, enum), key='prereq:extent', nontrivial=False)
    tn = P.global_def('type_names', UNIT)
    names = [x.get('v') for x in (tn[1].get('init') or {}).get('items', [])] if tn else []
    R.ob('C06.TAB.1', names == [e.lower().replace('_', '-') for e in enum], ctor, 'protocol names %s spell the enumerators %s in order' % (names, enum), key='type-names', nontrivial=False)
    R.floor('C06.TAB.1', 6)


def no_flag_keyed_exit(P, R, b, rule='C06.GRD.3'):
    """The builder looks at every service on every data event: what kind of event it was only decides whether a
    password-consuming service is asked again, never whether the builder runs at all - no return of the builder is
    control-dependent on the event flag."""
    if len(b.params) < 2:
        return
    flagp = b.params[1]
    n = 0
    for s in b.sites():
        if s.ev['k'] != 'ret':
            continue
        n += 1
        keyed = [g for g in b.guards(s.bid) if is_var(g[0], flagp)]
        R.ob(rule, not keyed, s, 'the builder does not leave early because of the kind of event%s' % ((' (returns under %s %s %s)' % (sx(keyed[0][0]), keyed[0][1], sx(keyed[0][2]))) if keyed else ''), key='flag-keyed-return')
    R.floor(rule, 1)


def query_capacity(P, R, xq, b, rule='C06.BND.5'):
    """A query is sent whole: the buffer the query text is formatted into holds the longest text any caller can
    produce - the literal parts of its format plus the capacities of the fields and buffers it inserts."""
    from .. import bnd
    import re as _re

    def cap(fn, a, depth=0):
        """longest string an argument can denote, or None"""
        if not isinstance(a, dict) or depth > 3:
            return None
        if a.get('k') in ('mem', 'var') and a.get('arr') is not None and a.get('elsz', 1) == 1:
            return a['arr'] - 1
        if a.get('k') == 'str':
            return len(a['v'])
        if a.get('k') == 'cond':
            x, y = cap(fn, a.get('t'), depth + 1), cap(fn, a.get('f'), depth + 1)
            return None if x is None or y is None else max(x, y)
        if is_var(a) and a.get('sc') == 'local':
            ws = []
            for d in fn.local_defs(a['name']):
                w = cap(fn, d.ev.get('rhs') or d.ev.get('init'), depth + 1)
                if w is None:
                    return None
                ws.append(w)
            return max(ws) if ws else None
        return None
    bufs = [s for s in xq.sites() if s.ev['k'] == 'decl' and s.ev.get('array') and s.ev.get('t', '').startswith('char[')]
    fmts = [s for s in xq.calls() if s.ev.get('callee') in ('vsnprintf', 'vsprintf')]
    if not bufs or not fmts:
        R.note('%s: the query sender does not format into a local buffer; not judged' % rule)
        return
    ext = max(s.ev['array'] for s in bufs)
    n = 0
    for s in b.calls():
        if xq not in P.callees(s, False):
            continue
        fmt = rules.fmt_literal(s.ev, 2)
        if not fmt:
            continue
        total, ai, ok = 0, 3, True
        for m in _re.finditer(r'%[-+ #0]*\d*(?:\.\d+)?(?:hh|h|l|ll|z)?([diuxXcs%])|.', fmt, _re.S):
            if not m.group(0).startswith('%') or len(m.group(0)) == 1:
                total += 1
                continue
            conv = m.group(1)
            if conv == '%':
                total += 1
                continue
            a = s.ev['args'][ai] if ai < len(s.ev['args']) else None
            ai += 1
            w = cap(b, a) if conv == 's' else (11 if conv in 'di' else 10 if conv in 'uxX' else 1)
            if w is None:
                ok = False
                break
            total += w
        n += 1
        R.ob(rule, ok and total + 1 <= ext, s, 'the %s query fits the query buffer: at most %s bytes and the terminator, buffer %d' % (fmt.split()[0], total if ok else '?', ext), key='query-capacity:%s' % fmt.split()[0])
    R.floor(rule, 3, 'query formats')


def more_answered_once(P, R, xq, rule='C06.MPT.3'):
    """The answer to a MORE challenge goes to the challenging service once: on every path on from the query that forwards
    it, the slot's bit in the "challenge open" mask is cleared.  A bit left set turns the client's next PASS - fresh
    credentials with their own mode prefix - into another challenge answer."""
    n = 0
    for f in P.unit_fns(UNIT):
        for s in f.calls():
            if xq not in P.callees(s, False):
                continue
            fmt = rules.fmt_literal(s.ev, 2) or ''
            if not fmt.startswith('MORE'):
                continue

            def clears(t):
                return t.ev['k'] == 'store' and holds.outer_field(t.ev['lhs']) == 'more_mask' and t.ev.get('op') in ('&=', '=')
            n += 1
            R.ob(rule, f.path_avoiding(s, clears) is None, s, 'forwarding the answer to a MORE challenge clears the slot\'s challenge bit on every path', key='more-cleared')
    R.floor(rule, 1)


def lazily_forgotten(P, m, reuse):
    """The lazy form of "a re-assigned slot's bits are forgotten": services and clients carry a stamp; a new service gets
    a fresh one (a static counter, pre-incremented); wherever a client's mask m is looked at, the client has first been
    brought up to date - the slot bits of every service stamped later than the client are cleared and the client takes
    the counter's value.  Returns None when the unit has no such clearing walk, else (ok, text, site)."""
    REC = 'iauth_xquery_client'
    # clearing walks: `cli->m &= ...` inside a loop, under a test that mentions a member of the service record and a
    # member of the client record (the two stamps)
    walks = []

    def members(f, side, depth=0):
        """(record, field) of the members a guard side mentions, looking through locals that hold a copy of one"""
        out = []
        for x in walk(side):
            if x.get('k') == 'mem':
                out.append((x.get('rec'), x.get('field')))
            elif x.get('k') == 'var' and x.get('sc') == 'local' and depth < 2:
                sd = f.single_def(x['name'])
                if sd and isinstance(sd[1], dict) and sd[1].get('k') == 'mem':
                    out.append((sd[1].get('rec'), sd[1].get('field')))
        return out
    for f in P.unit_fns(UNIT):
        for s in f.stores():
            ev = s.ev
            if not (ev['k'] == 'store' and ev.get('op') == '&=' and ev['lhs'].get('k') == 'mem' and ev['lhs'].get('field') == m and ev['lhs'].get('rec') == REC):
                continue
            # the walk: this store itself inside the loop, or - the stale slots being collected into a local first and the
            # mask cleared once - the store that adds a slot's bit to that local
            sites = [s] if s.bid in f.reach([e.dst for e in f.out[s.bid]]) else []
            if not sites:
                accs = {x['name'] for x in walk(ev.get('rhs') or {}) if x.get('k') == 'var' and x.get('sc') == 'local'}
                sites = [t for t in f.stores() if t.ev['k'] == 'store' and t.ev.get('op') == '|=' and is_var(t.ev.get('lhs')) and t.ev['lhs']['name'] in accs
                         and any(isinstance(x, dict) and x.get('k') == 'bin' and x.get('op') == '<<' for x in walk(t.ev.get('rhs') or {})) and t.bid in f.reach([e.dst for e in f.out[t.bid]])]
            for w in sites:
                for g in f.guards(w.bid):
                    fs = [mf for side in (g[0], g[2]) if isinstance(side, dict) for mf in members(f, side)]
                    es = [fl for r_, fl in fs if r_ == 'iauth_xquery_service']
                    ec = [fl for r_, fl in fs if r_ == REC]
                    if es and ec and es[0] not in ('refs', 'configured', 'type'):
                        walks.append((f, w, es[0], ec[0]))
    if not walks:
        return None
    f0, s0, e_s, e_c = walks[0]
    if any((w[2], w[3]) != (e_s, e_c) for w in walks):
        return (False, 'the clearing walks compare different stamps', s0)
    # the counter: the static object the client's stamp is set from
    counters = set()
    for f in P.unit_fns(UNIT):
        for s in f.stores():
            ev = s.ev
            if ev['k'] == 'store' and ev.get('op') == '=' and ev['lhs'].get('k') == 'mem' and ev['lhs'].get('field') == e_c and ev['lhs'].get('rec') == REC and is_var(ev.get('rhs')) and ev['rhs'].get('sc') not in ('local', 'param'):
                counters.add(ev['rhs']['name'])
    if len(counters) != 1:
        return (False, 'the client stamp %s is not set from one static counter (%s)' % (e_c, sorted(counters)), s0)
    G = sorted(counters)[0]
    # (a) a service that takes a slot gets a fresh stamp: the store of the new record into the table is dominated by
    #     (or in the block of) a store `srv->stamp = ++G`
    for r in reuse:
        f = r.fn
        fresh = [t for t in f.stores() if t.ev['k'] == 'store' and t.ev.get('op') == '=' and t.ev['lhs'].get('k') == 'mem' and t.ev['lhs'].get('field') == e_s
                 and isinstance(t.ev.get('rhs'), dict) and t.ev['rhs'].get('k') == 'un' and t.ev['rhs'].get('op') in ('++', 'pre++') and is_var(t.ev['rhs'].get('e'), G)]
        if not fresh:
            # `++G; srv->stamp = G;`
            incs = [t for t in f.stores() if t.ev['k'] == 'store' and t.ev.get('op') in ('++', '+=') and is_var(t.ev.get('lhs'), G)]
            fresh = [t for t in f.stores() if t.ev['k'] == 'store' and t.ev.get('op') == '=' and t.ev['lhs'].get('k') == 'mem' and t.ev['lhs'].get('field') == e_s and is_var(t.ev.get('rhs'), G)
                     and any(i.bid == t.bid and i.idx < t.idx or (i.bid != t.bid and f.dominates(i.bid, t.bid)) for i in incs)]
        if not any(t.bid == r.bid or f.dominates(t.bid, r.bid) for t in fresh):
            return (False, 'the service put into a slot at %s does not get a fresh stamp (%s = ++%s) first' % (r.loc, e_s, G), r)
    # (b) every look at the mask happens on an up-to-date client: on every path from the entry to the read either the
    #     edge "stamp == counter" was taken or the stamp was set to the counter after a clearing walk
    nreads = 0
    for f in P.unit_fns(UNIT):
        reads = []
        for s in f.sites():
            for ex in rules.event_exprs(s.ev):
                lhs = s.ev.get('lhs') if s.ev['k'] == 'store' else None
                for x in walk(ex):
                    if x.get('k') == 'mem' and x.get('field') == m and x.get('rec') == REC and x is not lhs:
                        reads.append(s.bid)
        for bid, b_ in f.blocks.items():
            c = (b_.get('term') or {}).get('cond')
            if c is not None and any(x.get('k') == 'mem' and x.get('field') == m and x.get('rec') == REC for x in walk(c)):
                reads.append(bid)
        if not reads:
            continue
        sync_blocks = {t.bid for t in f.stores() if t.ev['k'] == 'store' and t.ev.get('op') == '=' and t.ev['lhs'].get('k') == 'mem' and t.ev['lhs'].get('field') == e_c and t.ev['lhs'].get('rec') == REC and is_var(t.ev.get('rhs'), G)}
        cut = []
        for bid in f.blocks:
            for e in f.out[bid]:
                r_ = rules.edge_rel(e)
                def is_stamp(x, f=f):
                    if is_field(x, e_c):
                        return True
                    if is_var(x) and x.get('sc') == 'local':
                        sd = f.single_def(x['name'])
                        return bool(sd) and is_field(sd[1], e_c)
                    return False
                if r_ and r_[1] == '==' and ((is_stamp(r_[0]) and is_var(r_[2], G)) or (is_var(r_[0], G) and is_stamp(r_[2]))):
                    cut.append(e)
        # the clearing walk itself reads nothing but the stamps; its own `&=` are not looks
        walk_blocks = {w[1].bid for w in walks if w[0] is f}
        entry = f.entry if hasattr(f, 'entry') else min(f.blocks)
        seen = f.reach([entry], cut_edges=cut, cut_blocks=sync_blocks)
        for bid in set(reads) - walk_blocks:
            nreads += 1
            if bid in seen and bid not in sync_blocks:
                return (False, '%s looks at %s on a path on which the client was not brought up to date' % (f.name, m), f.blocks[bid].get('loc') and None)
    if not nreads:
        return (False, 'no look at %s found' % m, s0)
    return (True, 'services carry %s (fresh from %s when a slot is taken), clients %s; %d look(s) at the mask, each after the client was brought up to date' % (e_s, G, e_c, nreads), s0)


def stamp_fields(P):
    """(service member, counter): the member of the service record that is stamped from a file-level counter which the
    per-client record is stamped from too (the epochs of the lazy forgetting)."""
    cli_g = set()
    for f in P.unit_fns(UNIT):
        for s in f.stores():
            ev = s.ev
            if ev['k'] == 'store' and ev['lhs'].get('k') == 'mem' and ev['lhs'].get('rec') == 'iauth_xquery_client':
                cli_g |= {x['name'] for x in walk(ev.get('rhs') or {}) if x.get('k') == 'var' and x.get('sc') not in ('local', 'param')}
    out = set()
    for f in P.unit_fns(UNIT):
        for s in f.stores():
            ev = s.ev
            if ev['k'] == 'store' and ev['lhs'].get('k') == 'mem' and ev['lhs'].get('rec') == 'iauth_xquery_service':
                for x in walk(ev.get('rhs') or {}):
                    if x.get('k') == 'var' and x.get('name') in cli_g:
                        out.add((ev['lhs']['field'], x['name']))
    return out


def protocol_change_restamps(P, R, rule='C06.MPT.7'):
    """"A service added by a reload is queried about every client still in flight" - and so is one whose protocol a
    reload changed: what a client was asked under the old protocol (its bit in the sent mask) says nothing about the
    new one.  Where slots are stamped (the lazy forgetting of C06.MPT.4), every store of a service's protocol happens on
    an entry stamped on that very path (a new one), or is accompanied by a re-stamp under a test that the protocol
    differs from the one on file."""
    st = stamp_fields(P)
    if not st:
        R.note('%s: services carry no stamp; a protocol change is judged by C06.MPT.4\'s eager form' % rule)
        return
    fields = {a for a, b in st}
    n = 0
    for f in P.unit_fns(UNIT):
        tstores = [s for s in f.stores() if s.ev['k'] == 'store' and s.ev['lhs'].get('k') == 'mem' and s.ev['lhs'].get('rec') == 'iauth_xquery_service' and s.ev['lhs'].get('field') == 'type']
        if not tstores:
            continue
        stamps = [s for s in f.stores() if s.ev['k'] == 'store' and s.ev['lhs'].get('k') == 'mem' and s.ev['lhs'].get('rec') == 'iauth_xquery_service' and s.ev['lhs'].get('field') in fields]
        skeys = {s.key for s in stamps}
        before, _, _, _ = f.forward(False, lambda stt, t: True if t.key in skeys else stt)
        # a re-stamp guarded by "the protocol on file differs"
        cond = [s for s in stamps if any(g[1] == '!=' and any(x.get('k') == 'mem' and x.get('field') == 'type' and x.get('rec') == 'iauth_xquery_service' for x in walk(g[0])) for g in f.guards(s.bid))]
        for t in tstores:
            sts = before.get(t.key, set())
            always = bool(sts) and all(sts)
            guarded = any(t.bid in f.reach([c.bid]) for c in cond)
            n += 1
            R.ob(rule, always or guarded, t, 'a service\'s protocol is stored on a freshly stamped entry, or the entry is re-stamped where the protocol differs from the one on file (%s)' % (
                'fresh on every path' if always else 're-stamped under the test' if guarded else 'an existing entry keeps its stamp: clients in flight are not asked under the new protocol'), key='restamp:%s' % f.name)
    R.floor(rule, 1, 'stores of a service\'s protocol')


def slot_reuse_forgets(P, R, rule='C06.MPT.4'):
    """The per-client masks are indexed by service SLOT, and a slot a removed service leaves is handed to the next new
    service (it has to be: the masks are 32 bits wide).  A client in flight across that reload still carries the old
    service's bits for the slot - "already queried", "said OK", "challenge open" - so the new service is never queried
    about it (and `xreply_ok <new>` is answered with the old service's OK).  Rule: if a slot can be given to a new
    service, every mask whose bits do not pin the slot (a set bit that comes with a reference on the service keeps the
    slot from being released) is cleared for that slot, for all clients, on the release or the reuse path - i.e. some
    function reachable from the releasing or the re-assigning function clears the slot's bit of that mask inside a
    loop."""
    cf = P.need_fn('iauth_xquery_config_service')
    reuse = [s for s in cf.stores() if s.ev['k'] == 'store' and s.ev['lhs'].get('k') == 'idx' and on_path(s.ev['lhs'], 'vec') and is_var(s.ev.get('rhs'))]
    release = core.slot_release_sites(P, UNIT)
    if not reuse:
        return      # slots are never re-assigned (C17.MPT.5 reports that on its own)
    if not release:
        raise AnalysisBroken('slots are re-assigned but never released')
    # the masks: integer members of the per-client record that are or-ed with a shifted 1
    masks = {}
    for f in P.unit_fns(UNIT):
        for s in f.stores():
            ev = s.ev
            rhs_ = ev.get('rhs') or {}
            if is_var(rhs_) and rhs_.get('sc') == 'local' and f.single_def(rhs_['name']):
                rhs_ = f.single_def(rhs_['name'])[1] or {}       # `bit = 1u << ii; ... mask |= bit`
            if ev['k'] == 'store' and ev.get('op') == '|=' and ev['lhs'].get('k') == 'mem' and ev['lhs'].get('rec') == 'iauth_xquery_client' \
                    and any(isinstance(x, dict) and x.get('k') == 'bin' and x.get('op') == '<<' for x in walk(rhs_)):
                masks.setdefault(ev['lhs']['field'], []).append(s)
    if not masks:
        raise AnalysisBroken('no per-client slot mask is set anywhere')
    roots = {s.fn for s in reuse + release}
    cl = P.closure(list(roots), may=True)
    for m, sets in sorted(masks.items()):
        # pinned: every site that sets a bit also takes a reference on the slot's service (same block)
        def takes_ref(s):
            for t in s.fn.stores():
                if t.ev['k'] == 'store' and holds.outer_field(t.ev['lhs']) == 'refs' and t.ev.get('op') in ('++', '+='):
                    if t.bid == s.bid or s.fn.dominates(t.bid, s.bid):
                        return True
                    # ... or takes it unless the bit is set already (which then came with a reference earlier): the
                    # reference is counted under a test that this very bit is clear, and the test comes before the set
                    for e in s.fn.dominating_edges(t.bid):
                        r = e.rel()
                        if r and isinstance(r[0], dict) and r[0].get('k') == 'bin' and r[0].get('op') == '&' and holds.outer_field(r[0].get('l')) == m and r[1] == '==' and const_of(r[2]) == 0 \
                                and (e.src == s.bid or s.fn.dominates(e.src, s.bid)):
                            return True
            return False
        def dropped_with_ref(m=m):
            ok = True
            n = 0
            for f in P.unit_fns(UNIT):
                for t in f.stores():
                    if t.ev['k'] == 'store' and holds.outer_field(t.ev['lhs']) == 'refs' and t.ev.get('op') in ('--', '-='):
                        n += 1
                        clr = [u for u in f.stores() if u.ev['k'] == 'store' and u.ev.get('op') == '&=' and u.ev['lhs'].get('k') == 'mem' and u.ev['lhs'].get('field') == m]
                        if not any(u.bid == t.bid or f.dominates(u.bid, t.bid) for u in clr):
                            ok = False
            return ok and n > 0
        pinned = all(takes_ref(s) for s in sets) and dropped_with_ref()
        rel_guarded = all(any(isinstance(g[0], dict) and on_path(g[0], 'refs') for g in s.fn.guards(s.bid)) for s in release)
        if pinned and rel_guarded:
            R.ob(rule, True, sets[0], 'a set bit of %s pins its slot: it is set together with a reference on the service, cleared where the reference is dropped, and a slot is released only when no reference is left' % m, key='slot-mask:%s' % m, nontrivial=False)
            continue
        lz = lazily_forgotten(P, m, reuse)
        if lz is not None:
            ok, why, site = lz
            R.ob(rule, ok, site or reuse[0], 'a client\'s %s bit of a slot given to a new service is dropped before the mask is next looked at: %s' % (m, why), key='slot-reuse:%s' % m)
            continue
        cleared = []
        for f in cl.values():
            loops = rules.loops_of(f) if hasattr(rules, 'loops_of') else []
            for s in f.stores():
                ev = s.ev
                if ev['k'] == 'store' and ev.get('op') == '&=' and ev['lhs'].get('k') == 'mem' and ev['lhs'].get('field') == m and ev['lhs'].get('rec') == 'iauth_xquery_client':
                    in_loop = s.bid in f.reach([e.dst for e in f.out[s.bid]])
                    if in_loop:
                        cleared.append(s)
        R.ob(rule, bool(cleared), reuse[0], 'before a released slot is given to a new service, the slot\'s bit of %s is cleared in every client still in flight' % m,
             key='slot-reuse:%s' % m)
    R.floor(rule, 3, 'per-client slot masks')


def fanout_complete(P, R, b, rule='C06.MPT.2'):
    """The query builder looks at every service slot: an empty or disabled slot (left behind by a reload) is skipped,
    it does not end the fan-out for the services configured behind it."""
    def head(c):
        r = rel(c, True)
        return bool(r) and r[1] == '<' and isinstance(r[2], dict) and r[2].get('k') == 'mem' and r[2].get('field') == 'used'
    n = rules.full_traversal(P, R, rule, b, head, 'query fan-out over the service table')
    R.floor(rule, 1)


def type_range(P, R, rule='C06.TAB.2'):
    """Every value stored into a service's protocol field is one of the enumerators: code that tests the protocol
    by exclusion (`!= DRONECHECK`) or indexes the per-protocol tables relies on it.  Decided by the numeric analysis."""
    from .. import numeric
    enum = P.enums.get('iauth_xquery_type', [])
    if not enum:
        raise AnalysisBroken('the protocol enum has vanished')
    hi = max(c['v'] for c in enum)
    n = 0
    for f in P.unit_fns(UNIT):
        an = None
        for s in f.stores():
            ev = s.ev
            if ev['k'] != 'store' or not is_field(ev.get('lhs'), 'type') or ev.get('op') != '=':
                continue
            rec = (ev['lhs'].get('rec') or '')
            if 'service' not in rec:
                continue
            rhs = ev.get('rhs') or {}
            n += 1
            if rhs.get('k') == 'enum':
                R.ob(rule, True, s, 'the protocol stored is the enumerator %s' % rhs['name'], key='type-store:%s' % f.name, nontrivial=False)
                continue
            if an is None:
                an = numeric.Analysis(f)
            lo, hi_ = an.range_of(rhs, an.at(s))
            R.ob(rule, lo is not None and lo >= 0 and hi_ <= hi, s, 'the protocol stored (%s) is one of the %d enumerators: inferred range [%s, %s]' % (sx(rhs), hi + 1, lo, hi_), key='type-store:%s' % f.name)
    R.floor(rule, 1)


ATOMS = ['slot', 'configured', 'prereq', 'unsent', 'pwevent', 'notdrone', 'pw', 'cls']


def builder_guards(P, R, xq, b, mark_rule='C06.MPT.1'):
    srvv = None
    qb = {s.bid for s in b.calls() if xq in P.callees(s, False)}
    cands = []
    for s in b.sites():
        rhs = s.ev.get('rhs') if s.ev['k'] == 'store' else s.ev.get('init') if s.ev['k'] == 'decl' else None
        tgt = s.ev['lhs']['name'] if s.ev['k'] == 'store' and is_var(s.ev.get('lhs')) else s.ev.get('var') if s.ev['k'] == 'decl' else None
        if tgt and isinstance(rhs, dict) and rhs.get('k') == 'idx' and on_path(rhs, 'vec'):
            cands.append((s, tgt))
    # the walk that sends the queries (a folded helper may walk the table for a purpose of its own)
    for s, tgt in cands:
        if any(s.bid == q or b.dominates(s.bid, q) for q in qb):
            srvv = tgt
    if srvv is None and cands:
        srvv = cands[-1][1]
    if srvv is None:
        raise AnalysisBroken('builder does not walk the service table')
    flagp = b.params[1] if len(b.params) > 1 else None

    def classify(r):
        """(atom, value) pairs implied by relation r."""
        l, op, rr = r
        out = []
        c = const_of(rr)
        if is_var(l, srvv) and c == 0:
            out.append(('slot', op == '!='))
        if is_field(l, 'configured') and c == 0:
            out.append(('configured', op == '!='))
        if isinstance(l, dict) and l.get('k') == 'callref' and l.get('callee') == 'bitset_h_andnot' and c == 0:
            a = l['args']
            if any(x.get('k') == 'idx' and is_var(x['base'], TABLE) and is_field(x['index'], 'type') for x in walk(a[0])) and any(core.is_req_flags(x) for x in walk(a[1])):
                out.append(('prereq', op == '=='))
        if isinstance(l, dict) and l.get('k') == 'bin' and l['op'] == '&' and is_field(l['l'], 'sent_mask') and c == 0:
            out.append(('unsent', op == '=='))
        if is_var(l, flagp) and rr.get('k') == 'enum' and rr['name'] == 'IAUTH_GOT_PASSWORD':
            out.append(('pwevent', op == '=='))
        if is_field(l, 'type') and rr.get('k') == 'enum':
            if rr['name'] == 'DRONECHECK':
                out.append(('notdrone', op == '!='))
            out.append(('type:' + rr['name'], op == '=='))
        if isinstance(l, dict) and l.get('k') == 'idx' and is_field(l['base'], 'password') and const_of(l['index']) == 0 and c == 0:
            out.append(('pw', op == '!='))
        return out

    tnames = {c['v']: c['name'] for c in P.enums.get('iauth_xquery_type', [])}

    def on_edge(st, e):
        if e.label in ('case', 'default') and e.cond is not None and is_field(e.cond, 'type'):
            d = dict(st)
            if e.label == 'case':
                names = {tnames.get(v, str(v)) for v in (e.vs or [])}
            else:
                names = set(tnames.values()) - {tnames.get(v, str(v)) for v in (e.notin or [])}
            known = [k[5:] for k, v in d.items() if k.startswith('type:') and v]
            if known and known[0] not in names:
                return None
            names -= {k[5:] for k, v in d.items() if k.startswith('type:') and v is False}
            if 'typeset' in d:
                names &= set(d['typeset'])
            if not names:
                return None
            d['typeset'] = tuple(sorted(names))
            if len(names) == 1:
                d['type:' + list(names)[0]] = True
            d['notdrone'] = 'DRONECHECK' not in names if 'DRONECHECK' not in names else d.get('notdrone')
            if d['notdrone'] is None:
                d.pop('notdrone')
            return tuple(sorted(d.items()))
        r = rules.edge_rel(e)
        if not r:
            return st
        # a local that snapshots a condition (`have_password = (cli->password[0] != 0)`) stands for that condition
        if is_var(r[0]) and r[0].get('sc') == 'local' and const_of(r[2]) == 0 and r[1] in ('==', '!='):
            sd = b.single_def(r[0]['name'])
            if sd and isinstance(sd[1], dict) and ((sd[1].get('k') == 'bin' and sd[1].get('op') in ('==', '!=', '<', '<=', '>', '>=')) or (sd[1].get('k') == 'un' and sd[1].get('op') == '!')):
                r = rel(sd[1], r[1] == '!=')
        d = dict(st)
        for k, v in classify(r):
            if k in d and d[k] != v and not k.startswith('type:'):
                return None
            if k.startswith('type:'):
                if v:
                    # type known exactly
                    if d.get(k) is False:
                        return None
                    for k2 in [x for x in d if x.startswith('type:')]:
                        if d[k2] and k2 != k:
                            return None
                    d[k] = True
                else:
                    if d.get(k) is True:
                        return None
                    d[k] = False
                    # the protocol is always one of the enumerators (type_range): all of them excluded = infeasible
                    if tnames and all(d.get('type:' + nm) is False for nm in tnames.values()):
                        return None
            else:
                d[k] = v
        return tuple(sorted(d.items()))

    def on_event(st, s):
        ev = s.ev
        if ev['k'] == 'store' and is_var(ev.get('lhs'), srvv):
            return ()
        if ev['k'] == 'store' and holds.outer_field(ev['lhs']) == 'sent_mask':
            d = dict(st)
            d.pop('unsent', None)
            return tuple(sorted(d.items()))
        if ev['k'] == 'call' and xq in P.callees(s, False):
            d = dict(st)
            d['queried'] = True
            return tuple(sorted(d.items()))
        return st
    before, _, sin, bout = b.forward((), on_event, on_edge)
    n = 0
    # the converse of "every query is awaited": a service is marked awaited (and counted as asked) only on a path
    # that sent it a query for this slot - otherwise a reply is owed by a service that was never asked
    nm = 0
    for s in b.stores():
        ev = s.ev
        if ev['k'] == 'store' and holds.outer_field(ev['lhs']) in (holds.MASK, 'sent_mask') and ev.get('op') == '|=':
            sts = [dict(st) for st in before.get(s.key, set())]
            nm += 1
            R.ob(mark_rule, bool(sts) and all(d.get('queried') for d in sts), s,
                 'the slot is marked in %s only on paths that sent the service a query' % holds.outer_field(ev['lhs']), key='mark-needs-query:%s' % holds.outer_field(ev['lhs']),
                 detail=[str(sorted(d.items())) for d in sts if not d.get('queried')][:4] or None)
    R.floor(mark_rule, 2, 'awaited / asked marks in the query builder')
    for s in b.calls():
        if xq not in P.callees(s, False):
            continue
        fmt = rules.fmt_literal(s.ev, 2) or ''
        sts = [dict(st) for st in before.get(s.key, set())]
        n += 1

        def allp(pred):
            return bool(sts) and all(pred(d) for d in sts)
        R.ob('C06.GRD.1', allp(lambda d: d.get('slot') and d.get('configured')), s, '%s query only to a configured service slot' % fmt.split()[0], key='q:%s:configured' % fmt.split()[0])
        R.ob('C06.GRD.1', allp(lambda d: d.get('prereq')), s, '%s query only when the protocol\'s prerequisites are present' % fmt.split()[0], key='q:%s:prereq' % fmt.split()[0])
        R.ob('C06.GRD.1', allp(lambda d: d.get('unsent') or (d.get('pwevent') and d.get('notdrone'))), s,
             '%s query only if not yet sent, or on a password event to a non-dronecheck service' % fmt.split()[0], key='q:%s:once' % fmt.split()[0])
        if fmt.startswith('LOGIN'):
            R.ob('C06.GRD.1', allp(lambda d: d.get('pw')), s, '%s query only with a stored password' % fmt.split()[0], key='q:%s:pw' % fmt.split()[0])
            want = {'LOGIN': {'LOGIN', 'COMBINED'}, 'LOGIN2': {'LOGIN_IPR'}}[fmt.split()[0]]
            R.ob('C06.GRD.1', allp(lambda d: any(d.get('type:' + t) for t in want) or (d.get('typeset') and set(d['typeset']) <= want)), s, '%s line only to protocols %s' % (fmt.split()[0], sorted(want)), key='q:%s:proto' % fmt.split()[0])
        if fmt.startswith('CHECK'):
            R.ob('C06.GRD.1', allp(lambda d: d.get('type:DRONECHECK') or d.get('type:COMBINED')), s, 'CHECK line only to dronecheck/combined services', key='q:CHECK:proto')
    R.floor('C06.GRD.1', 12)
    # skip reasons: every edge from the loop body to the loop increment without a query
    qblocks = {s.bid for s in b.calls() if xq in P.callees(s, False)}
    loop_head = None
    for s in b.stores():
        if is_var(s.ev.get('lhs'), srvv):
            loop_head = s.bid
    inc_blocks = set()
    idxvars = set()
    for s2 in b.sites():
        val = s2.ev.get('rhs') if s2.ev['k'] == 'store' else s2.ev.get('init') if s2.ev['k'] == 'decl' else None
        tgt = s2.ev['lhs']['name'] if s2.ev['k'] == 'store' and is_var(s2.ev.get('lhs')) else s2.ev.get('var') if s2.ev['k'] == 'decl' else None
        if tgt == srvv and isinstance(val, dict) and val.get('k') == 'idx':
            idxvars |= vars_in(val['index'])
    for bid in b.blocks:
        for t in b.block_sites(bid):
            if t.ev['k'] == 'store' and t.ev.get('op') == '++' and is_var(t.ev.get('lhs')) and t.ev['lhs']['name'] in idxvars:
                inc_blocks.add(bid)
    allowed = {('slot', False): 'empty slot', ('configured', False): 'service not configured', ('prereq', False): 'prerequisites missing',
               ('pw', False): 'login protocol without a password', ('pwevent', False): 'already asked and this is not a password event',
               ('notdrone', False): 'already asked and dronecheck takes no password'}
    k = 0
    # `continue` statements are empty blocks falling through to the increment: follow them back
    skip_edges = []
    live = b.reachable_blocks()
    # the regular end of the loop body is where the service is marked as awaited
    mark_blocks = {t.bid for t in b.stores() if t.ev['k'] == 'store' and holds.outer_field(t.ev['lhs']) == holds.MASK and t.ev.get('op') == '|='}
    for bid in live:
        for e in b.out[bid]:
            if e.dst in inc_blocks and bid not in inc_blocks:
                passed = any(bid == m or b.dominates(m, bid) for m in mark_blocks)
                if passed:
                    continue
                if e.label == 'fall' and not b.block_sites(bid):
                    skip_edges.extend(x for x in b.inn[bid] if x.src in live)
                else:
                    skip_edges.append(e)
    # a skip decided by a folded helper (`if (!wants_query(...)) continue;`): the reasons are the branches on which
    # the helper returned that answer
    def origins(e, depth=0):
        r = rules.edge_rel(e)
        if not (r and is_var(r[0]) and r[0]['name'].startswith('__ret@') and const_of(r[2]) is not None and depth < 3):
            return [e]
        c, op = const_of(r[2]), r[1]
        out = []
        for t in b.stores():
            if t.ev['k'] == 'store' and is_var(t.ev.get('lhs'), r[0]['name']) and isinstance(const_of(t.ev.get('rhs')), int):
                v = const_of(t.ev['rhs'])
                if not {'==': v == c, '!=': v != c, '<': v < c, '<=': v <= c, '>': v > c, '>=': v >= c}.get(op, False):
                    continue
                work = list(b.inn[t.bid])
                seen_ = set()
                while work:
                    x = work.pop()
                    if (x.src, x.dst, x.label) in seen_:
                        continue
                    seen_.add((x.src, x.dst, x.label))
                    if x.label in ('true', 'false', 'case', 'default'):
                        out.extend(origins(x, depth + 1))
                    elif not [u for u in b.block_sites(x.src) if not u.ev.get('synthetic') and u.ev['k'] != 'decl']:
                        work.extend(b.inn[x.src])
        return out or [e]
    skip_edges = [o for e in skip_edges for o in origins(e)]
    for e in skip_edges:
        r = rules.edge_rel(e)
        cls = classify(r) if r else []
        why = [allowed[c] for c in cls if c in allowed]
        # side conditions: a missing password only excuses login/login-ipr; 'already asked' needs the sent bit
        sts = [dict(st) for st in bout.get(e.src, set())]
        if ('pw', False) in cls and not (sts and all(d.get('type:LOGIN') or d.get('type:LOGIN_IPR') for d in sts)):
            why = []
        if (('pwevent', False) in cls or ('notdrone', False) in cls) and not (sts and all(d.get('unsent') is False for d in sts)):
            why = []
        # the same two tests in the other order: the skip is decided by "it is a login-type service" where the password
        # is already known to be missing
        if not why and any(c in (('type:LOGIN', True), ('type:LOGIN_IPR', True)) for c in cls) and sts and all(d.get('pw') is False for d in sts):
            why = [allowed.get(('pw', False), 'no password for a login-type service')]
        k += 1
        R.ob('C06.GRD.1', bool(why), P.relloc((b.blocks[e.src].get('term') or {}).get('loc', '?')),
             'a service is skipped only for a documented reason (%s)' % (why[0] if why else 'edge %s' % e.describe()), key='skip:%s' % (why[0] if why else e.describe()))
        R.obligations[-1]['function'] = b.name
    if k < 4:
        R.broke('C06.GRD.1: only %d skip edges found in the builder loop' % k)
    return srvv


def wiring(P, R, xq, b):
    slots = P.slots()
    R.ob('C06.WIRE.1', b.key in slots.get('iauth_module::field_change', ()), b, 'the query builder is the module\'s field_change handler', key='slot:field_change')
    for slot in ('user_info', 'password'):
        ms = [P.fns[k] for k in slots.get('iauth_module::' + slot, ()) if P.fns[k].unit == b.unit]
        ok = bool(ms)
        for m in ms:
            if slot == 'user_info':
                al = rules.Always(P, lambda s: s.ev['k'] == 'call' and b in P.callees(s, False), may=False)
                ok = ok and (m is b or al.always(m))
            else:
                ok = ok and b.key in P.closure([m], may=False)
        R.ob('C06.WIRE.1', ok, ms[0] if ms else b, 'the %s handler reaches the query builder%s' % (slot, ' on every path' if slot == 'user_info' else ' (through the shape gate)'), key='slot:%s' % slot)
    rd, disp = core.reader_dispatch(P)
    for s, h, vs in disp:
        for v in vs or []:
            want = LETTER_SLOT.get(chr(v))
            if not want:
                continue
            calls = [t for t in h.calls() if P.call_slot(t) == 'iauth_module::' + want]
            R.ob('C06.WIRE.1', bool(calls), calls[0] if calls else h, 'the %s handler notifies the modules through %s' % (chr(v), want), key='broadcast:%s' % chr(v))
            for t in calls:
                inloop = t.bid in h.reach([e.dst for e in h.out[t.bid]])
                reg = [u for u in h.calls('set_first') if is_var(u.ev['args'][0], 'iauth_modules')]
                R.ob('C06.WIRE.1', inloop and bool(reg), t, 'the notification loops over every registered module', key='broadcast-loop:%s' % chr(v), nontrivial=False)
                later = []
                for bb in h.reach([e.dst for e in h.out[t.bid]]) | {t.bid}:
                    for u in h.block_sites(bb):
                        if bb == t.bid and u.idx <= t.idx and bb not in h.reach([e.dst for e in h.out[t.bid]]):
                            continue
                        if u.ev['k'] == 'bitset' and core.is_req_flags(u.ev.get('set')):
                            later.append(u)
                        if u.ev['k'] == 'call' and u.ev.get('callee') in ('strncpy', 'strlcpy', 'memcpy') and u.ev['args'] and root_var(u.ev['args'][0]) is not None \
                                and root_var(u.ev['args'][0]).get('t', '').replace('const ', '').startswith('struct iauth_request'):
                            later.append(u)
                R.ob('C06.WIRE.1', not later, t, 'the modules are notified after the field is stored and the flag set', key='order:%s' % chr(v), detail=[u.loc for u in later] or None)
                # field_change is told which datum arrived, by its documented constant (iauth.h)
                wantflag = {'N': 'IAUTH_GOT_HOSTNAME', 'd': 'IAUTH_GOT_HOSTNAME', 'u': 'IAUTH_GOT_IDENT', 'n': 'IAUTH_GOT_NICK', 'H': 'IAUTH_GOT_HURRY_UP'}.get(chr(v))
                if want == 'field_change' and wantflag and len(t.ev['args']) >= 2:
                    fa = h.expand_local(t.ev['args'][1], t)
                    R.ob('C06.WIRE.1', isinstance(fa, dict) and fa.get('k') == 'enum' and fa.get('name') == wantflag, t, 'the %s handler announces its datum as %s (passes %s)' % (chr(v), wantflag, sx(fa)), key='broadcast-flag:%s' % chr(v))
            if chr(v) == 'U' and calls:
                def on_event(st, u):
                    if u.ev['k'] == 'bitset' and u.ev.get('bit') == 'IAUTH_GOT_IDENT' and core.is_req_flags(u.ev.get('set')):
                        return 'done'
                    return st

                def on_edge(st, e):
                    r = rules.edge_rel(e)
                    if r and core.bittest_rel(r, 'IAUTH_EMPTY_IDENT') is False:
                        return 'done'
                    return st
                before, _, _, _ = h.forward('open', on_event, on_edge)
                sts = before.get(calls[0].key, set())
                R.ob('C06.WIRE.1', bool(sts) and sts <= {'done'}, calls[0], 'a blank ident is completed (GOT_IDENT) before the user-info notification, so the prerequisites are met in time', key='U:empty-ident')
    R.floor('C06.WIRE.1', 20)


def username_content(P, b, sends):
    """What the local user-name buffer holds when a query is sent, on every path: tracked as a sequence of pieces
    ('~', 'ident', 'claimed') next to the facts "there is an ident", "the claimed name starts with ~", "there is a
    claimed name"; the source may be selected through a local pointer and the offset through a local counter.
    Returns {send site key: (ok, description)} for the buffers passed to those sends."""
    USER_FIELDS = ('auth_username', 'cli_username')

    def fld0(l):
        if isinstance(l, dict) and l.get('k') == 'idx' and const_of(l.get('index')) == 0:
            for f in USER_FIELDS:
                if is_field(l['base'], f, core.REQ_REC):
                    return f
        return None

    def classify(r):
        l, op, rr = r
        f = fld0(l)
        c = const_of(rr)
        out = []
        if f == 'auth_username' and c == 0 and op in ('==', '!='):
            out.append(('A', op == '!='))
        if f == 'cli_username' and c == 0 and op in ('==', '!='):
            out.append(('N', op == '!='))
            if op == '==':
                out.append(('T', False))
        if f == 'cli_username' and c == ord('~') and op in ('==', '!='):
            out.append(('T', op == '=='))
            if op == '==':
                out.append(('N', True))
        # the plain login protocol needs no user name: the buffer may legitimately be unset on its paths
        if is_field(l, 'type'):
            lv = P.enum_value('iauth_xquery_type', 'LOGIN')
            if isinstance(rr, dict) and rr.get('k') == 'enum' and op in ('==', '!='):
                if rr['name'] == 'LOGIN':
                    out.append(('tLOGIN', op == '=='))
                elif op == '==':
                    out.append(('tLOGIN', False))
            elif op == '==' and isinstance(c, int):
                out.append(('tLOGIN', c == lv))
            elif op == 'in' and lv not in rr.get('vs', []):
                out.append(('tLOGIN', False))
            elif op == 'notin' and lv in rr.get('vs', []):
                out.append(('tLOGIN', False))
        return out

    def kill(t):
        if t.ev['k'] == 'store' and is_var(t.ev.get('lhs')) and t.ev['lhs'].get('t', '').replace('const ', '').startswith('struct iauth_xquery_service'):
            return ('tLOGIN',)
        return ()

    def symbolic(rhs):
        for f in USER_FIELDS:
            if is_field(rhs, f, core.REQ_REC):
                return ('fld', f)
        if const_of(rhs) == 0 and rhs.get('castto'):
            return ('null',)
        return None

    bufs = set()
    for s in b.sites():
        if s.ev['k'] == 'decl' and s.ev.get('array') and s.ev.get('t', '').startswith('char['):
            bufs.add(s.ev['var'])

    def value_of(e, consts):
        """integer value of an index / offset expression under the known constants, honouring v++ already applied"""
        c = const_of(e)
        if isinstance(c, int):
            return c
        if is_var(e) and isinstance(consts.get(e['name']), int):
            return consts[e['name']]
        if isinstance(e, dict) and e.get('k') == 'un' and e.get('op') in ('++', '--') and is_var(e.get('e')) and isinstance(consts.get(e['e']['name']), int):
            v = consts[e['e']['name']]
            return (v - 1 if e['op'] == '++' else v + 1) if e.get('postfix') else v
        return None

    def step(extra, s, facts, consts):
        d = dict(extra or ())
        ev = s.ev
        if ev['k'] == 'store' and (ev['lhs'] or {}).get('k') == 'idx' and is_var(ev['lhs']['base']) and ev['lhs']['base']['name'] in bufs and ev.get('op') == '=':
            v = ev['lhs']['base']['name']
            ix = value_of(ev['lhs']['index'], consts)
            c = const_of(ev.get('rhs'))
            if ix == 0 and c == 0:
                d[v] = ()
            elif ix == 0 and c == ord('~'):
                d[v] = ('~',)
            elif c == 0 and ix is not None and ix > 0:
                pass            # the terminator
            else:
                d[v] = ('?',)
        if ev['k'] == 'call' and ev.get('callee') in ('strncpy', 'strlcpy', 'memcpy', 'strcpy') and len(ev['args']) >= 2:
            dst, src = ev['args'][0], ev['args'][1]
            base, off = dst, 0
            if isinstance(dst, dict) and dst.get('k') == 'bin' and dst.get('op') == '+':
                base, off = dst['l'], value_of(dst['r'], consts)
            if is_var(base) and base['name'] in bufs:
                v = base['name']
                piece = None
                for f in USER_FIELDS:
                    if is_field(src, f, core.REQ_REC):
                        piece = f
                if piece is None and is_var(src) and isinstance(consts.get(src['name']), tuple) and consts[src['name']][0] == 'fld':
                    piece = consts[src['name']][1]
                cur = d.get(v, ())
                if piece is None or off is None or cur == ('?',) or len(cur) != off or (off > 0 and cur[:off] != ('~',) * off):
                    d[v] = ('?',)
                else:
                    d[v] = tuple(cur[:off]) + ('ident' if piece == 'auth_username' else 'claimed',)
        return tuple(sorted(d.items()))
    def edge_hook(extra, facts, consts, r):
        # `buf[0] == 0` / `!= 0` against what the buffer is known to hold
        l, op, rr = r
        if isinstance(l, dict) and l.get('k') == 'idx' and is_var(l['base']) and l['base']['name'] in bufs and const_of(l['index']) == 0 and const_of(rr) == 0 and op in ('==', '!='):
            cont = dict(extra or ()).get(l['base']['name'])
            if cont is not None and cont != ('?',):
                empty = (cont == ())
                if empty != (op == '=='):
                    return False
        return extra
    before = rules.atom_forward(b, classify, kill, symbolic=symbolic, extra0=(), step=step, edge_hook=edge_hook)
    out = {}
    for s, args in sends:
        for x in args:
            if not (is_var(x) and x['name'] in bufs):
                continue
            bad = []
            n = 0
            for st in before.get(s.key, set()):
                n += 1
                f = rules.facts_of(st)
                cont = dict(rules.extra_of(st) or ()).get(x['name'], ())
                A, T, N = f.get('A'), f.get('T'), f.get('N')
                if A is True:
                    want = ('ident',)
                elif A is False and T is True:
                    want = ('claimed',)
                elif A is False and T is False and N is True:
                    want = ('~', 'claimed')
                elif A is False and N is False:
                    want = ()
                else:
                    want = None
                if want is None or cont != want:
                    bad.append('ident present=%s, claimed starts with ~=%s, claimed present=%s: buffer holds %s, expected %s' % (A, T, N, '+'.join(cont) or 'nothing', '+'.join(want) if want else ('nothing' if want == () else 'a decided case')))
            out[(s.key, x['name'])] = (n > 0 and not bad, sorted(set(bad))[:2])
    return out


def formats(P, R, xq, b):
    def field_of(e):
        return e['field'] if isinstance(e, dict) and e.get('k') == 'mem' and e.get('rec') in (core.REQ_REC, 'iauth_xquery_client') else None
    locals_src = {}
    for s in b.calls():
        if s.ev.get('callee') in ('strncpy', 'strlcpy') and is_var(root_var(s.ev['args'][0])) and root_var(s.ev['args'][0]).get('sc') == 'local':
            locals_src.setdefault(root_var(s.ev['args'][0])['name'], []).append((s, s.ev['args'][1]))
    TA = core.addr_text_field(P)
    want = {'CHECK %s %s %s %s :%s': ['nickname', '<user>', TA, '<host>', 'realname'],
            'LOGIN %s': ['password'], 'LOGIN2 %s %s %s %s': [TA, '<host>', '<user>', 'password']}
    seen = set()
    ucont = username_content(P, b, [(s, s.ev['args'][3:]) for s in b.calls() if xq in P.callees(s, False)])
    for s in b.calls():
        if xq not in P.callees(s, False):
            continue
        fmt = rules.fmt_literal(s.ev, 2)
        seen.add(fmt)
        a = s.ev['args']
        ok = fmt in want and len(a) == 3 + len(want.get(fmt, []))
        desc = []
        if ok:
            for w, x in zip(want[fmt], a[3:]):
                if w == '<user>':
                    uc = ucont.get((s.key, x['name'])) if is_var(x) else None
                    good = bool(uc) and uc[0]
                    if uc and not uc[0]:
                        desc.append('[%s]' % '; '.join(uc[1]))
                elif w == '<host>':
                    d = b.single_def(x['name']) if is_var(x) else None
                    v = d[1] if d else None
                    good = bool(v) and v.get('k') == 'cond' and field_of(v['t']) == 'hostname' and field_of(v['f']) == core.addr_text_field(P) \
                        and any(is_field(y, 'hostname') for y in walk(v['c']))
                else:
                    good = field_of(x) == w
                desc.append('%s<-%s%s' % (w, sx(x), '' if good else ' (WRONG)'))
                ok = ok and good
        R.ob('C06.FMT.1', ok, s, 'query %r carries the client\'s own %s' % (fmt, desc), key='fmt:%s' % (fmt or '?').split()[0])
        # addressed to the service of the slot, tagged with this request's routing
        okr = is_field(a[0], 'name') and is_var(a[1]) and any(rules.is_call(t, 'iauth_routing') and is_var(t.ev['args'][1], a[1]['name']) and is_var(t.ev['args'][0], b.params[0]) for t in b.calls())
        R.ob('C06.FMT.1', okr, s, 'the query goes to the slot\'s service with this request\'s routing tag', key='fmt-addr:%s' % (fmt or '?').split()[0])
    R.ob('C06.FMT.1', seen == set(want), b, 'the builder sends exactly the CHECK, LOGIN and LOGIN2 lines (found %s)' % sorted(x or '?' for x in seen), key='fmt:set')
    R.floor('C06.FMT.1', 6)


SERVER_FIELDS = ('hostname', 'cli_username', 'auth_username', 'nickname', 'realname')


def field_capacity(P, R):
    """BND.2: a server-supplied field keeps every character up to its documented limit: the copy into a
    field of extent LEN+1 keeps exactly LEN characters (strncpy with n == LEN, or strlcpy with n == LEN+1)."""
    n = 0
    for f in bnd.reader_scope(P):
        for s in f.calls():
            c = s.ev.get('callee')
            if c not in ('strncpy', 'strlcpy', 'memcpy', 'snprintf') or not s.ev['args']:
                continue
            d = s.ev['args'][0]
            fld = [x for x in (d,) if isinstance(x, dict) and x.get('k') == 'mem' and x.get('rec') == core.REQ_REC and x['field'] in SERVER_FIELDS]
            if not fld:
                continue
            ext = d.get('arr')
            k = const_of(s.ev['args'][2] if c in ('strncpy', 'strlcpy', 'memcpy') else s.ev['args'][1])
            kept = None if k is None else (k if c in ('strncpy', 'memcpy') else k - 1)
            n += 1
            R.ob('C06.BND.2', ext is not None and kept == ext - 1, s, '%s keeps %s of the %s characters the field %s can hold (limit-length values must arrive whole)'
                 % (c, kept, (ext - 1) if ext else '?', d['field']), key='capacity:%s' % d['field'])
    R.floor('C06.BND.2', 5, 'copies into server-supplied fields')


def username_limit(P, R, b, rule='C06.BND.3'):
    """The user name sent in a query is cut at the documented length: the local buffer it is assembled in (ident,
    or `~` + claimed name) is terminated at index USERLEN = capacity of the request's user-name fields."""
    ext = (P.record_field(core.REQ_REC, 'cli_username') or {}).get('array')
    if not ext:
        raise AnalysisBroken('the request record has no cli_username array')
    bufs = set()
    for s in b.calls():
        if s.ev.get('callee') in ('strncpy', 'strlcpy', 'memcpy', 'snprintf') and len(s.ev['args']) >= 2:
            if any(on_path(x, 'cli_username', core.REQ_REC) or on_path(x, 'auth_username', core.REQ_REC) for a in s.ev['args'][1:] for x in walk(a)):
                rv = root_var(s.ev['args'][0])
                if rv is not None and rv.get('sc') == 'local' and isinstance(rv.get('arr'), int):
                    bufs.add(rv['name'])
    n = 0
    for v in sorted(bufs):
        terms = [s for s in b.stores() if s.ev['k'] == 'store' and (s.ev['lhs'] or {}).get('k') == 'idx' and is_var(s.ev['lhs']['base'], v)
                 and const_of(s.ev.get('rhs')) == 0 and isinstance(const_of(s.ev['lhs']['index']), int) and const_of(s.ev['lhs']['index']) > 0]
        for t in terms:
            n += 1
            k = const_of(t.ev['lhs']['index'])
            R.ob(rule, k == ext - 1, t, 'the query\'s user name (buffer %s) is cut after %d characters; the documented limit is %d' % (v, k, ext - 1), key='userlen:%s' % v)
    if n == 0:
        R.note('%s: no constant-index terminator of a user-name buffer found; the cut is judged by the bounded-copy rules only' % rule)


def shape_gate(P, R, b):
    # the function that stores the client's password
    stores = []
    for f in P.unit_fns(b.unit):
        for s in f.calls():
            if s.ev.get('callee') in ('strncpy', 'strlcpy', 'strcpy', 'memcpy') and s.ev['args'] and on_path(s.ev['args'][0], 'password', 'iauth_xquery_client'):
                stores.append(s)
        for s in f.stores():
            if s.ev['k'] == 'store' and on_path(s.ev['lhs'], 'password', 'iauth_xquery_client'):
                stores.append(s)
    R.ob('C06.GRD.2', len(stores) >= 1, stores[0] if stores else b, 'the client\'s password is stored somewhere', key='pw-store-exists', nontrivial=False)
    for s in stores:
        f = s.fn
        pv = None
        src = s.ev['args'][1] if s.ev['k'] == 'call' else s.ev.get('rhs')
        pv = root_var(src)['name'] if root_var(src) is not None else None

        def on_edge(st, e):
            m, sp = st
            r = rules.edge_rel(e)
            if r:
                l, op, rr = r
                if isinstance(l, dict) and l.get('k') == 'un' and l['op'] == '*' and is_var(l['e'], pv) and op == '==' and const_of(rr) in (ord('+'), ord('-')):
                    m = True
                if isinstance(l, dict) and l.get('k') == 'bin' and l.get('op') == '=' and isinstance(l.get('r'), dict):
                    l = l['r']
                if is_var(l) and l.get('sc') == 'local':
                    # the result of the search kept in a local (`sep = strchr(pw, ' ')`, also inside the condition)
                    ds = [(d.ev.get('rhs') if d.ev['k'] == 'store' else d.ev.get('init')) for d in f.local_defs(l['name'])]
                    ds = [d for d in ds if d is not None]
                    if ds and all(isinstance(d, dict) and d.get('k') == 'callref' and d.get('callee') == 'strchr' for d in ds):
                        l = ds[0]
                if isinstance(l, dict) and l.get('k') == 'callref' and l.get('callee') == 'strchr' and is_var(l['args'][0], pv) and const_of(l['args'][1]) == 32 and const_of(rr) == 0:
                    sp = (op == '!=')
            return (m, sp)

        def on_event(st, t):
            m, sp = st
            if t.ev['k'] == 'store' and is_var(t.ev.get('lhs'), pv) and t.ev.get('op') in ('++', '=', '+='):
                sp = False if sp else sp
            return (m, sp)
        before, _, _, _ = f.forward((False, False), on_event, on_edge)
        for site, nm in [(s, 'stored')] + [(t, 'forwarded to the query builder') for t in f.calls() if b in P.callees(t, False)]:
            sts = before.get(site.key, set())
            R.ob('C06.GRD.2', bool(sts) and all(m for m, sp in sts), site, 'the password is %s only after the mode-prefix test (+ or -)' % nm, key='pw:%s:modes' % nm.split()[0])
            R.ob('C06.GRD.2', bool(sts) and all(sp for m, sp in sts), site, 'the password is %s only after the account/password separator test' % nm, key='pw:%s:separator' % nm.split()[0])
    # "<modes> <account> <password>" has a password: blanks alone after the account are not one.  On every path to the store
    # and to the builder some test established that a byte other than the blank follows the separator - the byte at the
    # end of a strspn() over blanks, or the byte a blank-skipping loop over a pointer taken at the separator stops at
    for s in stores:
        f = s.fn
        src = s.ev['args'][1] if s.ev['k'] == 'call' else s.ev.get('rhs')
        pv = root_var(src)['name'] if root_var(src) is not None else None
        seps = set()
        for t in f.sites():
            for ex in rules.event_exprs(t.ev):
                for x in walk(ex):
                    if isinstance(x, dict) and x.get('k') == 'bin' and x.get('op') == '=' and is_var(x.get('l')) and isinstance(x.get('r'), dict) and x['r'].get('k') == 'callref' and x['r'].get('callee') in ('strchr', 'strpbrk'):
                        seps.add(x['l']['name'])
            val = t.ev.get('rhs') if t.ev['k'] == 'store' else t.ev.get('init') if t.ev['k'] == 'decl' else None
            tgt = t.ev['lhs']['name'] if t.ev['k'] == 'store' and is_var(t.ev.get('lhs')) else t.ev.get('var') if t.ev['k'] == 'decl' else None
            if tgt and isinstance(val, dict) and any(isinstance(x, dict) and x.get('k') == 'callref' and x.get('callee') in ('strchr', 'strpbrk') for x in walk(val)):
                seps.add(tgt)
        for bid in f.blocks:
            c = f.term_cond(bid)
            for x in walk(c) if c is not None else ():
                if isinstance(x, dict) and x.get('k') == 'bin' and x.get('op') == '=' and is_var(x.get('l')) and isinstance(x.get('r'), dict) and x['r'].get('k') == 'callref' and x['r'].get('callee') in ('strchr', 'strpbrk'):
                    seps.add(x['l']['name'])

        def byte_of(l):
            """the pointer variable whose current byte the expression reads (`*q`, `q[0]`), or None"""
            if isinstance(l, dict) and l.get('k') == 'un' and l.get('op') == '*' and is_var(l.get('e')):
                return l['e']['name']
            if isinstance(l, dict) and l.get('k') == 'idx' and is_var(l.get('base')) and const_of(l.get('index')) == 0:
                return l['base']['name']
            return None

        def on_edge2(st, e):
            r = rules.edge_rel(e)
            if not r or st == 'nonblank':
                return st
            l, op, rr = r
            if op == '!=' and const_of(rr) == 0 and isinstance(l, dict) and l.get('k') in ('idx', 'un') and any(isinstance(x, dict) and x.get('k') == 'callref' and x.get('callee') == 'strspn' for x in walk(l)):
                return 'nonblank'
            q = byte_of(l)
            if q in seps:
                if op == '!=' and const_of(rr) == 32:
                    return 'skipped'
                if st == 'skipped' and op == '!=' and const_of(rr) == 0:
                    return 'nonblank'
            return st
        before2, _, _, _ = f.forward('none', lambda st, t: st, on_edge2)
        for site, nm in [(s, 'stored')] + [(t, 'forwarded to the query builder') for t in f.calls() if b in P.callees(t, False)]:
            sts = before2.get(site.key, set())
            R.ob('C06.GRD.2', bool(sts) and sts == {'nonblank'}, site, 'the password is %s only after a test that something other than blanks follows the account' % nm, key='pw:%s:nonblank' % nm.split()[0])
    # "<mode> matches ([+-][x!]*)+": a prefix with any other character is not a <mode>, the text is an ordinary password
    # (not "<modes> <account> <password>") and nothing of it is stored or forwarded.  In the prefix scanner every
    # character outside the cases it handles leads away from the store.
    from .. import charparse
    for s in stores[:1]:
        f = s.fn
        res = charparse.analyse(f, '+-x! ')
        if res is None:
            R.broke('C06.GRD.2: the mode prefix is no longer scanned through a character pointer')
            continue
        for site, nm in [(s, 'stored')] + [(t, 'forwarded to the query builder') for t in f.calls() if b in P.callees(t, False)]:
            sts = res['before'].get(site.key, set())
            R.ob('C06.GRD.2', bool(sts) and not any(st.bad for st in sts), site, 'the password is %s only if every character of its prefix is one of the documented <mode> characters (+ - x !)' % nm, key='pw:%s:mode-alphabet' % nm.split()[0])
    R.floor('C06.GRD.2', 5)


def query_callers(P, R, xq, b):
    for s in P.callers(xq, may=True):
        fmt = rules.fmt_literal(s.ev, 2) or ''
        if s.fn is b:
            ok, what = True, 'builder'
        else:
            f = s.fn
            gs = f.guards(s.bid)
            chal = any(isinstance(g[0], dict) and g[0].get('k') == 'bin' and g[0]['op'] == '&' and is_field(g[0]['l'], 'more_mask') and g[1] == '!=' for g in gs)
            conf = any(is_field(g[0], 'configured') and g[1] == '!=' for g in gs)
            ok = fmt.startswith('MORE ') and chal and conf and len(s.ev['args']) == 4 and is_var(s.ev['args'][3]) and s.ev['args'][3]['name'].split('@')[0] in [p_.split('@')[0] for p_ in f.params] + [s.ev['args'][3]['name'].split('@')[0]]
            what = 'challenge-response path (service has an open MORE challenge and is configured)'
            # the raw PASS text goes out only for a client whose credentials already passed the shape gate
            havepw = any(isinstance(g[0], dict) and g[0].get('k') == 'idx' and is_field(g[0]['base'], 'password') and const_of(g[0]['index']) == 0 and g[1] == '!=' and const_of(g[2]) == 0 for g in gs)
            R.ob('C06.GRD.4', havepw, s, 'a PASS text is relayed as a challenge answer only when well-formed credentials are already on file for the client (otherwise it is the credentials and goes through the shape gate)', key='more-needs-credentials')
        R.ob('C06.WMC.1', ok, s, 'query %r sent by the %s' % (fmt, what), key='caller:%s' % fmt.split()[0])
    R.floor('C06.WMC.1', 4)


def run(P, R, tier):
    xq, b = builder(P)
    prereq_table(P, R)
    builder_guards(P, R, xq, b)
    wiring(P, R, xq, b)
    formats(P, R, xq, b)
    bnd.check_scope(P, R, 'C06.BND.1', bnd.reader_scope(P))
    field_capacity(P, R)
    username_limit(P, R, b)
    shape_gate(P, R, b)
    protocol_change_restamps(P, R)
    query_callers(P, R, xq, b)
    no_flag_keyed_exit(P, R, b)
    fanout_complete(P, R, b)
    more_answered_once(P, R, xq)
    slot_reuse_forgets(P, R)
    query_capacity(P, R, xq, b)
    # the prerequisite test is bitset_h_andnot(needed, present)
    rules.bitset_primitives(P, R, 'C06.TAB.3')
    type_range(P, R)
    # the address reaches the services whole: its text buffer holds the longest address the printer can produce
    from . import c12
    from ..report import Remap
    pf, pout, pposv = c12.printer(P)
    c12.bounded(P, Remap(R, {'C12.BND.1': 'C06.BND.4'}), pf)
    c12.path_weight(P, Remap(R, {'C12.BND.2': 'C06.BND.4'}), pf, pout, pposv)
    # queries carry the data exactly as the server reported it
    from . import c08
    c08.line_buffer_writes(P, R, 'C06.WMC.2')
    # the prerequisites are bits of the request's flag word: nothing overwrites the word (hurry-up only adds to it)
    from . import c01
    V, softfns = c01.fmt_rules(P, Remap(R, {}))
    c01.who_may(P, Remap(R, {'C01.WMC.1': 'C06.WMC.3'}, keys=('bulk', 'clears:')), V, softfns)
    # the address in a query denotes the client's address: every significant digit of a group is printed
    c12.digit_thresholds(P, Remap(R, {'C12.TAB.1': 'C06.TAB.4'}), pf, pout, pposv)
    # ... and is printed as a dotted quad exactly when it is an IPv4 address
    from . import c09
    c09.dotted_quad_guard(P, Remap(R, {'C09.GRD.2': 'C06.GRD.5'}))
    # the "already sent" mask covers every slot
    rules.narrowing_fields(P, R, 'C06.WID.1', ('modules/iauth_core.c', 'modules/iauth_xquery.c', 'modules/iauth_class.c'))
    # "the data its protocol needs is known": the ident prerequisite is marked known only when an ident arrived or the
    # user info that stands in for it has
    from . import c03 as _c03
    _c03.blank_ident(P, Remap(R, {'C03.GRD.3': 'C06.GRD.8'}))
    # shared (round 9): the address a query carries is the announced one (the parser's group move), a service added by a
    # reload is reported to the module (the merge tells the section), and the data a protocol waits for includes
    # everything the policy asks for
    from ..report import Remap as _Remap
    from . import c12 as _c12, c15 as _c15, c02 as _c02
    _c12.parser_rules(P, _Remap(R, {'C12.COPY.1': 'C06.COPY.1', 'C12.MPT.2': 'C06.COPY.1', 'C12.MPT.3': 'C06.COPY.1', 'C12.MPT.4': 'C06.COPY.1'}))
    _c15.merge_details(P, R, 'C06.MPT.5')
    _c02.required_mask(P, _Remap(R, {'C02.MPT.1': 'C06.MPT.6'}))
    # the bounded copies above go through strlcpy: where the program supplies its own, it keeps its promise
    from .. import bnd as _bndS
    _bndS.fallback_strlcpy(P, R, 'C06.BND.6')
    return EXPLANATION, ASSUMPTIONS
