"""C07 - concurrent clients do not interfere (state confinement).

Decided: nothing written while serving one client can reach another client's lines except
through allow-listed objects; service-mask indices are used consistently and slots are stable
while clients are in flight; per-client module state is keyed inside the request; shift
amounts on the 32-bit masks are bounded.  Not decided: projection equality of outputs."""
from ..facts import AnalysisBroken
from ..model import sx, walk, is_var, is_field, const_of, vars_in, root_var, same, on_path
from .. import rules, core, holds
from .c08 import junk_inert

EXPLANATION = (
    'Rules: (WMC.1) over the may-call closure of the client event entries (dispatch handlers, the request '
    'timer, the reply slots), every store whose root object has static storage (globals, file statics, '
    'static locals; also through &object arguments) must be a ++/+= on a scalar that is read only by the '
    'statistics reporters, or one of the named objects: the serial counter, the release of an unreferenced '
    'service slot, the two timing accumulators, clean_exit; (WMC.2) no function in that closure declares a '
    'non-const static local; (WMC.3) service-table slots are stable: a slot is only ever set to NULL or '
    'filled with a fresh allocation, and the table never shrinks; (TAB.1) in every function the shift '
    'amount used with the per-client masks and the subscript of the service table are the same variable; '
    '(GRD.1) per-client module records come only from a lookup in the request\'s own data set with the '
    'module descriptor as key (or from the allocation inserted there); (MPT.1) the reader reassigns its '
    'request variable on every path of every iteration before any dispatch; (WMC.4) the shared per-service '
    'reference count moves by ++/-- only and is taken/released together with a client\'s awaited bit, so '
    'one client\'s reply cannot free a service another client awaits; (ARITH.1) the producer of a '
    'slot index is bounded by the mask width.  Projection equality of outputs is not decided.'
    ' Rounds 8-9: (MPT.6) no re-check of a request is reached after a call that can release a service slot; (TMR.2) per-request timers; (TAB.1) folded helpers\' walks are judged on their own.'
    " Hunt round 1: (WIRE.1) a module that counts references on services installs both retire hooks and a release is reachable from each; (WMC.4 ref-once) a reference is counted only where the client's awaited bit is clear; (GRD.4) an entry that is no longer configured answers the class lookup for nobody.")
ASSUMPTIONS = ['clang 14 CFG and may-call graph with slot resolution', 'heap objects reached through a request pointer belong to that request']

NAMED = {
    'iauth_serial': 'the property exempts the serial component of routing tags',
    'clean_exit': 'process-wide exit flag, set once at end of input',
    'iauth_class_assigned': 'timing accumulator (statistics only)',
    'iauth_class_not_assigned': 'timing accumulator (statistics only)',
}


def client_roots(P):
    ent = core.event_entries(P)
    roots = []
    for k, (f, how) in ent.items():
        if how.startswith('callback') and 'event_new' not in how:
            continue        # start-up and signal callbacks do not serve a client
        roots.append(f)
    return roots


def stats_closure(P):
    roots = []
    for slot in ('iauth_module::get_stats', 'iauth_module::get_config'):
        roots += [P.fns[k] for k in P.slots().get(slot, ())]
    for n in ('iauth_collect_stats', 'iauth_collect_config'):
        f = P.fn(n)
        if f:
            roots.append(f)
    return P.closure(roots, may=True)


def static_root(lv):
    rv = root_var(lv)
    if rv is not None and rv.get('sc') in ('global', 'file_static', 'static_local'):
        return rv
    return None


def storage_audit(P, R):
    roots = client_roots(P)
    cl = P.closure_sets(roots)
    stats = stats_closure(P)
    accum = {}
    n = 0
    for f in cl.values():
        for s in f.sites():
            ev = s.ev
            targets = []
            if ev['k'] == 'store':
                targets.append((ev['lhs'], ev.get('op'), ev.get('rhs')))
            elif ev['k'] in ('bitset', 'bitclear'):
                targets.append((ev['set'], ev['k'], None))
            elif ev['k'] == 'call':
                for i in P.call_written_args(s):
                    if i < len(ev['args']):
                        a = ev['args'][i]
                        cands = [a['t'], a['f']] if a.get('k') == 'cond' else [a]
                        for c in cands:
                            if c.get('k') == 'un' and c['op'] == '&':
                                targets.append((c['e'], 'call:%s' % (ev.get('callee') or P.call_slot(s)), None))
                            elif c.get('k') in ('var', 'mem') and c.get('arr') is not None:
                                targets.append((c, 'call:%s' % (ev.get('callee') or P.call_slot(s)), None))
            for lv, op, rhs in targets:
                rv = static_root(lv)
                if rv is None:
                    continue
                if is_var(lv) and rv.get('t', '').endswith('*') and op == '=':
                    pass
                n += 1
                name = rv['name']
                scalar = not (lv.get('k') == 'idx' or lv.get('arr') is not None)
                if name in NAMED:
                    okn = (op in ('++',) if name == 'iauth_serial' else True)
                    R.ob('C07.WMC.1', okn, s, 'write to %s: allowed (%s)' % (sx(lv), NAMED[name]), key='named:%s' % name, nontrivial=False)
                    continue
                if op in ('++', '+=') and scalar:
                    accum.setdefault(sx(lv), []).append(s)
                    continue
                # per-rule hit counters: a rule function handed &<rule table entry> may only ++ its counter
                if isinstance(op, str) and op.startswith('call:') and name == 'conf' and on_path(lv, 'rules'):
                    bad = []
                    for t in P.callees(s, True):
                        for u in t.stores():
                            if u.ev['k'] == 'store' and root_var(u.ev['lhs']) is not None and root_var(u.ev['lhs'])['name'] == t.params[0] and not is_var(u.ev['lhs']):
                                if not (u.ev.get('op') in ('++', '+=') and u.ev['lhs'].get('k') == 'mem' and u.ev['lhs']['field'] == 'assigned'):
                                    bad.append(u.loc)
                        # ... and what it decides does not depend on how many clients hit the rule before this one:
                        # the counter's value reaches neither a return value nor a branch condition
                        for u in t.sites():
                            if u.ev['k'] == 'ret' and any(x.get('k') == 'mem' and x.get('field') == 'assigned' for x in walk(u.ev.get('val'))):
                                bad.append('%s (returned)' % u.loc)
                        for b2 in t.blocks:
                            c2 = t.term_cond(b2)
                            if c2 is not None and any(x.get('k') == 'mem' and x.get('field') == 'assigned' for x in walk(c2)):
                                bad.append('%s (branched on)' % ((t.blocks[b2].get('term') or {}).get('loc')))
                    R.ob('C07.WMC.1', not bad, s, 'rule functions only increment the per-rule hit counter of the rule entry they are given', key='rule-hit-counter', detail=bad or None)
                    continue
                # release of an unreferenced service slot through a function that is handed the slot's address
                if lv.get('k') == 'idx' and on_path(lv, 'vec') and name == 'iauth_xquery_services' and isinstance(op, str) and op.startswith('call:'):
                    rels = [t for t in core.slot_release_sites(P) if t.fn in P.callees(s, True) and (t.ev.get('lhs') or {}).get('k') == 'un']
                    other = [u for g_ in P.callees(s, True) for u in g_.stores() if u.ev['k'] == 'store' and (u.ev.get('lhs') or {}).get('k') == 'un' and is_var((u.ev['lhs'].get('e') or {}))
                             and u.ev['lhs']['e']['name'] in g_.params and u not in rels]
                    if rels and not other:
                        okr = all(any(is_field(g[0], 'refs') and g[1] in ('==', '<=') and const_of(g[2]) == 0 for g in t.fn.guards(t.bid)) and
                                  any(is_field(g[0], 'configured') and g[1] == '==' and const_of(g[2]) == 0 for g in t.fn.guards(t.bid)) for t in rels)
                        R.ob('C07.WMC.1', okr, s, 'a service slot is released only when unreferenced and unconfigured (through %s)' % op[5:], key='slot-release')
                        continue
                # release of an unreferenced service slot
                if lv.get('k') == 'idx' and on_path(lv, 'vec') and name == 'iauth_xquery_services' and op == '=' and const_of(rhs) == 0:
                    gs = f.guards(s.bid)
                    ok = any(is_field(g[0], 'refs') and g[1] in ('==', '<=') and const_of(g[2]) == 0 for g in gs) and \
                        any(is_field(g[0], 'configured') and g[1] == '==' and const_of(g[2]) == 0 for g in gs)
                    R.ob('C07.WMC.1', ok, s, 'a service slot is released only when unreferenced and unconfigured', key='slot-release')
                    continue
                R.ob('C07.WMC.1', False, s, 'object with static storage %s is written (%s) while serving a client: state can leak between clients' % (sx(lv), op),
                     key='static-write:%s' % name)
    for obj, sites in sorted(accum.items()):
        base = obj.split('.')[0].split('[')[0]
        readers = set()
        for g in P.fns.values():
            for s in g.sites():
                exprs = rules.event_exprs(s.ev)
                if s.ev['k'] == 'store' and sx(s.ev.get('lhs')) == obj and s.ev.get('op') in ('++', '+='):
                    exprs = [s.ev['rhs']] if s.ev.get('rhs') else []
                for ex in exprs:
                    if any(sx(x) == obj for x in walk(ex)):
                        readers.add(g.key)
            for b in g.blocks.values():
                c = (b.get('term') or {}).get('cond')
                if c is not None and any(sx(x) == obj for x in walk(c)):
                    readers.add(g.key)
        bad = sorted(r for r in readers if r not in stats)
        R.ob('C07.WMC.1', not bad, sites[0], 'accumulator %s is only incremented on the event path and read only by the statistics reporters%s'
             % (obj, (' (also read by %s)' % bad) if bad else ''), key='accumulator:%s' % obj)
    R.floor('C07.WMC.1', 6, 'static objects written on the event path')
    # WMC.2
    k = 0
    for f in cl.values():
        for s in f.sites():
            if s.ev['k'] == 'decl' and s.ev.get('static'):
                k += 1
                R.ob('C07.WMC.2', s.ev.get('t', '').startswith('const ') or ' const' in s.ev.get('t', ''), s,
                     'static local %s on the event path is read-only (%s)' % (s.ev['var'], s.ev.get('t')), key='static-local:%s' % s.ev['var'], nontrivial=False)
    R.ob('C07.WMC.2', True, core.sender(P), 'scanned %d functions of the event closure for static locals (%d found)' % (len(cl), k), key='scan', nontrivial=False)
    return cl


def slot_stability(P, R):
    n = 0
    for f in P.fns.values():
        for s in f.stores():
            if s.ev['k'] != 'store':
                continue
            lhs = s.ev['lhs']
            rv = root_var(lhs)
            if rv is None or rv['name'] != 'iauth_xquery_services':
                # appends go through the vector helper with the table's address
                continue
            if lhs.get('k') == 'idx' and on_path(lhs, 'vec'):
                n += 1
                rhs = s.ev.get('rhs')
                fresh = False
                if is_var(rhs):
                    for d in f.local_defs(rhs['name']):
                        v = d.ev.get('rhs') or d.ev.get('init') or {}
                        if v.get('k') == 'callref' and v.get('callee') in ('xmalloc', 'malloc', 'calloc') and f.before(d, s):
                            fresh = True
                empty = any(same(g[0], lhs) and g[1] == '==' and const_of(g[2]) == 0 for g in f.guards(s.bid))
                ok = const_of(rhs) == 0 or (fresh and empty)
                R.ob('C07.WMC.3', ok, s, 'service slot store %s = %s: a slot is only released (NULL) or an empty slot filled with a fresh service; client masks index slots'
                     % (sx(lhs), sx(rhs)), key='slot-store')
            if is_field(lhs, 'used') or (lhs.get('k') == 'mem' and lhs['field'] == 'used'):
                n += 1
                R.ob('C07.WMC.3', False, s, 'the service table\'s length is modified directly (%s): slot numbers held in client masks would move' % s.ev.get('op'), key='table-length')
    # a slot emptied through a pointer to it (`*slot = NULL`, the pointer always being `&table.vec[i]`) is a release as well
    for s in core.slot_release_sites(P):
        if (s.ev.get('lhs') or {}).get('k') == 'un':
            n += 1
            R.ob('C07.WMC.3', True, s, 'service slot store %s = NULL through a pointer to the slot: a release' % sx(s.ev['lhs']), key='slot-store', nontrivial=False)
    for f in P.fns.values():
        for s in f.calls():
            c = s.ev.get('callee') or ''
            if c.startswith('iauth_xquery_services_') and c.split('iauth_xquery_services_')[1] in ('wipe', 'clear', 'init') and f.name != 'module_destructor' \
                    and not f.name.startswith('iauth_xquery_services_'):      # one generated helper built from another: judged at ITS callers
                R.ob('C07.WMC.3', False, s, 'the service table is reset by %s outside the destructor' % c, key='table-reset')
            if c == 'iauth_xquery_services_append':
                n += 1
                R.ob('C07.WMC.3', True, s, 'new services are appended at the end of the table', key='table-append', nontrivial=False)
    R.floor('C07.WMC.3', 3)


def release_after_recheck(P, R, rule='C07.MPT.6'):
    """A reply is settled in two steps: the module records it, then the core re-checks the request - and that re-check
    may ask the module about its services again (a class rule's xreply_ok).  A service slot that a reload has retired is
    released when its last awaited answer is in; doing that BEFORE the re-check makes the answer to "did that service
    say OK?" depend on whether some other client still holds the slot.  On no path of a reply handler is the re-check
    reached after a call that can release a slot."""
    unit = 'modules/iauth_xquery.c'
    releasers = {s.fn.key for s in core.slot_release_sites(P, unit)}
    if not releasers:
        raise AnalysisBroken('no function releases a service slot')
    chk = P.need_fn('iauth_check_request')
    n = 0
    for f in P.unit_fns(unit):
        rel = [s for s in f.calls() if any(t.key in releasers for t in P.callees(s, False))]
        chks = [s for s in f.calls() if chk in P.callees(s, False)]
        if not rel or not chks:
            continue
        for r_ in rel:
            after = f.reach([e.dst for e in f.out[r_.bid]])
            late = [c for c in chks if c.bid in after or (c.bid == r_.bid and c.idx > r_.idx)]
            n += 1
            R.ob(rule, not late, r_, 'in %s the call that may release a service slot comes after the request has been re-checked' % f.name, key='release-after-recheck:%s' % f.name)
    R.floor(rule, 1, 'slot releases in functions that re-check a request')


def index_consistency(P, R):
    n = 0
    for f in P.unit_fns('modules/iauth_xquery.c'):
        shifts, subs = set(), set()
        exprs = []
        for s in f.sites():
            exprs += rules.event_exprs(s.ev)
        for b in f.blocks.values():
            c = (b.get('term') or {}).get('cond')
            if c is not None:
                exprs.append(c)
        for ex in exprs:
            for x in walk(ex):
                if x.get('k') == 'bin' and x['op'] == '<<' and const_of(x['l']) == 1:
                    shifts |= vars_in(x['r'])
                if x.get('k') == 'idx' and on_path(x, 'vec') and root_var(x) is not None and root_var(x)['name'] == 'iauth_xquery_services':
                    subs |= vars_in(x['index'])
        if shifts:
            n += 1
            # variables that are plain copies of one another (a search folded back from a helper hands its index over
            # through the return value) count as one index
            parent = {}

            def find(x):
                while parent.get(x, x) != x:
                    x = parent[x]
                return x
            for s in f.sites():
                ev = s.ev
                tgt = ev.get('var') if ev['k'] == 'decl' else (ev['lhs']['name'] if ev['k'] == 'store' and is_var(ev.get('lhs')) and ev.get('op') == '=' else None)
                val = ev.get('init') if ev['k'] == 'decl' else ev.get('rhs') if ev['k'] == 'store' else None
                if tgt and is_var(val):
                    a, b = find(tgt), find(val['name'])
                    if a != b:
                        parent[a] = b
            # a helper folded into f keeps its own variables (`ii@helper#n`): its walk is judged on its own, as it
            # was when it was a function
            def origin(v):
                return v.split('@', 1)[1] if '@' in v and not v.startswith('__ret@') else ''
            ok = True
            for o in {origin(v) for v in shifts}:
                sh = {v for v in shifts if origin(v) == o}
                su = {v for v in subs if origin(v) == o} or ({v for v in subs} if o else set())
                classes = {find(v) for v in sh | su}
                if not (len(classes) == 1 or (len(sh) == 1 and (not su or su == sh))):
                    ok = False
            R.ob('C07.TAB.1', ok, f, 'mask bit index %s and service table subscript %s are the same variable' % (sorted(shifts), sorted(subs)), key='index:%s' % f.name)
    R.floor('C07.TAB.1', 4)


def keyed_state(P, R):
    n = 0
    CLI = 'struct iauth_xquery_client *'
    for f in P.unit_fns('modules/iauth_xquery.c'):
        for s in f.sites():
            ev = s.ev
            tgt = val = None
            if ev['k'] == 'store' and is_var(ev.get('lhs')) and ev['lhs'].get('t') == CLI and ev.get('op') == '=':
                tgt, val = ev['lhs']['name'], ev.get('rhs')
            if ev['k'] == 'decl' and ev.get('t') == CLI and ev.get('init') is not None:
                tgt, val = ev['var'], ev['init']
            if tgt is None:
                continue
            n += 1
            ok = False
            what = sx(val)
            if val.get('k') == 'callref' and val.get('callee') == 'set_find':
                a = val['args']
                own = a[0].get('k') == 'un' and a[0]['op'] == '&' and is_field(a[0]['e'], 'data', core.REQ_REC)
                key = a[1].get('k') == 'un' and a[1]['op'] == '&' and is_var(a[1]['e'])
                if key:
                    ds = f.local_defs(a[1]['e']['name'])
                    key = bool(ds) and all((d.ev.get('rhs') or d.ev.get('init') or {}).get('k') == 'un' and (d.ev.get('rhs') or d.ev.get('init'))['op'] == '&'
                                           and is_var((d.ev.get('rhs') or d.ev.get('init'))['e'], 'iauth_xquery') for d in ds)
                ok = own and key
            elif val.get('k') == 'bin' and val['op'] == '+' and is_var(val['l']):
                # set_node_data(node): the allocation that is inserted into this request's data set
                node = val['l']['name']
                ok = any(rules.is_call(t, 'set_insert') and is_var(t.ev['args'][1], node) and t.ev['args'][0].get('k') == 'un'
                         and is_field(t.ev['args'][0]['e'], 'data', core.REQ_REC) for t in f.calls())
            R.ob('C07.GRD.1', ok, s, 'per-client record %s comes from the request\'s own data set, keyed by the module descriptor (%s)' % (tgt, what), key='cli-source')
    R.floor('C07.GRD.1', 4)


def mask_width(P, R):
    """ARITH.1: whoever produces a new slot index bounds it by the mask width (32)."""
    n = 0
    width = 32
    for f in P.fns.values():
        for s in f.calls('iauth_xquery_services_append'):
            n += 1
            ok = False
            for g in f.guards(s.bid):
                ub = None
                if (is_field(g[0], 'used') or is_var(g[0])) and const_of(g[2]) is not None:
                    if g[1] == '<':
                        ub = const_of(g[2])
                    elif g[1] == '<=':
                        ub = const_of(g[2]) + 1
                if ub is not None and ub <= width:
                    ok = True
            R.ob('C07.ARITH.1', ok, s, 'a service is appended only while the table is shorter than the %d-bit client masks (1u << index aliases otherwise)' % width,
                 key='append:no-width-bound')
    R.floor('C07.ARITH.1', 1, 'producers of service slot indices')


def references_returned(P, R, rule='C07.WIRE.1'):
    """A module that counts, per service, the clients waiting for it gives the references back when a client goes away by
    any road - the reply arriving is only one of them.  A client that is withdrawn (D), registered (T) or decided while a
    reply is outstanding would otherwise keep the service's slot alive for the life of the process, and what slots are
    alive decides what the next client's class lookup and queries see.  Rule: a unit that counts such references
    (`refs++` on a service) installs both of the core's retire hooks (iauth.h: modules keeping per-request state must),
    and a release of the count is reachable from each."""
    slots = P.slots()
    n = 0
    for unit in sorted({f.unit for f in P.fns.values() if f.unit.startswith('modules/')}):
        takes = [s for f in P.unit_fns(unit) for s in f.stores() if s.ev['k'] == 'store' and holds.outer_field(s.ev['lhs']) == 'refs' and s.ev.get('op') in ('++', '+=')]
        if not takes:
            continue
        for slot in ('iauth_module::disconnect', 'iauth_module::registered'):
            impl = [P.fns[k] for k in slots.get(slot, ()) if P.fns[k].unit == unit]
            gives = []
            for g in impl:
                for k, h in P.closure([g], may=False).items():
                    if h.unit == unit and any(t.ev['k'] == 'store' and holds.outer_field(t.ev['lhs']) == 'refs' and t.ev.get('op') in ('--', '-=') for t in h.stores()):
                        gives.append(g.name)
                        break
            n += 1
            R.ob(rule, bool(gives), takes[0], '%s counts references on services for its clients and gives them back when a client is %s (hook %s: %s)' % (
                unit, 'withdrawn' if slot.endswith('disconnect') else 'registered or decided', slot.split('::')[1], ', '.join(gives) if gives else ('installed but releases nothing' if impl else 'not installed')),
                key='refs-returned:%s' % slot.split('::')[1])
    R.floor(rule, 2, 'retire hooks of reference-counting modules')


def run(P, R, tier):
    references_returned(P, R)
    # whether a dropped service's slot is still there depends on other clients' pending queries: it answers nobody
    from . import c17 as _c17
    _c17.retired_namesake_skipped(P, R, 'C07.GRD.4')
    storage_audit(P, R)
    slot_stability(P, R)
    index_consistency(P, R)
    release_after_recheck(P, R)
    keyed_state(P, R)
    junk_inert(P, R, 'C07.MPT.1')
    holds.refs_discipline(P, R, 'C07.WMC.4')
    mask_width(P, R)
    from ..report import Remap
    from . import c04, c10
    # a reply is matched against the addressed request's own serial, never against daemon-wide state
    r, sepch, idv, serv = c04.tag_tables(P, Remap(R, {}))
    c04.validated_return(P, Remap(R, {'C04.GRD.1': 'C07.GRD.2'}), r, sepch, idv, serv)
    # a timer that outlives its request fires on whoever reuses the memory: one timer per request, freed with it
    cl = c10.cleanup_fn(P, Remap(R, {'C10.MPT.1': 'C07.TMR.1', 'C10.WIRE.1': 'C07.TMR.1'}))
    c10.timer_lifecycle(P, Remap(R, {'C10.WMC.2': 'C07.TMR.1'}), cl)
    from . import c08, c19
    # a CR inside one client's free text must not become a line about another client
    c08.line_splitting(P, R, 'C07.TAB.2')
    # the request table orders ids with the int comparator: a comparator that is not a total order files one client
    # where another client's traffic decides whether it is found
    c19.comparators(P, R, 'C07.ARITH.2')
    # a finished request is removed by its own record (the table key is its id), and replies reach requests only
    # through the validating lookup
    from . import c01
    V, softfns = c01.fmt_rules(P, Remap(R, {}))
    c01.verdict_discipline(P, Remap(R, {'C01.MPT.1': 'C07.MPT.3'}, keys=('removes-own',)), V)
    c04.lookup_discipline(P, Remap(R, {'C04.WMC.1': 'C07.GRD.2'}))
    c04.tag_capacity(P, R, 'C07.TAB.3')
    # whether a client is held depends on its own awaiting mask, not on what other clients wait for
    holds.soft_hold_typestate(P, R, 'C07.GRD.3')
    # one client's line is handled whatever line of another client precedes it in the same read
    c08.drains_buffer(P, R, 'C07.MPT.2')
    # a reload does not move the slots that pending clients' masks refer to (sweep after the re-add)
    from . import c17
    H17 = c17.wiring(P, Remap(R, {}))
    c17.rebuilds(P, Remap(R, {'C17.MPT.3': 'C07.MPT.4'}), H17)
    # two clients are told apart by id, serial and slot bit: none of them is truncated when stored
    rules.narrowing_fields(P, R, 'C07.WID.1', ('modules/iauth_core.c', 'modules/iauth_xquery.c', 'modules/iauth_class.c'))
    rules.counter_widths(P, R, 'C07.WID.2', recs=('iauth_xquery_service', 'iauth_request', 'set'))
    # every complete line that was read is dispatched in this wake-up: none dropped, none left waiting for unrelated traffic
    from . import c03 as _c03
    _c03.reader_drains(P, R, 'C07.MPT.5')
    # when a client's wait ends does not depend on which other clients are waiting: each request has a timer of its own
    from . import c03 as _c03t
    from ..report import Remap as _Remap
    _c03t.timer(P, _Remap(R, {'C03.MPT.1': 'C07.TMR.2'}, keys=('timer-created',)))
    return EXPLANATION, ASSUMPTIONS
