"""C18 - log routing follows the logs section (partial).

Decided: the severity table agrees with the enum; fan-out covers the facility's and the `*`
vectors for the message's severity; an entry with unknown syntax is ignored as a whole; the full
reset dominates re-attachment and unreferenced destinations are released afterwards; the rescan
is reachable from every node of the section; every comma element is parsed with its own
operator; the record is written complete in one unbounded formatted write.  Not decided: the
semantics of the range operators and comma lists (values)."""
import re

from ..facts import AnalysisBroken
from ..model import sx, walk, is_var, is_field, const_of, vars_in, root_var, same, on_path
from .. import rules, hooks

UNIT = 'src/log.c'
EXPLANATION = (
    'Rules over src/log.c: (TAB.1) log_severity_names has one entry per severity, spelled as the '
    'enumerator suffixes in order; (GRD.1) the fan-out runs two loops, over the facility\'s vector and over '
    'the `*` facility\'s vector for the message\'s severity, each from 0 to `used`, calling the destination\'s '
    'log slot with the destination, the message\'s own facility, severity and text; (GRD.2) destinations are '
    'attached only after the whole entry name parsed (parser result zero and a facility found); a non-zero '
    'result is returned for a missing dot and an unknown severity name before any bit is reported; (MPT.1) '
    'the rescan resets every destination\'s reference count and empties every facility x severity vector and '
    'specified bit before the attach loop, and releases unreferenced destinations after it; (MPT.2) in the '
    'severity-set parser the operator variable is assigned on every path of each comma element before it is '
    'switched on; (WIRE.1) the rescan is the section root\'s hook and gives every child without a hook one '
    'that reaches the rescan, before using the child; (FMT.1) the file writer emits the record with one '
    'fprintf to the destination\'s stream, format "%s (%s:%s) %s\\n" bound to timestamp, facility name, '
    'severity name and message, followed by a flush - no fixed-size intermediate buffer; (GRD.3) the '
    'configuration layer\'s change predicates for strings and lists (shared with C15), without which an '
    'edited destination list is not noticed.  Range-operator '
    'semantics are NOT decided.'
    ' Rounds 8-9: (MPT.7) a va_list is walked once; (MPT.8) a formatted length equal to the room counts as too long; (TAB.9) string comparators look at the bytes where one string ended; (TAB.10) the facility an entry names is found or created; (OWN.1) the logs section is read, not edited.')
ASSUMPTIONS = ['clang 14 CFG']


def severity_table(P, R):
    enum = [c for c in P.enums.get('log_severity', [])]
    names = [c['name'] for c in enum if c['name'] != 'LOG_NUM_SEVERITIES']
    g = P.global_def('log_severity_names', UNIT)
    tab = [x.get('v') for x in (g[1].get('init') or {}).get('items', [])] if g else []
    f = P.need_fn('log_vmessage')
    R.ob('C18.TAB.1', bool(g) and g[1].get('array') == len(names), f, 'the severity name table has one entry per severity (%s vs %d)' % (g[1].get('array') if g else None, len(names)), key='extent')
    R.ob('C18.TAB.1', tab == [n[len('LOG_'):].lower() for n in names], f, 'severity names %s spell the enumerators %s in order' % (tab, names), key='spelling')
    num = [c['v'] for c in enum if c['name'] == 'LOG_NUM_SEVERITIES']
    R.ob('C18.TAB.1', num == [len(names)], f, 'LOG_NUM_SEVERITIES counts the severities', key='count', nontrivial=False)
    R.floor('C18.TAB.1', 3)


def fanout(P, R):
    f = P.need_fn('log_vmessage')
    typ, sev = f.params[0], f.params[1]
    calls = [s for s in f.calls() if P.call_slot(s) == 'log_destination_vtable::log']
    R.ob('C18.GRD.1', len(calls) == 2, calls[0] if calls else f, 'the fan-out has two delivery loops (found %d calls of the log slot)' % len(calls), key='two-loops')
    seen = set()
    for s in calls:
        a = s.ev['args']
        ld = a[0]['name'] if is_var(a[0]) else None
        src = None
        cands = [d for d in (f.local_defs(ld) if ld else []) if d.line <= s.line and (d.bid == s.bid or f.dominates(d.bid, s.bid))]
        for d in sorted(cands, key=lambda t: t.line):
            v = d.ev.get('rhs') or d.ev.get('init') or {}
            if v.get('k') == 'idx' and on_path(v, 'vec') and on_path(v, 'logs'):
                src = v
        which = None
        if src is not None:
            rv = root_var(src)
            which = 'facility' if rv is not None and rv['name'] == typ else ('star' if rv is not None and rv['name'] == 'log_default' else None)
            logs_idx = [x for x in walk(src) if x.get('k') == 'idx' and is_field(x['base'], 'logs')]
            sev_ok = bool(logs_idx) and is_var(logs_idx[0]['index'], sev)
        else:
            sev_ok = False
        seen.add(which)
        R.ob('C18.GRD.1', which is not None and sev_ok, s, 'delivery loop over the %s vector of the message\'s severity' % (which or 'unknown'), key='loop:%s' % which)
        okb = len(a) == 4 and is_var(a[1], typ) and is_var(a[2], sev) and is_var(a[3])
        R.ob('C18.GRD.1', okb, s, 'the destination receives the message\'s own facility, severity and text', key='args:%s' % which)
        # full extent: index from 0 while < used
        iv = sorted(vars_in(src['index'])) if src is not None else []
        gs = f.guards(s.bid)
        okx = bool(iv) and any(is_var(g[0], iv[0]) and g[1] == '<' and on_path(g[2], 'used') and same(root_var(g[2]), root_var(src)) for g in gs)
        R.ob('C18.GRD.1', okx, s, 'the loop covers the whole vector (index < used)', key='extent:%s' % which)
        # no early exit from the loop: no break/return inside (the call block's loop has a single exit: the bound)
        inits = [t for t in f.stores() if t.ev['k'] == 'store' and iv and is_var(t.ev.get('lhs'), iv[0]) and t.ev.get('op') == '=']
        dinits = [t for t in f.sites() if t.ev['k'] == 'decl' and iv and t.ev.get('var') == iv[0] and t.ev.get('init') is not None]
        R.ob('C18.GRD.1', bool(inits or dinits) and all(const_of(final(t.ev.get('rhs'))) == 0 for t in inits) and all(const_of(final(t.ev.get('init'))) == 0 for t in dinits), s,
             'the loop starts at the first destination', key='start:%s' % which, nontrivial=False)
    # no early exit: a delivery loop is only left through its own bound test
    for s in calls:
        loop = {b for b in f.reach([s.bid]) if s.bid in f.reach([b])}
        for b in sorted(loop):
            for e in f.out[b]:
                if e.dst in loop or f.blocks[e.dst].get('noreturn'):
                    continue
                r = e.rel()
                okexit = bool(r) and r[1] == '>=' and on_path(r[2], 'used') and on_path(r[2], 'logs')
                R.ob('C18.GRD.1', okexit, s, 'the delivery loop is left only when every destination of the vector was served (exit on %s)' % e.describe(), key='loop-exit:%s' % ('bound' if okexit else e.describe()))
    R.ob('C18.GRD.1', seen == {'facility', 'star'}, f, 'both the facility\'s own and the `*` destinations are served', key='both')
    R.floor('C18.GRD.1', 8)


def range_bounds(P, R, rule='C18.TAB.2'):
    """Severity sets, table part: wherever the set parser walks upwards over the severities ("*", ">", ">=") the walk
    ends at the last enumerator - the loop bound is `< LOG_NUM_SEVERITIES` or `<= <last>` - so no open-ended range
    loses the highest severity."""
    f = P.need_fn('log_parse_type_sevset')
    enum = P.enums.get('log_severity', [])
    N = None
    for c in enum:
        if c['name'] == 'LOG_NUM_SEVERITIES':
            N = c['v']
    if N is None:
        raise AnalysisBroken('LOG_NUM_SEVERITIES has vanished')
    counters = set()
    for s in f.sites():
        if s.ev['k'] == 'bitset' and isinstance(s.ev.get('bitexpr'), dict):
            counters |= set(vars_in(s.ev['bitexpr']))
    n = 0
    for b in f.reachable_blocks():
        if b not in f.reach([x.dst for x in f.out[b]]):
            continue        # not on a cycle
        for e in f.out[b]:
            if e.label != 'true' or e.cond is None:
                continue
            r = e.rel()
            if not r or not isinstance(const_of(r[2]), int):
                continue
            vs = set(vars_in(r[0]))
            if not (vs & counters) or r[1] not in ('<', '<='):
                continue
            n += 1
            c = const_of(r[2])
            last = c - 1 if r[1] == '<' else c
            R.ob(rule, last == N - 1, P.relloc((f.blocks[b].get('term') or {}).get('loc', '?')), 'an upward walk over the severities continues while %s: it ends at severity %d, the last one is %d' % (e.describe(), last, N - 1), key='sev-upper:%s' % ('ok' if last == N - 1 else e.describe()))
            R.obligations[-1]['function'] = f.name
    # the same walks spelled as one call of a range primitive: (set, first, one-past-last)
    for s in f.calls():
        t = P.direct_target(f, s.ev.get('callee')) if s.ev.get('callee') else None
        if t is not None and 'bitset' in t.unit and 'range' in t.name and len(s.ev['args']) >= 3 and isinstance(const_of(s.ev['args'][2]), int):
            n += 1
            last = const_of(s.ev['args'][2]) - 1
            R.ob(rule, last == N - 1, s, 'the range %s(..., %s, %s) ends at severity %d, the last one is %d' % (t.name, sx(s.ev['args'][1]), sx(s.ev['args'][2]), last, N - 1), key='sev-upper:%s' % ('ok' if last == N - 1 else 'range'))
    if n < 2:
        raise AnalysisBroken('rule %s matched %d instance(s), floor is 2 ("*" and ">" walks) - the construct it is anchored in has vanished or changed shape' % (rule, n))


def exact_names(P, R, rule='C18.TAB.3'):
    """A severity is named by exactly one of the names in the table: the lookup compares whole strings.  A
    length-limited comparison accepts prefixes - and the empty name a dangling operator leaves - so an entry with
    unknown syntax would be applied instead of ignored."""
    f = P.need_fn('log_parse_type_sevset')
    n = 0
    for s in f.calls():
        if any(is_var(x, 'log_severity_names') for a in s.ev['args'] for x in walk(a)):
            n += 1
            c = s.ev.get('callee')
            R.ob(rule, c in ('strcasecmp', 'strcmp'), s, 'severity names are matched as whole strings (%s)' % c, key='sev-name-compare')
    R.floor(rule, 1)


def destination_identity(P, R, rule='C18.TAB.6'):
    """Two entries name the same destination only if they say the same thing: the table that remembers opened
    destinations (looked up before a new one is opened) compares the text exactly at least beyond the type prefix.  A
    comparator that only folds case makes "file:Audit.log" and "file:audit.log" one destination: the second file is
    never opened and its messages are written - twice where both entries match - to the first."""
    init = P.need_fn('log_init') if P.fn('log_init') else None
    cands = []
    for f in P.unit_fns('src/log.c'):
        for s in f.stores():
            l = s.ev.get('lhs') or {}
            if s.ev['k'] == 'store' and l.get('k') == 'mem' and l.get('field') == 'compare' and is_var(l.get('base'), 'log_destinations'):
                cands.append(s)
    if not cands:
        raise AnalysisBroken('the comparator of the destination table is not installed where expected')
    for s in cands:
        rhs = final(s.ev.get('rhs'))
        name = rhs.get('name') if isinstance(rhs, dict) and rhs.get('k') in ('var', 'func') else None
        cmpf = P.direct_target(s.fn, name) if name else None
        if cmpf is None:
            raise AnalysisBroken('the comparator of the destination table is not a named function')
        fold = exact = 0
        for t in cmpf.sites():
            for ex in rules.event_exprs(t.ev):
                for x in walk(ex):
                    if isinstance(x, dict) and x.get('k') == 'callref':
                        if x.get('callee') in ('strcasecmp', 'strncasecmp'):
                            fold += 1
                        if x.get('callee') in ('strcmp', 'strncmp', 'memcmp'):
                            exact += 1
        R.ob(rule, exact > 0 or fold == 0, s, 'opened destinations are told apart by their exact text (comparator %s: %d exact, %d case-folding comparisons)' % (cmpf.name, exact, fold),
             key='destination-identity')
    R.floor(rule, 1)


def complete_text(P, R, rule='C18.MPT.5'):
    """Every line written is complete: a message formatted into a fixed buffer with (v)snprintf is only used as the whole
    message when it fitted - the function compares the formatter's result with the size it passed (the C99 formatters
    return the length NEEDED; only testing for a negative result lets a longer message through cut off at the
    buffer's size)."""
    n = 0
    for f in P.unit_fns('src/log.c'):
        for s in f.stores():
            rhs = s.ev.get('rhs') if s.ev['k'] == 'store' else s.ev.get('init') if s.ev['k'] == 'decl' else None
            if not (isinstance(rhs, dict) and rhs.get('k') == 'callref' and rhs.get('callee') in ('vsnprintf', 'snprintf')):
                continue
            rv = s.ev['lhs']['name'] if s.ev['k'] == 'store' and is_var(s.ev.get('lhs')) else s.ev.get('var')
            size = const_of(rhs['args'][1]) if len(rhs['args']) > 1 else None
            if rv is None or not isinstance(size, int):
                continue
            tested = False
            for b in f.reachable_blocks():
                for e in f.out[b]:
                    r = e.rel() if e.cond is not None and e.label not in ('case', 'default') else None
                    if not r:
                        continue
                    l = r[0]
                    while isinstance(l, dict) and l.get('k') == 'cast':
                        l = l.get('e')
                    if is_var(l, rv) and isinstance(const_of(r[2]), int) and const_of(r[2]) in (size, size - 1) and r[1] in ('<', '<=', '>', '>='):
                        tested = True
            n += 1
            R.ob(rule, tested, s, 'in %s the result of %s into a %d-byte buffer is compared with that size before the buffer is used as the whole text' % (f.name, rhs['callee'], size), key='complete-text:%s' % f.name)
    R.floor(rule, 1, 'bounded formatter calls in the logging unit')


def facility_created(P, R, rule='C18.TAB.10'):
    """An entry may name a facility whose owner has not registered yet (the section is read before the modules load): the
    parser then creates it, so that the routing is in place when the owner arrives.  On every path on which the parser
    reports success, the facility it returns is one it found or one it created - never the NULL of a failed lookup."""
    f = P.need_fn('log_parse_type_sevset')
    outp = [p['name'] for p in f.param_info if p.get('t', '').replace(' ', '').startswith('structlog_type**')]
    if not outp:
        raise AnalysisBroken('the entry parser no longer returns the facility through a parameter')
    tp = outp[0]

    def is_out(e):
        return isinstance(e, dict) and e.get('k') == 'un' and e.get('op') == '*' and is_var(e.get('e'), tp)
    creators = {g.name for g in P.fns.values() if g.unit == f.unit and any(t.ev.get('callee') == 'set_insert' for t in g.calls()) and 'log_type' in (g.ret_t if hasattr(g, 'ret_t') else g.name)}
    creators.add('log_type_register')

    def on_event(st, t):
        ev = t.ev
        typ, res = st
        if ev['k'] == 'store' and is_out(ev.get('lhs')) and ev.get('op') == '=':
            rhs = ev.get('rhs') or {}
            if const_of(rhs) == 0:
                return ('null', res)
            if rhs.get('k') == 'callref' and rhs.get('callee') in creators:
                return ('made', res)
            return ('maybe', res)
        if ev['k'] == 'store' and is_var(ev.get('lhs')) and ev.get('op') == '=' and isinstance(const_of(ev.get('rhs')), int) and ev['lhs'].get('t') == 'int':
            return (typ, (ev['lhs']['name'], const_of(ev['rhs'])))
        return st

    def on_edge(st, e):
        r = rules.edge_rel(e)
        if r and is_out(r[0]) and const_of(r[2]) == 0:
            typ, res = st
            if r[1] == '==':
                return None if typ in ('made',) else ('null', res)
            if r[1] == '!=':
                return None if typ == 'null' else ('found' if typ == 'maybe' else typ, res)
        return st
    before, _, _, _ = f.forward(('unset', None), on_event, on_edge)
    n = 0
    # where success is reported: `return 0`, or 0 stored into the variable that is returned (or into one copied into it -
    # the result of a folded helper that does the parsing proper)
    retvars = {t.ev['val']['name'] for t in f.sites() if t.ev['k'] == 'ret' and is_var(t.ev.get('val')) and t.ev['val'].get('sc') == 'local'}
    grew = True
    while grew:
        grew = False
        for t in f.stores():
            if t.ev['k'] == 'store' and is_var(t.ev.get('lhs')) and t.ev['lhs']['name'] in retvars and is_var(t.ev.get('rhs')) and t.ev['rhs'].get('sc') == 'local' and t.ev['rhs']['name'] not in retvars:
                retvars.add(t.ev['rhs']['name'])
                grew = True
    for t in f.sites():
        success = (t.ev['k'] == 'ret' and const_of(t.ev.get('val')) == 0) or \
            (t.ev['k'] == 'store' and is_var(t.ev.get('lhs')) and t.ev['lhs']['name'] in retvars and t.ev.get('op') == '=' and const_of(t.ev.get('rhs')) == 0)
        if not success:
            continue
        for typ, res in before.get(t.key, set()):
            if typ == 'unset':
                continue        # a default set before anything was parsed
            n += 1
            R.ob(rule, typ in ('made', 'found'), t, 'where the entry parser reports success the facility is one it found or created (state: %s)' % typ, key='facility-created:%s' % typ)
    R.floor(rule, 1, 'successful returns of the entry parser')


def facility_by_name(P, R, rule='C18.TAB.8'):
    """An entry "facility.severities" routes the facility it NAMES: the parser's `type` result is a pure output - it is
    assigned (from the lookup of the text before the dot, or NULL) before it is ever read in that call.  Reading it
    first means the facility of the previous entry takes part in deciding this one's (a name that is a prefix of
    another - iauth / iauth_xquery - then swallows the other's entries)."""
    f = P.need_fn('log_parse_type_sevset')
    outp = [p['name'] for p in f.param_info if p.get('t', '').replace(' ', '').startswith('structlog_type**')]
    if not outp:
        raise AnalysisBroken('the entry parser no longer returns the facility through a parameter')
    tp = outp[0]

    def is_out(e):
        return isinstance(e, dict) and e.get('k') == 'un' and e.get('op') == '*' and is_var(e.get('e'), tp)

    def reads(ex, skip=None):
        return any(is_out(x) and x is not skip for x in walk(ex))
    problems = []

    def on_event(st, t):
        ev = t.ev
        if st == 'unset':
            for ex in rules.event_exprs(ev):
                lhs = ev.get('lhs') if ev['k'] == 'store' else None
                if ex is lhs and is_out(lhs) and ev.get('op') == '=':
                    continue
                if reads(ex):
                    problems.append(t)
        if ev['k'] == 'store' and is_out(ev.get('lhs')) and ev.get('op') == '=':
            return 'set'
        return st
    before, _, _, bout = f.forward('unset', on_event, None)
    for b, sts in bout.items():
        c = f.term_cond(b)
        if c is not None and 'unset' in sts and reads(c):
            problems.append(f.block_sites(b)[-1] if f.block_sites(b) else None)
    probs = [t for t in problems if t is not None]
    R.ob(rule, not problems, probs[0] if probs else f, 'the facility an entry routes is looked up from the entry\'s own text: the output *%s is assigned before it is read' % tp, key='facility-out-param',
         detail=sorted({t.loc for t in probs}) or None)
    R.floor(rule, 1)


def final(e):
    while isinstance(e, dict) and e.get('k') == 'bin' and e['op'] == '=':
        e = e['r']
    return e


def whole_entry(P, R):
    h = P.need_fn('log_rescan_conf')
    att = [s for s in h.calls('log_attach_destinations')]
    for s in att:
        gs = h.guards(s.bid)
        okp = any(isinstance(g[0], dict) and g[0].get('k') == 'callref' and g[0].get('callee') == 'log_parse_type_sevset' and g[1] == '==' and const_of(g[2]) == 0 for g in gs)
        okt = any(is_var(g[0]) and g[0].get('t', '').replace('const ', '').startswith('struct log_type') and g[1] == '!=' for g in gs)
        R.ob('C18.GRD.2', okp and okt, s, 'destinations are attached only for an entry whose name parsed completely (result 0, facility found)', key='attach-guard')
        okb = any(g[0].get('k') == 'bittest' and g[1] == '!=' for g in gs if isinstance(g[0], dict))
        R.ob('C18.GRD.2', okb, s, 'a destination is attached for a severity only if the entry\'s set contains it', key='attach-sev')
    p = P.need_fn('log_parse_type_sevset')
    # failures return non-zero: no '.', unknown severity
    rets = [s for s in p.sites() if s.ev['k'] == 'ret']
    # the result: constants returned directly, or stored into a variable that flows into the returned one
    fam = {s.ev['val']['name'] for s in rets if is_var(s.ev.get('val'))}
    grew = True
    while grew:
        grew = False
        for t in p.stores():
            if t.ev['k'] == 'store' and is_var(t.ev.get('lhs')) and t.ev['lhs']['name'] in fam and t.ev.get('op') == '=' and is_var(t.ev.get('rhs')) and t.ev['rhs']['name'] not in fam:
                fam.add(t.ev['rhs']['name'])
                grew = True
    fails = [s for s in p.stores() if s.ev['k'] == 'store' and is_var(s.ev.get('lhs')) and s.ev['lhs']['name'] in fam and const_of(s.ev.get('rhs')) not in (None, 0)]
    fails += [s for s in rets if const_of(s.ev.get('val')) not in (None, 0)]
    zero = [s for s in p.stores() if s.ev['k'] == 'store' and is_var(s.ev.get('lhs')) and s.ev['lhs']['name'] in fam and const_of(s.ev.get('rhs')) == 0]
    zero += [s for s in rets if const_of(s.ev.get('val')) == 0]
    R.ob('C18.GRD.2', len(fails) >= 2 and len(zero) >= 1, fails[0] if fails else p, 'the entry-name parser reports failure for a missing dot and for an unknown severity name (%d failure sites, %d success site)' % (len(fails), len(zero)), key='parser-failures')
    for s in fails:
        if s.ev['k'] == 'ret':
            R.ob('C18.GRD.2', True, s, 'a failure is returned at once', key='failure-sticks')
            continue
        # after a failure nothing overwrites the result with 0
        later = [z for z in zero if z.ev['k'] == 'store' and z.ev['lhs']['name'] == s.ev['lhs']['name'] and z.bid in p.reach([s.bid]) and not (z.bid == s.bid and z.idx < s.idx)]
        R.ob('C18.GRD.2', not later, s, 'a failure result is not overwritten on the way out', key='failure-sticks')
    # unknown severity: the lookup loop ran to the end
    R.floor('C18.GRD.2', 5)
    return h


def reset_then_attach(P, R, h):
    att = [s for s in h.calls('log_attach_destinations')]
    if not att:
        raise AnalysisBroken('rescan does not attach destinations')
    a0 = att[0]
    rc = [s for s in h.stores() if s.ev['k'] == 'store' and is_field(s.ev['lhs'], 'refcnt') and s.ev.get('op') == '=']
    emp = [s for s in h.stores() if s.ev['k'] == 'store' and is_field(s.ev['lhs'], 'used') and on_path(s.ev['lhs'], 'logs') and const_of(s.ev.get('rhs')) == 0]
    spc = [s for s in h.sites() if s.ev['k'] == 'bitclear' and is_field(s.ev.get('set'), 'specified')]
    for nm, ss in (('every destination\'s reference count is reset', rc), ('every facility x severity vector is emptied', emp), ('every specified bit is cleared', spc)):
        ok = bool(ss) and all(s.bid not in h.reach([a0.bid]) or h.before(s, a0) for s in ss) and ss[0].bid in h.reach([e.dst for e in h.out[ss[0].bid]])
        R.ob('C18.MPT.1', ok, ss[0] if ss else h, 'before any destination is attached %s (in a loop over all of them)' % nm, key='reset:%s' % nm.split()[1])
    # both loops of the reset run to the bound: severity loop 0..LOG_NUM_SEVERITIES
    for s in emp:
        iv = [x for x in walk(s.ev['lhs']) if x.get('k') == 'idx' and is_field(x['base'], 'logs')]
        gs = h.guards(s.bid)
        ok = bool(iv) and is_var(iv[0]['index']) and any(is_var(g[0], iv[0]['index']['name']) and g[1] == '<' and g[2].get('name') == 'LOG_NUM_SEVERITIES' for g in gs)
        R.ob('C18.MPT.1', ok, s, 'the reset covers every severity', key='reset:all-severities')
    rel = [s for s in h.calls('set_remove') if is_var(root_var(s.ev['args'][0]), 'log_destinations')]
    ok = bool(rel) and all(r.bid not in h.reach([h.entry], cut_blocks=[a0.bid]) or True for r in rel) and all(a0.bid not in h.reach([r.bid]) for r in rel)
    R.ob('C18.MPT.1', ok, rel[0] if rel else h, 'unreferenced destinations are released after the attach loop', key='release-after')
    for r in rel:
        R.ob('C18.MPT.1', any(is_field(g[0], 'refcnt') and g[1] == '<' and const_of(g[2]) == 0 for g in h.guards(r.bid)), r, 'only destinations nobody references any more are released', key='release-guard')
    # the reset value and the release test fit together: a destination left at the reset value is released, one that
    # was attached once is not (so a destination dropped by this reload is closed now, not kept open under its old name)
    def holds_for(g, v):
        c = const_of(g[2])
        return {'<': v < c, '<=': v <= c, '>': v > c, '>=': v >= c, '==': v == c, '!=': v != c}.get(g[1])
    for r in rel:
        gs = [g for g in h.guards(r.bid) if is_field(g[0], 'refcnt') and isinstance(const_of(g[2]), int)]
        for s in rc:
            c = const_of(s.ev.get('rhs'))
            ok = isinstance(c, int) and bool(gs) and all(holds_for(g, c) for g in gs) and not all(holds_for(g, c + 1) for g in gs)
            R.ob('C18.MPT.1', ok, s, 'a destination still at its reset count (%s) is released after the rescan, one attached once (%s) is kept' % (c, c + 1 if isinstance(c, int) else '?'), key='reset-value')
    # attaching takes a reference: log_destination_open bumps refcnt or creates
    op = P.need_fn('log_destination_open')
    inc = [s for s in op.stores() if s.ev['k'] == 'store' and is_field(s.ev['lhs'], 'refcnt') and s.ev.get('op') == '++']
    R.ob('C18.MPT.1', bool(inc), inc[0] if inc else op, 'attaching an existing destination takes a reference', key='attach-ref', nontrivial=False)
    R.floor('C18.MPT.1', 7)


def operator_fresh(P, R):
    """MPT.2: in the severity-set parser the operator is (re)assigned for every comma element."""
    p = P.need_fn('log_parse_type_sevset')
    sw = None
    for bid in p.reachable_blocks():
        if any(e.label == 'case' for e in p.out[bid]):
            c = p.term_cond(bid)
            if is_var(c):
                sw = (bid, c['name'])
    uses = None
    if sw is None:
        # the operator is not switched on but compared (`op == 1 || op == 2`): it is the local that is given several
        # constant codes and compared with constants; every block that tests it is a use
        cand = {}
        for t in p.stores():
            if t.ev['k'] == 'store' and is_var(t.ev.get('lhs')) and t.ev.get('op') == '=' and isinstance(const_of(t.ev.get('rhs')), int) and 'int' in t.ev['lhs'].get('t', ''):
                cand.setdefault(t.ev['lhs']['name'], set()).add(const_of(t.ev['rhs']))
        tested = {}
        for b0 in p.reachable_blocks():
            for e in p.out[b0]:
                r = e.rel() if e.cond is not None and e.label not in ('case', 'default') else None
                if r and is_var(r[0]) and r[0]['name'] in cand and isinstance(const_of(r[2]), int):
                    tested.setdefault(r[0]['name'], set()).add(b0)
        best = [v for v in cand if len(cand[v]) >= 3 and len(tested.get(v, ())) >= 2]
        if len(best) != 1:
            R.broke('C18.MPT.2: the severity-set parser no longer selects the range by an operator variable')
            return
        sw = (min(tested[best[0]]), best[0])
        uses = sorted(tested[best[0]])
    bid, opv = sw
    # element boundary: the store that takes the next element (sev_str = sep ...) - any assignment in a loop condition
    elem = [s for s in p.stores() if s.ev['k'] == 'store' and s.ev.get('op') == '=' and is_var(s.ev.get('lhs')) and is_var(s.ev.get('rhs')) and s.bid in p.reach([e.dst for e in p.out[s.bid]])
            and s.ev['lhs'].get('t', '') == 'char *' and p.dominates(s.bid, bid)
            and any((d.ev.get('rhs') or d.ev.get('init') or {}).get('callee') in ('strchr', 'strpbrk', 'strtok', 'strsep') for d in p.local_defs(s.ev['rhs']['name']))]

    def on_event(st, s):
        if any(s.key == e.key for e in elem):
            return 'stale'
        if s.ev['k'] == 'store' and is_var(s.ev.get('lhs'), opv) and s.ev.get('op') == '=':
            return 'fresh'
        if s.ev['k'] == 'decl' and s.ev.get('var') == opv and s.ev.get('init') is not None:
            return 'stale'
        return st
    before, _, sin, bout = p.forward('stale', on_event, None)
    sts = bout.get(bid, set()) | {st for st in sin.get(bid, set())} if False else sin.get(bid, set())
    # states at the end of the switch block (or of every block that tests the operator)
    sts = bout.get(bid, set())
    for b1 in (uses or []):
        sts = sts | bout.get(b1, set())
    R.ob('C18.MPT.2', bool(elem), elem[0] if elem else p, 'the parser takes comma elements one at a time', key='elements', nontrivial=False)
    R.ob('C18.MPT.2', bool(sts) and sts <= {'fresh'}, P.relloc((p.blocks[bid].get('term') or {}).get('loc', '?')),
         'the range operator is assigned for every comma element before it is used (no value carried over from the previous element): %s' % sorted(sts), key='operator-fresh')
    R.obligations[-1]['function'] = p.name
    R.floor('C18.MPT.2', 2)


def operator_scan(P, R, rule='C18.TAB.4'):
    """Every range operator the documentation lists can be recognised: following which byte of the element the parser
    is looking at (a set of byte values per path, refined by each comparison; `p[0]`, `*p++`, `*++p` distinguished),
    each assignment of an operator code is reachable.  A scan that re-tests a byte already known to be `<` against
    `=` can never see `<=`."""
    from .. import charparse
    p = P.need_fn('log_parse_type_sevset')
    sw = None
    for bid in p.reachable_blocks():
        if any(e.label == 'case' for e in p.out[bid]):
            c = p.term_cond(bid)
            if is_var(c):
                sw = c['name']
    if sw is None:
        R.note('%s: no operator switch in the severity-set parser; not judged' % rule)
        return
    res = charparse.analyse(p, '')
    if not res:
        R.note('%s: the severity-set parser does not scan with a character pointer; not judged' % rule)
        return
    before = res['before']
    n = 0
    for s in p.stores():
        ev = s.ev
        if ev['k'] == 'store' and is_var(ev.get('lhs'), sw) and ev.get('op') == '=' and isinstance(const_of(ev.get('rhs')), int):
            n += 1
            R.ob(rule, bool(before.get(s.key)), s, 'the operator code %s can be reached: the bytes tested on the way are consistent' % const_of(ev['rhs']), key='op-reachable:%s' % const_of(ev['rhs']))
    # the documented operators (<, <=, =, >=, >) all start with a character the scan looks for
    tested = set()
    for bid in p.reachable_blocks():
        for e in p.out[bid]:
            r = e.rel()
            first = isinstance(r[0], dict) and ((r[0].get('k') == 'idx' and is_var(r[0].get('base'), res['ptr']) and const_of(r[0].get('index')) == 0) or (r[0].get('k') == 'un' and r[0].get('op') == '*' and is_var(r[0].get('e'), res['ptr']))) if r else False
            if r and r[1] == '==' and isinstance(const_of(r[2]), int) and first:
                tested.add(chr(const_of(r[2]) & 255))
            if e.label == 'case' and e.cond is not None and isinstance(e.cond, dict) and ((e.cond.get('k') == 'idx' and is_var(e.cond.get('base'), res['ptr']) and const_of(e.cond.get('index')) == 0) or (e.cond.get('k') == 'un' and e.cond.get('op') == '*' and is_var(e.cond.get('e'), res['ptr']))):
                tested |= {chr(v & 255) for v in (e.vs or [])}
    for ch in '<>=':
        n += 1
        R.ob(rule, ch in tested, p, 'the operator scan looks for %r (a severity written with it is part of the documented syntax)' % ch, key='op-char:%s' % ch)
    # ... and every case of the operator switch is the code of some operator: a code nothing assigns is a range form that
    # can no longer be written (its operator now selects another case's severities)
    cases = set()
    for bid in p.reachable_blocks():
        for e in p.out[bid]:
            if e.label == 'case' and e.cond is not None and is_var(e.cond, sw):
                cases |= set(e.vs or [])
    assigned = {const_of(s.ev.get('rhs')) for s in p.stores() if s.ev['k'] == 'store' and is_var(s.ev.get('lhs'), sw) and s.ev.get('op') == '='} | \
               {const_of(s.ev.get('init')) for s in p.sites() if s.ev['k'] == 'decl' and s.ev.get('var') == sw and s.ev.get('init') is not None}
    for c in sorted(cases):
        n += 1
        R.ob(rule, c in assigned, p, 'case %s of the operator switch is the code of an operator the scan recognises (codes assigned: %s)' % (c, sorted(x for x in assigned if x is not None)), key='op-case-assigned:%s' % c)
    R.floor(rule, 4, 'operator codes assigned in the severity-set parser')


def wiring(P, R, h):
    init = P.need_fn('log_init')
    hs = [(s, t) for (s, t) in hooks.section_hooks(P, UNIT) if s.fn is init]
    R.ob('C18.WIRE.1', len(hs) == 1 and hs[0][1] is h, hs[0][0] if hs else init, 'the logs section root\'s hook is the rescan', key='root-hook')
    calls = [s for s in init.calls() if h in P.callees(s, False)]
    R.ob('C18.WIRE.1', bool(calls), calls[0] if calls else init, 'the initial routing is built once at start-up', key='initial', nontrivial=False)
    # every child gets a hook reaching the rescan before it is used
    att = [s for s in h.calls('log_attach_destinations')]
    for s in att:
        child = s.ev['args'][2]
        cv = child['name'] if is_var(child) else None

        def on_event(st, t, cv=cv):
            ev = t.ev
            if ev['k'] == 'store' and is_var(ev.get('lhs'), cv) and ev.get('op') == '=':
                return 'fresh'
            if ev['k'] == 'store' and is_field(ev['lhs'], 'hook') and is_var(ev['lhs']['base'], cv) and (ev.get('rhs') or {}).get('k') == 'func':
                t2 = P.direct_target(h, ev['rhs']['name'])
                if t2 is not None and hooks.reaches(P, t2, h):
                    return 'hooked'
            return st

        def on_edge(st, e, cv=cv):
            r = rules.edge_rel(e)
            if r and is_field(r[0], 'hook') and is_var(r[0]['base'], cv) and const_of(r[2]) == 0 and r[1] == '!=' and st == 'fresh':
                return 'hooked'
            return st
        before, _, _, _ = h.forward('fresh', on_event, on_edge)
        sts = before.get(s.key, set())
        R.ob('C18.WIRE.1', bool(sts) and sts <= {'hooked'}, s, 'every entry of the section carries a hook that reaches the rescan before its destinations are attached (an in-place edit reroutes)', key='child-hook')
    # the child hook passes the section root
    ch = P.fn('log_rescan_type')
    if ch is not None:
        cs = [s for s in ch.calls() if h in P.callees(s, False)]
        ok = bool(cs) and on_path(cs[0].ev['args'][0], 'parent')
        R.ob('C18.WIRE.1', ok, cs[0] if cs else ch, 'an entry\'s hook rescans the whole section (entries may overlap)', key='child-rescans')
    R.floor('C18.WIRE.1', 3)


def record_format(P, R):
    f = P.need_fn('log_file_log')
    fp = [s for s in f.calls('fprintf')]
    ok = False
    if len(fp) == 1:
        a = fp[0].ev['args']
        fmt = rules.fmt_literal(fp[0].ev, 1)
        ok = fmt == '%s (%s:%s) %s\n' and len(a) == 6 and on_path(a[0], 'stream') and on_path(a[2], 'vec') and on_path(a[3], 'name') and \
            a[4].get('k') == 'idx' and is_var(a[4]['base'], 'log_severity_names') and is_var(a[4]['index'], f.params[2]) and is_var(a[5], f.params[3])
    R.ob('C18.FMT.1', ok, fp[0] if fp else f, 'the record is "<timestamp> (<facility>:<severity>) <message>\\n", written to the destination\'s stream', key='format')
    bufd = [s for s in f.calls() if s.ev.get('callee') in ('snprintf', 'sprintf', 'vsnprintf', 'strncpy', 'strlcpy', 'memcpy') and any(is_var(x, f.params[3]) for a in s.ev['args'] for x in walk(a))]
    R.ob('C18.FMT.1', not bufd, bufd[0] if bufd else f, 'the (unbounded) message is not squeezed through a fixed-size intermediate buffer, which would cut the newline off long records', key='no-intermediate-buffer')
    fl = [s for s in f.calls('fflush')]
    okf = bool(fl) and bool(fp) and f.path_avoiding(fp[0], lambda t: t in fl) is None
    R.ob('C18.FMT.1', okf, fl[0] if fl else f, 'every record is flushed', key='flush')
    p = f.path_avoiding(None, lambda t: t in fp, from_entry=True)
    R.ob('C18.FMT.1', p is None and (not fp or fp[0].bid not in f.reach([e.dst for e in f.out[fp[0].bid]])), fp[0] if fp else f, 'exactly one record per message on every path', key='one-record')
    # the vtable's log slot is this writer
    R.ob('C18.FMT.1', f.key in P.slots().get('log_destination_vtable::log', ()), f, 'the file destination\'s log slot is the file writer', key='vtable', nontrivial=False)
    R.floor('C18.FMT.1', 5)


def run(P, R, tier):
    severity_table(P, R)
    fanout(P, R)
    h = whole_entry(P, R)
    reset_then_attach(P, R, h)
    operator_fresh(P, R)
    operator_scan(P, R)
    # a destination list is attached item by item: the walk over the list uses the list's own count
    nv = rules.vector_walks(P, R, 'C18.TAB.5', units=('src/log.c',))
    R.floor('C18.TAB.5', 3, 'vector walks in the logging unit')
    range_bounds(P, R)
    exact_names(P, R)
    destination_identity(P, R)
    facility_by_name(P, R)
    facility_created(P, R)
    complete_text(P, R)
    wiring(P, R, h)
    record_format(P, R)
    # destinations are string (list) values: a reload reroutes only if the setters notice every change
    from . import c15
    from ..report import Remap
    c15.notification(P, Remap(R, {'C15.GRD.1': 'C18.GRD.3', 'C15.MPT.1': 'C18.GRD.3'}))
    # dropping the whole logs section must revert its entries (the old present bit decides)
    c15.removal_guard(P, Remap(R, {'C15.GRD.2': 'C18.GRD.4', 'C15.GRD.3': 'C18.GRD.4'}))
    # destination reference counts do not wrap
    rules.narrowing_fields(P, R, 'C18.WID.1', ('src/log.c',))
    rules.counter_widths(P, R, 'C18.WID.2', recs=('log_destination', 'log_destination_vector', 'log_type'))
    # a facility is found again by its name: the registry keeps its own copy of it
    rules.param_string_escapes(P, R, 'C18.OWN.9', ('src/log.c',))
    # severity sets are built up element by element of the comma list: the primitives used to add a name or a range keep
    # what the earlier elements put there
    rules.bitset_primitives(P, R, 'C18.TAB.7')
    # "after a reload the routing is that of the new section": a reload request that reaches the reader is applied
    c15.load_merges(P, Remap(R, {'C15.MPT.3': 'C18.MPT.6', 'C15.WMC.1': 'C18.MPT.6'}))
    # a message too long for the scratch buffer is formatted a second time: from a copy taken before the first walk
    rules.va_list_once(P, R, 'C18.MPT.7')
    # the growing buffer a long message is formatted into takes "exactly as long as the room" for "too long"
    rules.snprintf_fit(P, R, 'C18.MPT.8', [f for f in P.fns.values() if not f.unit.startswith('tests/')])
    # facilities are found by name in a set: a comparator that takes a name for equal to every name it is a prefix of
    # merges "iauth" with "iauth_class"
    from . import c19 as _c19
    _c19.string_comparators_reach_the_end(P, R, 'C18.TAB.9')
    # the logs section is read, not edited, by the code that routes by it
    from . import c14 as _c14o
    _c14o.node_texts_read_only(P, R, 'C18.OWN.1')
    return EXPLANATION, ASSUMPTIONS
