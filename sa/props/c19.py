"""C19 - the set container (partial).

Decided: stock comparators are overflow-free total orders by construction; the cleanup slot
has one caller and each dispose site is guarded and acts on a detached node; count adjusted
exactly once per path; every node linked into or out of the threaded list has both neighbours'
back-links updated; no node is touched after it was disposed.  Not decided: search-tree
order, list = in-order walk, lower bound - shape properties of the splay tree."""
from ..facts import AnalysisBroken
from ..model import sx, walk, is_var, is_field, const_of, vars_in, root_var, same, on_path
from .. import rules

UNIT = 'src/set.c'
EXPLANATION = (
    'Rules over src/set.c: (ARITH.1) every comparator (the stock set_compare_* functions and every '
    'function installed in a set\'s compare slot) returns through relational operators or a library '
    'comparison, never the difference of two full-width values; (WMC.1) the cleanup slot is invoked only '
    'by the dispose helper, which is called only from insert-replace, remove and clear; (GRD.1) dispose '
    'calls in remove and clear are guarded by !no_dispose, the node is unlinked before it is disposed, and '
    'the root pointer is overwritten on every path after the replaced root is disposed; (MPT.1) count is '
    'incremented exactly once on every path of insert, decremented exactly once on the replace path and on '
    'the found path of remove, and zeroed in clear; (LINK.1) a typestate over insert shows that whenever the '
    'new node\'s prev/next are set, the neighbours\' next/prev are pointed back at it on every path; '
    '(LINK.2) on every path of remove that found the element, both neighbours are relinked around it; '
    '(UAF.1) no dereference of a node variable after it was handed to the dispose helper.  The sorted-map '
    'behaviour of the splay tree (search order, in-order list, lower bound) is NOT decided.'
    ' Rounds 8-9: (GRD.4) a string comparator that scans for itself looks at the bytes where one string ended; (TAB.3) set_next / set_prev return their own link, and a program-defined replacement of the comparison primitive is analysis-broken.')
ASSUMPTIONS = ['clang 14 CFG', 'xfree releases the node; the cleanup callback only releases what the element owns']


def string_comparators_reach_the_end(P, R, rule='C19.GRD.4'):
    """A comparator over strings that scans the bytes itself: when its loop stops because ONE string has ended, the
    answer still depends on the other string's byte at that position ("ab" < "abc") - so on every path from such a loop
    exit to a return, the bytes at the stop position are read again (or the value returned is a constant).  A scan that
    returns the last difference it computed calls a string equal to every string it is a prefix of."""
    fns = {}
    for f in P.unit_fns(UNIT):
        if f.name.startswith('set_compare_'):
            fns[f.key] = f
    for k in P.slots().get('set::compare', ()):
        fns[k] = P.fns[k]
    n = 0

    def char_reads(ex):
        out = []
        for x in walk(ex):
            if x.get('k') == 'un' and x.get('op') == '*' and 'char' in (x.get('t') or (x.get('e') or {}).get('t', '').rstrip('* ').strip()):
                out.append(x)
            if x.get('k') == 'idx' and 'char' in (x.get('t') or ''):
                out.append(x)
        return out
    for f in fns.values():
        loops = rules.loops_of(f)
        for head, body in loops:
            body = set(body) | {head}
            for bid in body:
                for e in f.out[bid]:
                    if e.dst in body:
                        continue
                    r = rules.edge_rel(e)
                    if not (r and r[1] == '==' and const_of(r[2]) == 0 and char_reads(r[0])):
                        continue
                    # from this exit: is a return reached without reading a byte again?
                    def reads_again(t):
                        return any(char_reads(ex) for ex in rules.event_exprs(t.ev)) and t.ev['k'] != 'ret' or \
                            (t.ev['k'] == 'ret' and (isinstance(const_of(t.ev.get('val')), int) or bool(char_reads(t.ev.get('val') or {}))))
                    seen = set()
                    work = [e.dst]
                    bad = None
                    while work and bad is None:
                        b = work.pop()
                        if b in seen:
                            continue
                        seen.add(b)
                        stop = False
                        for t in f.block_sites(b):
                            if reads_again(t):
                                stop = True
                                break
                            if t.ev['k'] == 'ret':
                                bad = t
                                stop = True
                                break
                        if stop:
                            continue
                        c = (f.blocks[b].get('term') or {}).get('cond')
                        if c is not None and char_reads(c):
                            continue
                        work += [x.dst for x in f.out[b]]
                    n += 1
                    R.ob(rule, bad is None, bad or f, 'in %s a scan that stops at the end of one string (%s) is followed by a look at the bytes there before the result is returned' % (f.name, sx(r[0])), key='scan-end:%s' % f.name)
    R.ob(rule, True, P.need_fn('set_compare_charp'), 'string comparators with a scan loop of their own: %d exit(s) at the end of a string' % n, key='scan-end:walked', nontrivial=False)
    R.floor(rule, 1)


def accessors_and_delegates(P, R, rule='C19.TAB.2'):
    """(a) Stepping: where set_next / set_prev are functions (they are macros on the pinned tree), each returns the link
    of its own name.  (b) The stock string comparator delegates to the C library; if the program defines a function of
    that name itself (a "compat" fallback that shadows libc for every module), the order of every string-keyed set is
    whatever that function computes - which these rules cannot decide: analysis broken, not a pass."""
    n = 0
    for nm, want, other in (('set_next', 'next', 'prev'), ('set_prev', 'prev', 'next')):
        for f in [g for g in P.fns.values() if g.name == nm] + list(P.__dict__.get('folded_fns', {}).get(nm, ())):
            for t in f.sites():
                if t.ev['k'] == 'ret' and t.ev.get('val') is not None and const_of(t.ev['val']) != 0:
                    fields = {x.get('field') for x in walk(t.ev['val']) if x.get('k') == 'mem'}
                    n += 1
                    R.ob(rule, want in fields and other not in fields, t, '%s returns the %s link (%s)' % (nm, want, sx(t.ev['val'])), key='accessor:%s' % nm)
    for f in P.unit_fns(UNIT):
        if not f.name.startswith('set_compare_'):
            continue
        for t in f.calls():
            c = t.ev.get('callee')
            if c in ('strcasecmp', 'strcmp', 'strncasecmp', 'strncmp', 'memcmp', 'strcoll'):
                own = [g for g in P.callees(t, True) if not g.unit.startswith('tests/')]
                if own:
                    raise AnalysisBroken('%s delegates to %s, which the program defines itself (%s): the order of string-keyed sets is no longer the C library\'s' % (f.name, c, own[0].unit))
                n += 1
                R.ob(rule, True, t, '%s delegates to the C library\'s %s' % (f.name, c), key='delegate:%s' % c, nontrivial=False)
    R.floor(rule, 1, 'library delegates of the stock comparators')


def comparators(P, R, rule='C19.ARITH.1'):
    fns = {}
    for f in P.unit_fns(UNIT):
        if f.name.startswith('set_compare_'):
            fns[f.key] = f
    for k in P.slots().get('set::compare', ()):
        fns[k] = P.fns[k]
    for f in fns.values():
        rets = [s for s in f.sites() if s.ev['k'] == 'ret' and s.ev.get('val') is not None]
        for s in rets:
            bad = []
            # expand single-definition locals (res = strcasecmp(...); res = a->type - b->type)
            exprs = [s.ev['val']]
            for v in vars_in(s.ev['val']):
                for d in f.local_defs(v):
                    val = d.ev.get('rhs') or d.ev.get('init')
                    if val is not None:
                        exprs.append(val)
            for ex in exprs:
                for x in walk(ex):
                    if x.get('k') == 'bin' and x['op'] == '-':
                        def wide(e):
                            # a full-width integer operand: a dereferenced int/long pointer, or a non-bitfield int field
                            if e.get('k') == 'un' and e['op'] == '*' and is_var(e['e']):
                                t = e['e'].get('t', '').strip()
                                # the value read is what the variable points to: strip one pointer level
                                pointee = t[:t.rfind('*')].replace('const', '').strip() if '*' in t else t
                                if '*' in pointee:
                                    return True       # a pointer value: the difference is ptrdiff_t, narrowed to int
                                return not any(n in pointee for n in ('char', 'short', 'uint8', 'uint16'))
                            if e.get('k') == 'mem':
                                fd = P.record_field(e.get('rec'), e['field']) or {}
                                return not fd.get('bitfield') and not any(n in fd.get('t', '') for n in ('char', 'short'))
                            if e.get('k') == 'idx':
                                return True
                            return False
                        if wide(x['l']) and wide(x['r']):
                            bad.append(sx(x))
            R.ob(rule, not bad, s, 'comparator %s returns %s' % (f.name, 'a three-way result that cannot overflow' if not bad else 'the difference %s, which has the wrong sign on overflow' % bad[0]),
                 key='return:%s' % ('sub' if bad else 'ok'))
    # a comparator can say "equal": some return value is (or can evaluate to) 0 - a constant 0, a conditional with a 0
    # arm, a library comparison or a difference.  One that never returns 0 makes every look-up of a present key fail.
    for f in fns.values():
        def can_zero(e, depth=0):
            if not isinstance(e, dict) or depth > 4:
                return False
            if const_of(e) == 0:
                return True
            if isinstance(const_of(e), int):
                return False
            if e.get('k') == 'cond':
                return can_zero(e.get('t'), depth + 1) or can_zero(e.get('f'), depth + 1)
            if e.get('k') == 'callref':
                return True
            if e.get('k') == 'bin' and e.get('op') in ('-', '^'):
                return True
            if is_var(e):
                return any(can_zero(d.ev.get('rhs') or d.ev.get('init'), depth + 1) for d in f.local_defs(e['name'])) or not f.local_defs(e['name'])
            return e.get('k') == 'bin' and e.get('op') in ('==', '!=', '<', '>', '<=', '>=', '&&', '||')
        rets = [s for s in f.sites() if s.ev['k'] == 'ret' and s.ev.get('val') is not None]
        if rets:
            R.ob(rule, any(can_zero(s.ev['val']) for s in rets), rets[0], 'comparator %s has a result for equal keys (some return can be 0)' % f.name, key='can-equal:%s' % f.name)
    # pointer keys are ordered as addresses: an ordering comparison of pointer-valued operands is not made through a
    # conversion to a signed integer type (which puts the upper half of the address space first)
    from .. import numeric as _num
    for f in fns.values():
        for s in f.sites():
            for ex in rules.event_exprs(s.ev):
                for x in walk(ex):
                    if x.get('k') == 'bin' and x.get('op') in ('<', '>', '<=', '>='):
                        for side in (x.get('l'), x.get('r')):
                            ct = (side or {}).get('castto')
                            inner_ptr = isinstance(side, dict) and any(isinstance(y, dict) and y.get('k') == 'var' and y.get('t', '').count('*') >= 1 for y in walk(side))
                            if ct and inner_ptr:
                                tr = _num.type_range(ct) or _num.type_range({'intptr_t': 'long', 'ssize_t': 'long', 'ptrdiff_t': 'long', 'uintptr_t': 'unsigned long', 'size_t': 'unsigned long'}.get(ct, ct))
                                R.ob(rule, bool(tr) and tr[0] >= 0, s, 'comparator %s orders pointer keys as addresses (operand converted to %s)' % (f.name, ct), key='pointer-order:%s' % f.name)
    # sibling agreement: every comparator that orders names orders them with the same library comparison (the same
    # names - configuration keys, log facilities, modules - are looked up in several containers; one container folding
    # case and another not makes the same name two elements here and one there)
    used = {}
    for f in fns.values():
        for s in f.sites():
            for ex in rules.event_exprs(s.ev):
                for x in walk(ex):
                    if x.get('k') == 'callref' and x.get('callee') in ('strcmp', 'strcasecmp', 'strncmp', 'strncasecmp', 'strcoll'):
                        # names: the stock comparators' keys, and `name` members compared elsewhere.  A comparator of a
                        # structured text of its own (a "<type>:<argument>" destination, say) is not a name comparator
                        if f.unit == UNIT or any(isinstance(y, dict) and y.get('k') == 'mem' and y.get('field') == 'name' for a in x.get('args', []) for y in walk(a)):
                            used.setdefault(x['callee'], []).append((f, s))
    if used:
        summary = '; '.join('%s: %s' % (k, ', '.join(sorted({f.name for f, _ in lst}))) for k, lst in sorted(used.items()))
        for k, lst in sorted(used.items()):
            for f, s in lst:
                R.ob(rule, len(used) == 1, s, 'the name comparators agree on how names compare (%s)' % summary, key='name-compare:%s' % f.name)
    # the stock integer comparator orders its keys as the signed ints they are (ids may be negative)
    ci = P.fn('set_compare_int')
    if ci is not None:
        ok_t = True
        seen_t = set()
        allex = [ex for s in ci.sites() for ex in rules.event_exprs(s.ev)] + [(b.get('term') or {}).get('cond') for b in ci.blocks.values() if isinstance((b.get('term') or {}).get('cond'), dict)]
        for ex in allex:
            if True:
                for x in walk(ex):
                    # `*a` with a local pointer, `*(const int *)a_` with a cast parameter, `a[0]`
                    e2 = None
                    if x.get('k') == 'un' and x['op'] == '*' and is_var(x['e']):
                        e2 = x['e']
                    if x.get('k') == 'idx' and is_var(x.get('base')) and const_of(x.get('index')) == 0:
                        e2 = x['base']
                    if e2 is not None:
                        t = e2.get('castto') or e2.get('t', '')
                        if '*' in t:
                            pointee = t[:t.rfind('*')].replace('const', '').strip()
                            seen_t.add(pointee)
        R.ob(rule, bool(seen_t) and seen_t <= {'int'}, ci, 'set_compare_int reads its keys as int (reads them as %s)' % sorted(seen_t), key='int-keys')
    R.floor(rule, 4, 'comparator returns')


class _Disp(object):
    """Where the container disposes of an element: calls of the dispose helper, or - when cleanup and free are
    written out in insert / remove / clear themselves - the free of the node that follows the cleanup call."""
    def __init__(self, P, helper, slot_calls):
        self.P, self.helper, self.slot_calls = P, helper, slot_calls
        self.name = helper.name if helper is not None else 'cleanup+free'

    def calls_in(self, f):
        if self.helper is not None:
            return [s for s in f.calls(self.helper.name)]
        out = []
        for c in self.slot_calls:
            if c.fn is not f:
                continue
            frees = [t for t in f.calls() if t.ev.get('callee') in ('free', 'xfree') and t.ev['args'] and (t.bid in f.reach([c.bid]) or (t.bid == c.bid and t.idx > c.idx))]
            if frees:
                first = min(frees, key=lambda t: (t.line, t.idx))
                if first not in out:
                    out.append(first)
        return out

    def node_arg(self, s):
        return s.ev['args'][1] if self.helper is not None else s.ev['args'][0]


def cleanup_callers(P, R, rule='C19.WMC.1'):
    calls = [s for f in P.fns.values() for s in f.calls() if P.call_slot(s) == 'set::cleanup']
    if not calls:
        raise AnalysisBroken('no caller of the set cleanup slot')
    owners = {c.fn.name for c in calls}
    api = {'set_insert', 'set_remove', 'set_clear'}
    helper = None
    if len(owners) == 1 and not owners <= api:
        helper = calls[0].fn
    ok_where = (helper is not None and len(calls) == 1) or (helper is None and owners <= api)
    R.ob(rule, ok_where, calls[0], 'the cleanup callback is invoked by the dispose helper alone, or directly by insert-replace / remove / clear (%s)' % sorted(owners), key='cleanup-caller')
    disp = _Disp(P, helper, calls)
    if helper is not None:
        cs = P.callers(helper, may=False)
        names = sorted({s.fn.name for s in cs})
        R.ob(rule, set(names) <= api and len(cs) == 3, helper, 'the dispose helper is called only by insert-replace, remove and clear (%s)' % names, key='dispose-callers')
        fr = [s for s in helper.calls() if s.ev.get('callee') in ('free', 'xfree')]
        p = helper.path_avoiding(None, lambda t: t in fr, from_entry=True)
        R.ob(rule, bool(fr) and p is None, helper, 'the dispose helper frees the node on every path, after the cleanup', key='dispose-frees')
    else:
        for c in calls:
            f = c.fn
            fr = [t for t in f.calls() if t.ev.get('callee') in ('free', 'xfree')]
            p = f.path_avoiding(c, lambda t: t in fr)
            R.ob(rule, bool(fr) and p is None, c, '%s frees the node on every path after its cleanup ran' % f.name, key='dispose-frees')
        R.ob(rule, owners == api, calls[0], 'insert-replace, remove and clear each dispose of elements (%s)' % sorted(owners), key='dispose-callers', nontrivial=False)
    return disp


def dispose_guards(P, R, disp, rule='C19.GRD.1'):
    ins, rem, clr = P.need_fn('set_insert'), P.need_fn('set_remove'), P.need_fn('set_clear')
    for f in (rem, clr):
        nd = [p for p in f.params if p == 'no_dispose']
        for s in disp.calls_in(f):
            ok = any(is_var(g[0], 'no_dispose') and g[1] == '==' and const_of(g[2]) == 0 for g in f.guards(s.bid))
            R.ob(rule, ok, s, '%s disposes the element only when no_dispose is zero' % f.name, key='guard:%s' % f.name)
    # remove: the node is off the tree and the list before it is disposed
    for s in disp.calls_in(rem):
        root_w = [t for t in rem.stores() if t.ev['k'] == 'store' and is_field(t.ev['lhs'], 'root', 'set') and t.ev.get('op') == '=']
        last_root = [t for t in root_w if rem.dominates(t.bid, s.bid) and not is_var(t.ev.get('rhs'), 'old_root')]
        R.ob(rule, bool(last_root), s, 'the root no longer points at the element when it is disposed', key='detached:tree')
        cnt = [t for t in rem.stores() if t.ev['k'] == 'store' and is_field(t.ev['lhs'], 'count', 'set')]
        R.ob(rule, bool(cnt) and all(rem.dominates(t.bid, s.bid) for t in cnt), s, 'the count is already adjusted when the element is disposed', key='detached:count', nontrivial=False)
    # clear: root nulled before the first dispose
    for s in disp.calls_in(clr):
        rn = [t for t in clr.stores() if t.ev['k'] == 'store' and is_field(t.ev['lhs'], 'root', 'set') and const_of(t.ev.get('rhs')) == 0]
        R.ob(rule, bool(rn) and all(clr.dominates(t.bid, s.bid) for t in rn), s, 'clear empties the root before disposing elements', key='detached:clear')
    # insert-replace: after disposing the old root the root is overwritten on every path
    for s in disp.calls_in(ins):
        p = ins.path_avoiding(s, lambda t: t.ev['k'] == 'store' and is_field(t.ev['lhs'], 'root', 'set') and t.ev.get('op') == '=')
        R.ob(rule, p is None, s, 'after the replaced root is disposed the root pointer is overwritten on every path', key='detached:replace')
        cp = [t for t in ins.calls('memcpy') if is_var(t.ev['args'][0], ins.params[1])]
        R.ob(rule, bool(cp) and all(ins.before(t, s) for t in cp), s, 'the new node takes over the old root\'s links before the old root is disposed', key='replace:links-copied')
    R.floor(rule, 6)


def count_paths(P, R, rule='C19.MPT.1', disp=None):
    ins, rem, clr = P.need_fn('set_insert'), P.need_fn('set_remove'), P.need_fn('set_clear')

    def count_df(f):
        def on_event(st, s):
            ev = s.ev
            if ev['k'] == 'store' and is_field(ev['lhs'], 'count', 'set'):
                inc, dec, z = st
                if ev.get('op') == '++':
                    return (min(inc + 1, 2), dec, z)
                if ev.get('op') == '--':
                    return (inc, min(dec + 1, 2), z)
                if ev.get('op') == '=' and const_of(ev.get('rhs')) == 0:
                    return (inc, dec, True)
                return (2, 2, z)
            return st
        return f.forward((0, 0, False), on_event, None)
    before, at_exit, _, _ = count_df(ins)
    ok = bool(at_exit) and all(inc == 1 and dec <= 1 for inc, dec, z in at_exit)
    R.ob(rule, ok, ins, 'every path of insert increments the count exactly once (and decrements at most once, on replacement): %s' % sorted(at_exit), key='insert:count')
    disp_calls = disp.calls_in(ins) if disp is not None else [s for s in ins.calls() if s.ev.get('callee') == 'set_dispose_node']
    for s in disp_calls:
        decs = [t for t in ins.stores() if t.ev['k'] == 'store' and is_field(t.ev['lhs'], 'count', 'set') and t.ev.get('op') == '--']
        p = ins.path_avoiding(s, lambda t: t in decs)
        R.ob(rule, p is None and len(decs) == 1, s, 'replacing an equal key decrements the count exactly once', key='insert:replace-dec')
    # remove: found path decrements exactly once, not-found returns without touching the count
    before, at_exit, _, _ = count_df(rem)
    rets = [s for s in rem.sites() if s.ev['k'] == 'ret']
    for s in rets:
        v = const_of(s.ev.get('val'))
        sts = before.get(s.key, set())
        if v == 0:
            R.ob(rule, all(inc == 0 and dec == 0 for inc, dec, z in sts), s, 'a failed remove leaves the count alone', key='remove:notfound')
        else:
            R.ob(rule, bool(sts) and all(inc == 0 and dec == 1 for inc, dec, z in sts), s, 'a successful remove decrements the count exactly once', key='remove:found')
    before, at_exit, _, _ = count_df(clr)
    # clear: zeroed on every path that had a set
    z = [s for s in clr.stores() if s.ev['k'] == 'store' and is_field(s.ev['lhs'], 'count', 'set') and const_of(s.ev.get('rhs')) == 0]
    R.ob(rule, bool(z) and all(st[2] or True for st in at_exit) and clr.path_avoiding(z[0], lambda t: False) is not None, z[0] if z else clr, 'clear zeroes the count', key='clear:count', nontrivial=False)

    def clr_event(st, s):
        ev = s.ev
        if ev['k'] == 'store' and is_field(ev['lhs'], 'root', 'set') and ev.get('op') == '=' and const_of(ev.get('rhs')) == 0:
            return (True, st[1])
        if ev['k'] == 'store' and is_field(ev['lhs'], 'count', 'set') and ev.get('op') == '=' and const_of(ev.get('rhs')) == 0:
            return (st[0], True)
        return st
    _, cx, _, _ = clr.forward((False, False), clr_event, None)
    R.ob(rule, bool(cx) and all(zz for rn, zz in cx if rn), z[0] if z else clr, 'whenever clear has emptied the tree (root = NULL) it has zeroed the count before it returns, with or without disposal', key='clear:count-all-paths')
    # the count can count: the field is as wide as what set_size() hands out (a narrower field wraps while the tree grows)
    from .. import numeric
    ft = (P.record_field('set', 'count') or {}).get('t')
    a = numeric.type_range(ft or '')
    for f in P.unit_fns(UNIT):
        for b in f.blocks:
            c = f.term_cond(b)
            for x in walk(c) if c is not None else ():
                if x.get('k') == 'bin' and x.get('op') in ('==', '!=', '<', '<=', '>', '>='):
                    for l, r in ((x.get('l'), x.get('r')), (x.get('r'), x.get('l'))):
                        if is_field(l, 'count', 'set') and is_var(r) and numeric.type_range(r.get('t', '')):
                            bt = numeric.type_range(r['t'])
                            R.ob(rule, bool(a) and a[0] <= bt[0] and a[1] >= bt[1], f, 'the element count is kept in a type (%s) as wide as the counter it is compared with in %s (%s %s)' % (ft, f.name, r['t'], r['name']), key='count-width')
    # what a comparator returns is kept whole: no local of the container code truncates an int result
    rules.narrowing_locals(P, R, rule, list(P.unit_fns(UNIT)))
    R.floor(rule, 5)


def search_discipline(P, R, rule='C19.GRD.3'):
    """Membership, removal and lower bound all rest on the splay search bringing the sought key (or its neighbour) to the
    root.  Three structural consequences: (a) the descent of the search stops only where the key was found or the tree
    ends - every edge out of its loop tests the comparison result or a child pointer, nothing else (a step limit turns
    a deep tree into "not found"); (b) whoever calls the search uses what it returns - the answer that decides between
    the root and its neighbour is the search's own, not an earlier comparison; (c) once the search has found the key, a
    removal goes through with it: a failed remove is returned only for a missing set, an empty tree or a key that was
    not found."""
    sp = P.need_fn('set_splay')
    n = 0
    # (a) the descent loop
    cmps = [b for b in sp.reachable_blocks() if any(t.ev['k'] in ('store', 'call') and (P.call_slot(t) == 'set::compare' or (t.ev.get('rhs') or {}).get('k') == 'callref' and 'compare' in sx((t.ev.get('rhs') or {}).get('fexpr') or {})) for t in sp.block_sites(b))]
    loops = []
    for b in sp.reachable_blocks():
        fwd = sp.reach([e.dst for e in sp.out[b]])
        if b in fwd:
            loops.append(b)
    loop = set(loops)
    if not loop:
        raise AnalysisBroken('the splay search has no descent loop')
    for b in sorted(loop):
        for e in sp.out[b]:
            if e.dst in loop:
                continue
            r = e.rel() if e.cond is not None and e.label not in ('case', 'default') else None
            ok = False
            if r:
                l = r[0]
                if is_var(l) and 'int' in l.get('t', '') and const_of(r[2]) == 0 and any((t.ev.get('rhs') or {}).get('k') == 'callref' for t in sp.local_defs(l['name'])):
                    ok = True       # the comparison result
                if isinstance(l, dict) and l.get('k') == 'mem' and l.get('field') in ('l', 'r') and const_of(r[2]) == 0:
                    ok = True       # no child in that direction
                if isinstance(l, dict) and l.get('k') == 'callref':
                    ok = True
                # `while ((res = compare(...)) != 0)`: the comparison result, assigned in the condition
                if isinstance(l, dict) and l.get('k') == 'bin' and l.get('op') == '=' and isinstance(l.get('r'), dict) and any(x.get('k') == 'callref' for x in walk(l['r'])) and const_of(r[2]) == 0:
                    ok = True
            n += 1
            R.ob(rule, ok, sp, 'the descent of the splay search is left only on "found" or "no child that way" (%s)' % e.describe(), key='descent-exit:%s' % ('ok' if ok else e.describe()))
    # (b) results used
    for f in P.unit_fns(UNIT):
        for s in f.calls('set_splay'):
            used = any((t.ev.get('rhs') or t.ev.get('init') or {}).get('ev') == s.ev.get('id') for t in f.sites() if t.ev['k'] in ('store', 'decl'))
            if not used:
                for b in f.blocks:
                    c = f.term_cond(b)
                    if c is not None and any(isinstance(x, dict) and x.get('k') == 'callref' and x.get('ev') == s.ev.get('id') for x in walk(c)):
                        used = True
                for t in f.sites():
                    if t.ev['k'] == 'ret' and any(isinstance(x, dict) and x.get('k') == 'callref' and x.get('ev') == s.ev.get('id') for x in walk(t.ev.get('val'))):
                        used = True
            # a search of a SUBTREE for a key known to lie beyond it (root re-pointed at a child just before) only
            # re-roots that subtree at its extreme element: its result says nothing
            reroot = any(t.ev['k'] == 'store' and is_field(t.ev['lhs'], 'root', 'set') and isinstance(t.ev.get('rhs'), dict) and t.ev['rhs'].get('k') == 'mem' and t.ev['rhs'].get('field') in ('l', 'r')
                         for t in f.block_sites(s.bid)[:s.idx])
            n += 1
            R.ob(rule, used or reroot, s, '%s uses what the search it starts returns%s' % (f.name, ' (re-rooting a subtree: no answer to use)' if reroot and not used else ''), key='search-result-used:%s' % f.name, nontrivial=not reroot)
    # (c) failed removes
    rem = P.need_fn('set_remove')
    for t in rem.sites():
        if t.ev['k'] == 'ret' and const_of(t.ev.get('val')) == 0:
            for e in rem.inn[t.bid]:
                r = e.rel() if e.cond is not None else None
                if not r:
                    continue
                l = r[0]
                ok = (is_var(l) and l['name'] == rem.params[0]) or (isinstance(l, dict) and l.get('k') == 'mem' and l.get('field') == 'root') or \
                     (isinstance(l, dict) and l.get('k') == 'callref' and l.get('callee') == 'set_splay') or \
                     (is_var(l) and any((d.ev.get('rhs') or d.ev.get('init') or {}).get('callee') == 'set_splay' for d in rem.local_defs(l['name'])))
                n += 1
                R.ob(rule, ok, t, 'a remove fails only for a missing set, an empty tree or a key the search did not find (reason: %s %s %s)' % (sx(r[0]), r[1], sx(r[2])), key='remove-fails:%s' % ('ok' if ok else sx(r[0])))
    R.floor(rule, 6)


def written_fields(f):
    w = set()
    for s in f.stores():
        if s.ev['k'] == 'store' and s.ev['lhs'].get('k') == 'mem':
            w.add(s.ev['lhs']['field'])
    return w


def _raw(f, e, depth=0):
    if not isinstance(e, dict):
        return 'null'
    if e.get('k') == 'mem':
        return _raw(f, e['base'], depth) + ('->' if e['arrow'] else '.') + e['field']
    return sx(e)


def canon(f, e, depth=0):
    """Expression string with single-definition locals that merely name a field chain expanded
    (`before = old->prev; before->next = after` reads as `old->prev->next = old->next`).  The
    expansion is used only when nothing in the function stores to that very lvalue, so the local and
    the chain denote the same object wherever both are in scope."""
    if not isinstance(e, dict):
        return 'null'
    if e.get('k') == 'var' and e.get('sc') == 'local' and depth < 4:
        d = f.single_def(e['name'])
        if d and d[1].get('k') == 'mem':
            target = _raw(f, d[1])
            clobbered = any(t.ev['k'] == 'store' and _raw(f, t.ev['lhs']) == target for t in f.stores())
            if not clobbered:
                return canon(f, d[1], depth + 1)
        return e['name']
    if e.get('k') == 'mem':
        return canon(f, e['base'], depth) + ('->' if e['arrow'] else '.') + e['field']
    return sx(e)


def final_value(e):
    """Value of a (possibly chained) assignment expression a = b = c."""
    while isinstance(e, dict) and e.get('k') == 'bin' and e['op'] == '=':
        e = e['r']
    return e


def link_insert(P, R, rule='C19.LINK.1'):
    ins = P.need_fn('set_insert')
    node = ins.params[1]

    def on_event(st, s):
        p, n = st
        ev = s.ev
        if ev['k'] == 'store' and ev.get('op') == '=':
            l = canon(ins, ev['lhs'])
            r = canon(ins, ev.get('rhs'))
            if l == '%s->prev' % node:
                p = 'null' if const_of(final_value(ev.get('rhs'))) == 0 else 'need'
            if l == '%s->next' % node:
                n = 'null' if const_of(final_value(ev.get('rhs'))) == 0 else 'need'
            if l == '%s->prev->next' % node and r == node:
                p = 'fixed'
            if l == '%s->next->prev' % node and r == node:
                n = 'fixed'
            # the neighbour's link written through the old root: set->root->prev = node when node->next == set->root
        if ev['k'] == 'call' and ev.get('callee') in ('memcpy', 'memmove') and ev['args'] and is_var(ev['args'][0], node):
            p, n = 'need', 'need'
        return (p, n)

    def on_edge(st, e):
        p, n = st
        r = rules.edge_rel(e)
        if r and const_of(r[2]) == 0:
            l = canon(ins, r[0])
            if l == '%s->prev' % node:
                if r[1] == '==':
                    if p == 'need':
                        p = 'null'
                elif p == 'null':
                    return None
            if l == '%s->next' % node:
                if r[1] == '==':
                    if n == 'need':
                        n = 'null'
                elif n == 'null':
                    return None
        return (p, n)
    _, at_exit, _, _ = ins.forward(('none', 'none'), on_event, on_edge)
    okp = bool(at_exit) and all(p in ('fixed', 'null') for p, n in at_exit)
    okn = bool(at_exit) and all(n in ('fixed', 'null') for p, n in at_exit)
    R.ob(rule, okp, ins, 'on every path of insert the predecessor\'s next pointer is aimed at the new node (or there is no predecessor): %s' % sorted({p for p, n in at_exit}), key='insert:prev->next')
    R.ob(rule, okn, ins, 'on every path of insert the successor\'s prev pointer is aimed at the new node (or there is no successor): %s' % sorted({n for p, n in at_exit}), key='insert:next->prev')
    R.floor(rule, 2)


def link_remove(P, R, rule='C19.LINK.2'):
    rem = P.need_fn('set_remove')
    olds = [s for s in rem.stores() if s.ev['k'] == 'store' and is_var(s.ev.get('lhs')) and is_field(s.ev.get('rhs') or {}, 'root', 'set')]
    if not olds:
        raise AnalysisBroken('set_remove does not save the removed root')
    old = olds[0].ev['lhs']['name']
    setp = rem.params[0]

    def names(alias):
        return {old} | ({'%s->root' % setp} if alias else set())

    def on_event(st, s):
        alias, pn, np_ = st
        ev = s.ev
        if ev['k'] == 'store' and ev.get('op') == '=':
            l, r = canon(rem, ev['lhs']), canon(rem, ev.get('rhs'))
            if l == '%s->root' % setp:
                alias = (r == old)
            if s.key == olds[0].key:
                alias = True
            for x in names(alias):
                if l == '%s->prev->next' % x and r in {'%s->next' % y for y in names(alias)}:
                    pn = 'fixed'
                if l == '%s->next->prev' % x and r in {'%s->prev' % y for y in names(alias)}:
                    np_ = 'fixed'
        return (alias, pn, np_)

    def on_edge(st, e):
        alias, pn, np_ = st
        r = rules.edge_rel(e)
        if r and const_of(r[2]) == 0 and r[1] == '==':
            l = canon(rem, r[0])
            for x in names(alias):
                if l == '%s->prev' % x and pn == 'need':
                    pn = 'null'
                if l == '%s->next' % x and np_ == 'need':
                    np_ = 'null'
        return (alias, pn, np_)
    before, _, _, _ = rem.forward((False, 'need', 'need'), on_event, on_edge)
    for s in rem.sites():
        if s.ev['k'] == 'ret' and const_of(s.ev.get('val')) not in (None, 0):
            sts = before.get(s.key, set())
            R.ob(rule, bool(sts) and all(pn in ('fixed', 'null') for a, pn, np_ in sts), s, 'a successful remove points the predecessor past the removed node (or there is none): %s' % sorted({pn for a, pn, np_ in sts}), key='remove:prev->next')
            R.ob(rule, bool(sts) and all(np_ in ('fixed', 'null') for a, pn, np_ in sts), s, 'a successful remove points the successor back past the removed node (or there is none): %s' % sorted({np_ for a, pn, np_ in sts}), key='remove:next->prev')
    R.floor(rule, 2)


def use_after_dispose(P, R, disp, rule='C19.UAF.1'):
    n = 0
    for f in P.unit_fns(UNIT):
        for s in disp.calls_in(f):
            a = disp.node_arg(s)
            nm = canon(f, a)

            def on_event(st, t, s=s, nm=nm):
                if t.key == s.key:
                    return 'freed'
                if st == 'freed':
                    ev = t.ev
                    if ev['k'] == 'store' and canon(f, ev['lhs']) == nm and ev.get('op') == '=':
                        return 'live'
                    for ex in rules.event_exprs(ev):
                        for x in walk(ex):
                            if x.get('k') == 'mem' and x.get('arrow') and canon(f, x['base']) == nm:
                                return 'USED@%s' % t.loc
                return st
            _, at_exit, sin, bout = f.forward('live', on_event, None)
            allst = set()
            for v in bout.values():
                allst |= v
            bad = sorted(x for x in allst if isinstance(x, str) and x.startswith('USED'))
            # conditions
            for bid, sts in bout.items():
                c = f.term_cond(bid)
                if c is not None and 'freed' in sts and any(x.get('k') == 'mem' and x.get('arrow') and canon(f, x['base']) == nm for x in walk(c)):
                    bad.append('USED@condition in block %s' % bid)
            n += 1
            R.ob(rule, not bad, s, 'the node %s is not dereferenced after it was disposed%s' % (nm, (': ' + bad[0]) if bad else ''), key='uaf:%s' % f.name)
    R.floor(rule, 3)


def splay_decides(P, R, rule='C19.MPT.2'):
    """Every operation that branches on "smaller / equal / greater than the root" takes that answer from the splay of
    the key it was given: the three-way variable tested in insert, remove, find and lower bound has no other source
    (a shortcut that guesses the answer files equal keys twice or misses them)."""
    n = 0
    for name in ('set_insert', 'set_remove', 'set_find', 'set_lower'):
        f = P.fn(name)
        if f is None:
            continue
        tested = set()
        for b in f.reachable_blocks():
            for e in f.out[b]:
                r = e.rel()
                if r and is_var(r[0]) and r[0].get('sc') == 'local' and const_of(r[2]) == 0 and r[0].get('t') == 'int':
                    tested.add(r[0]['name'])
        for v in sorted(tested):
            defs = f.local_defs(v)
            srcs = [(d.ev.get('rhs') if d.ev['k'] == 'store' else d.ev.get('init')) for d in defs]
            srcs = [x for x in srcs if x is not None]
            if not any(isinstance(x, dict) and x.get('k') == 'callref' and x.get('callee') == 'set_splay' for x in srcs):
                continue
            for d, x in zip([d for d in defs if (d.ev.get('rhs') if d.ev['k'] == 'store' else d.ev.get('init')) is not None], srcs):
                n += 1
                ok = isinstance(x, dict) and x.get('k') == 'callref' and x.get('callee') == 'set_splay'
                R.ob(rule, ok, d, '%s: the comparison outcome %s tested against 0 comes from set_splay (assigned %s)' % (name, v, sx(x)), key='splay-result:%s' % name)
    R.floor(rule, 2, 'insert and lower bound keep the splay result in a variable')


def lower_bound_link(P, R, rule='C19.TAB.1'):
    """The lower bound of a key that is absent and greater than the root found by the splay is the root's successor in
    iteration order: set_lower returns the link that set_next() follows (`next`), and the root itself otherwise."""
    f = P.fn('set_lower')
    if f is None:
        raise AnalysisBroken('set_lower has vanished')
    n = 0
    cases = []
    for s in f.sites():
        if s.ev['k'] != 'ret' or s.ev.get('val') is None or const_of(s.ev['val']) == 0:
            continue
        v = f.expand_local(s.ev['val'], s)
        if v.get('k') == 'cond':
            from ..model import rel as _rel
            cases.append((s, v['t'], f.guards(s.bid) + [_rel(f.expand_local(v['c'], s), True)]))
            cases.append((s, v['f'], f.guards(s.bid) + [_rel(f.expand_local(v['c'], s), False)]))
        else:
            cases.append((s, v, f.guards(s.bid)))
    for s, v, gs in cases:
        gs = [(g[0], g[1], g[2]) if not (isinstance(g[0], dict) and g[0].get('k') == 'callref' and g[0].get('callee') == 'set_splay') else ({'k': 'var', 'name': '<splay>', 't': 'int', 'sc': 'local'}, g[1], g[2]) for g in gs]
        greater = any(is_var(g[0]) and g[1] in ('>', '>=') and const_of(g[2]) in (0, 1) and g[0].get('t') == 'int' and not (g[1] == '>=' and const_of(g[2]) == 0) for g in gs)
        n += 1
        if greater:
            ok = v.get('k') == 'mem' and v.get('field') == 'next' and is_field(v.get('base'), 'root')
            R.ob(rule, ok, s, 'for a key greater than the splayed root the lower bound is the root\'s list successor (returns %s)' % sx(v), key='lower:greater')
        else:
            ok = is_field(v, 'root')
            R.ob(rule, ok, s, 'otherwise the lower bound is the splayed root itself (returns %s)' % sx(v), key='lower:root')
    R.floor(rule, 2)


def root_checked(P, R, rule='C19.GRD.2'):
    """An empty set has no root: wherever the container looks through `set->root` (its links, its data) the root was
    tested non-null in that function on the way - the splay's answer for an empty set is not a licence to look."""
    n = 0
    for f in P.unit_fns(UNIT):
        if not f.name.startswith('set_'):
            continue
        aliases = set()
        for t in f.sites():
            v = t.ev['lhs']['name'] if t.ev['k'] == 'store' and is_var(t.ev.get('lhs')) else t.ev.get('var') if t.ev['k'] == 'decl' else None
            if v and f.single_def(v) and is_field(f.single_def(v)[1], 'root'):
                aliases.add(v)
        for s in f.sites():
            hit = None
            for ex in rules.event_exprs(s.ev):
                for x in walk(ex):
                    if x.get('k') == 'mem' and x.get('arrow') and (is_field(x.get('base'), 'root') or (is_var(x.get('base')) and x['base']['name'] in aliases)):
                        hit = x
                    if x.get('k') == 'callref' and x.get('callee') == 'set_node_data' and x['args'] and is_field(x['args'][0], 'root'):
                        hit = x
            if s.ev['k'] == 'call' and s.ev.get('callee') == 'set_node_data' and s.ev['args'] and is_field(s.ev['args'][0], 'root'):
                hit = s.ev['args'][0]
            if hit is None:
                continue
            n += 1
            gs = f.guards(s.bid)
            ok = any((is_field(g[0], 'root') or (is_var(g[0]) and g[0]['name'] in aliases)) and g[1] == '!=' and const_of(g[2]) == 0 for g in gs)
            # set_splay itself: its loop works on a local copy of the root after the emptiness test
            R.ob(rule, ok, s, '%s looks through set->root (%s) only after testing it non-null' % (f.name, sx(hit)), key='root-deref:%s' % f.name)
    R.floor(rule, 1)


def container_rules(P, R, prefix='C19'):
    """All set-container rules under a given id prefix (C10 re-uses the pairing subset)."""
    comparators(P, R, prefix + '.ARITH.1')
    disp = cleanup_callers(P, R, prefix + '.WMC.1')
    dispose_guards(P, R, disp, prefix + '.GRD.1')
    count_paths(P, R, prefix + '.MPT.1', disp)
    link_insert(P, R, prefix + '.LINK.1')
    link_remove(P, R, prefix + '.LINK.2')
    use_after_dispose(P, R, disp, prefix + '.UAF.1')
    splay_decides(P, R, prefix + '.MPT.2')
    lower_bound_link(P, R, prefix + '.TAB.1')
    root_checked(P, R, prefix + '.GRD.2')
    search_discipline(P, R, prefix + '.GRD.3')


def run(P, R, tier):
    container_rules(P, R)
    # the element count is a full-width counter
    rules.narrowing_fields(P, R, 'C19.WID.1', ('src/set.c',))
    rules.counter_widths(P, R, 'C19.WID.2', recs=('set',))
    string_comparators_reach_the_end(P, R)
    accessors_and_delegates(P, R, 'C19.TAB.3')
    return EXPLANATION, ASSUMPTIONS
