"""C10 - request bookkeeping balances over any history (resource pairing).

Decided: request table insert/remove sites and their counters; all removals dispose; the
cleanup frees the timer and the per-module data; the timer has one creator and one destroyer;
destructor and exit chain.  Not decided: that the table's size equals the number of live ids
(container semantics, C19)."""
from ..facts import AnalysisBroken
from ..model import sx, walk, is_var, is_field, const_of, vars_in, root_var, on_path
from .. import rules, core, uar
from . import c19

EXPLANATION = (
    'Rules: (WMC.1) the request table is inserted into only by the announce handler, with the allocation '
    'counter on the same path; entries are removed only by set_remove(table, req, dispose) in the '
    'disconnect and retire handlers, each with the free counter, and by set_clear(table, dispose) in the '
    'destructor; every no_dispose argument folds to 0; (WIRE.1) the table is created with the request '
    'cleanup as its disposal callback; (MPT.1) on every path the cleanup frees the timer when there is one '
    'and clears the per-module data set with disposal; (WMC.2) a request\'s timer is created only in the '
    'announce handler (else NULL) and destroyed only in the cleanup; (FMT.1) the in-use figure of the '
    'statistics line is the table\'s element count; (WIRE.2) atexit -> exit functions -> unload all modules '
    '-> per-module cleanup -> the module\'s destructor, which frees the input buffer, the read event, the '
    'table (with disposal) and the registry; (UAR.1) no request is used after a call that may retire it; '
    '(SET.*) the container pairing rules of C19 that the table relies on: one caller of the cleanup slot, '
    'guarded dispose on detached nodes, count adjusted once per path, list links repaired on insert, '
    'replace and remove, no use of a disposed node.'
    ' Rounds 8-9: (OWN.1) per-client module records own nothing but themselves; (WMC.2) an event that carries a request is kept in it; (MPT.4) the reader keeps being woken while input is left.'
    ' Hunt round 1: (WMC.3) the reference discipline of the query module (one counted reference per awaited bit, given back once), shared with C07; (WIRE.6) the announcement handler may hand the previous holder of the announced id to the withdrawing handler.')
ASSUMPTIONS = ['clang 14 CFG', 'set_remove/set_clear with no_dispose == 0 run the set\'s cleanup on the removed element and free it (C19)']


def table_sites(P, R):
    rd, disp = core.reader_dispatch(P)
    ann = [h for (s, h, vs) in disp if vs and ord('C') in vs]
    n = 0
    for f in P.fns.values():
        if f.unit.startswith('tests/'):
            continue
        for s in f.calls():
            c = s.ev.get('callee')
            a = s.ev['args']
            if c in ('set_insert', 'set_remove', 'set_clear') and a and is_var(a[0], uar.TABLE):
                n += 1
                if c == 'set_insert':
                    ok = f in ann
                    cnt = [t for t in f.stores() if t.ev.get('op') == '++' and on_path(t.ev['lhs'], 'n_req_allocs')]
                    both = bool(cnt) and (f.dominates(cnt[0].bid, s.bid) or f.path_avoiding(s, lambda t: t in cnt) is None)
                    R.ob('C10.WMC.1', ok and both, s, 'requests enter the table only in the announce handler, counted on the same path', key='insert')
                    # a request that was allocated is indexed before anything else can happen to it: a verdict or return
                    # between the allocation and the insert leaves a record (and its armed timer) nobody can release
                    allocs = [t for t in f.sites() if (t.ev.get('rhs') or t.ev.get('init') or {}).get('callee') in ('set_node_alloc', 'xmalloc', 'malloc', 'calloc') and t.ev['k'] == 'store' and is_var(t.ev.get('lhs')) and any(is_var(x, t.ev['lhs']['name']) for x in walk(s.ev['args'][1]))]
                    for al in allocs:
                        p_ = f.path_avoiding(al, lambda t: t.key == s.key)
                        R.ob('C10.WMC.1', p_ is None, al, 'every path from the allocation of a request reaches its insertion into the table', key='alloc->insert',
                             detail=('path: lines %s' % f.path_lines(p_)) if p_ else None)
                elif c == 'set_remove':
                    disposing = len(a) > 2 and const_of(a[2]) == 0
                    cnt = f.path_avoiding(s, lambda t: t.ev['k'] == 'store' and t.ev.get('op') == '++' and on_path(t.ev['lhs'], 'n_req_frees'))
                    R.ob('C10.WMC.1', disposing, s, 'a request leaves the table with disposal (no_dispose folds to 0)', key='remove:dispose')
                    R.ob('C10.WMC.1', cnt is None, s, 'every removal is counted as a free', key='remove:counted')
                    R.ob('C10.WMC.1', f.unit == rd.unit and f.static, s, 'removals happen only in the core\'s retire/disconnect handlers (%s)' % f.name, key='remove:where', nontrivial=False)
                else:
                    disposing = len(a) > 1 and const_of(a[1]) == 0
                    R.ob('C10.WMC.1', disposing and f.name == 'module_destructor', s, 'the table is cleared, with disposal, only by the module destructor', key='clear')
    R.floor('C10.WMC.1', 6)


def cleanup_fn(P, R):
    cl = None
    for f in P.fns.values():
        for s in f.stores():
            rhs = s.ev.get('rhs') or {}
            if s.ev['k'] == 'store' and is_var(s.ev.get('lhs'), uar.TABLE) and rhs.get('callee') == 'set_alloc':
                a = rhs['args']
                R.ob('C10.WIRE.1', len(a) == 2 and a[1].get('k') == 'func', s, 'the request table is created with a disposal callback (%s)' % sx(a[1] if len(a) > 1 else None), key='table-cleanup')
                if len(a) == 2 and a[1].get('k') == 'func':
                    cl = P.direct_target(f, a[1]['name'])
                R.ob('C10.WIRE.1', a and a[0].get('k') == 'func' and a[0]['name'] == 'set_compare_int', s, 'the table is keyed by the integer client id', key='table-compare', nontrivial=False)
    R.floor('C10.WIRE.1', 2)
    if cl is None:
        raise AnalysisBroken('the request table has no cleanup function')
    # MPT.1
    reqv = None
    for s in cl.sites():
        if s.ev['k'] == 'decl' and s.ev.get('t', '') == uar.REQ_T:
            reqv = s.ev['var']
    if reqv is None:
        reqv = cl.params[0]

    def frees_timer(t):
        return rules.is_call(t, 'event_free') and t.ev['args'] and is_field(t.ev['args'][0], 'timeout', core.REQ_REC)

    def on_edge(st, e):
        r = rules.edge_rel(e)
        if r and is_field(r[0], 'timeout', core.REQ_REC) and const_of(r[2]) == 0:
            return 'none' if r[1] == '==' else ('present' if st == 'unknown' else st)
        return st

    def on_event(st, t):
        if frees_timer(t):
            return 'freed'
        return st
    _, at_exit, _, _ = cl.forward('unknown', on_event, on_edge)
    R.ob('C10.MPT.1', bool(at_exit) and at_exit <= {'none', 'freed'}, cl, 'the cleanup frees the request\'s timer whenever there is one (exit states: %s)' % sorted(at_exit), key='cleanup:timer')

    def clears(t):
        return rules.is_call(t, 'set_clear') and t.ev['args'] and t.ev['args'][0].get('k') == 'un' and is_field(t.ev['args'][0]['e'], 'data', core.REQ_REC) and const_of(t.ev['args'][1]) == 0
    p = cl.path_avoiding(None, clears, from_entry=True)
    R.ob('C10.MPT.1', p is None, cl, 'the cleanup clears the per-module data set, with disposal, on every path', key='cleanup:data')
    R.floor('C10.MPT.1', 2)
    return cl


def timer_lifecycle(P, R, cl):
    rd, disp = core.reader_dispatch(P)
    ann = [h for (s, h, vs) in disp if vs and ord('C') in vs]
    n = 0
    for f in P.fns.values():
        for s in f.stores():
            if s.ev['k'] == 'store' and is_field(s.ev['lhs'], 'timeout', core.REQ_REC):
                n += 1
                rhs = s.ev.get('rhs') or {}
                # the announce handler itself, or a helper that only it calls
                callers = {c.fn.key for c in P.callers(f, may=True)}
                where = f in ann or (bool(callers) and callers <= {a.key for a in ann})
                def leafs(v, depth=0):
                    # handed back by a (folded) helper: `req->timeout = make_timer(req, seconds)`, possibly through locals
                    if is_var(v) and v.get('sc') == 'local' and depth < 4:
                        ds = [(d.ev.get('rhs') if d.ev['k'] == 'store' else d.ev.get('init')) or {} for d in f.local_defs(v['name'])]
                        out = []
                        for x in ds:
                            out += leafs(x, depth + 1)
                        return out or [v]
                    return [v]
                vals = leafs(rhs)
                ok = where and all(v.get('callee') == 'event_new' or const_of(v) == 0 for v in vals)
                R.ob('C10.WMC.2', ok, s, 'a request\'s timer is created (or left NULL) only when the request is announced (%s)' % sx(rhs), key='timer-store')
        for s in f.calls():
            if s.ev.get('callee') in ('event_free', 'event_del') and s.ev['args'] and on_path(s.ev['args'][0], 'timeout', core.REQ_REC):
                n += 1
                R.ob('C10.WMC.2', f is cl and s.ev['callee'] == 'event_free', s, 'a request\'s timer is destroyed only by the table\'s cleanup, so it lives exactly as long as the request (%s in %s)' % (s.ev['callee'], f.name), key='timer-free')
    # an event that carries a request is one the request owns: a fire-and-forget event (event_base_once) cannot be taken
    # back when the request is retired, and fires on the freed record
    for f in P.fns.values():
        for s in f.calls():
            if s.ev.get('callee') in ('event_base_once', 'event_new', 'event_assign') and any(isinstance(a, dict) and a.get('t') == uar.REQ_T for a in s.ev['args']):
                n += 1
                carriers = set()
                grew = True
                while grew:
                    grew = False
                    for t in f.stores():
                        if t.ev['k'] == 'store' and is_var(t.ev.get('lhs')) and t.ev['lhs'].get('sc') == 'local' and t.ev['lhs']['name'] not in carriers:
                            rv_ = t.ev.get('rhs') or {}
                            if any(x.get('k') == 'callref' and x.get('ev') == s.ev.get('id') for x in walk(rv_)) or (is_var(rv_) and rv_['name'] in carriers):
                                carriers.add(t.ev['lhs']['name'])
                                grew = True
                owned = s.ev['callee'] == 'event_new' and any(t.ev['k'] == 'store' and is_field(t.ev['lhs'], 'timeout', core.REQ_REC) and
                                                              (any(x.get('k') == 'callref' and x.get('ev') == s.ev.get('id') for x in walk(t.ev.get('rhs') or {})) or
                                                               (is_var(t.ev.get('rhs')) and t.ev['rhs']['name'] in carriers)) for t in f.stores())
                R.ob('C10.WMC.2', owned, s, 'an event whose callback gets a request is kept in that request, so that it is freed with it (%s in %s)' % (s.ev['callee'], f.name), key='timer-owned:%s' % s.ev['callee'])
    # the timer cannot outlive the request through another pointer: only stored in the request
    R.floor('C10.WMC.2', 3)


def stats_binding(P, R):
    hit = 0
    for s, fmt, ad in core.send_sites(P):
        if fmt and 'in use' in fmt:
            hit += 1
            # position of the in-use conversion
            import re
            convs = [m for m in re.finditer(r'%[-+ #0]*\d*(?:\.\d+)?(?:hh|h|l|ll|z)?([diuxXcs])', fmt)]
            pos = fmt.index('in use')
            k = max(i for i, m in enumerate(convs) if m.start() < pos)
            a = s.ev['args'][2 + k]
            ok = is_field(a, 'count') and is_var(a['base'], uar.TABLE)
            R.ob('C10.FMT.1', ok, s, 'the "in use" figure is the request table\'s element count (%s)' % sx(a), key='in-use')
    R.floor('C10.FMT.1', 1)


def exit_chain(P, R):
    main = P.need_fn('main')
    at = [s for s in main.calls('atexit') if s.ev['args'] and s.ev['args'][0].get('k') == 'func']
    R.ob('C10.WIRE.2', bool(at) and at[0].ev['args'][0]['name'] == 'call_exit_funcs' and main.dominates(at[0].bid, main.exit), at[0] if at else main,
         'main registers the exit-function runner with atexit on every path', key='atexit')
    cef = P.need_fn('call_exit_funcs')
    p = cef.path_avoiding(None, lambda t: rules.is_call(t, 'module_close_all'), from_entry=True)
    R.ob('C10.WIRE.2', p is None, cef, 'the exit-function runner unloads all modules', key='close-all')
    mca = P.need_fn('module_close_all')
    rem = [s for s in mca.calls('set_remove') if const_of(s.ev['args'][2]) == 0]
    R.ob('C10.WIRE.2', len(rem) >= 1, rem[0] if rem else mca, 'unloading removes modules from the registry with disposal', key='unload-dispose')
    inst = P.set_instance_fns(rem[0]) if rem else None
    mc = [t for t in (inst or []) if t.name == 'module_cleanup']
    R.ob('C10.WIRE.2', bool(mc), rem[0] if rem else mca, 'the module registry\'s disposal callback is the per-module cleanup', key='registry-cleanup')
    if mc:
        f = mc[0]
        dl = [s for s in f.sites() if (s.ev.get('rhs') or s.ev.get('init') or {}).get('callee') == 'dlsym'
              and any(a.get('k') == 'str' and a['v'] == 'module_destructor' for a in (s.ev.get('rhs') or s.ev.get('init'))['args'])]
        called = [s for s in f.calls() if not s.ev.get('callee') and 'dlsym:module_destructor' in str(P.call_slot(s)) or (not s.ev.get('callee') and any(t.name == 'module_destructor' for t in P.callees(s, True)))]
        R.ob('C10.WIRE.2', bool(dl) and bool(called), dl[0] if dl else f, 'the per-module cleanup looks up and calls the module\'s destructor', key='destructor-called')
    d = P.need_fn('module_destructor', 'modules/iauth_core.c')
    for nm, pred in (('frees the input buffer', lambda t: rules.is_call(t, 'evbuffer_free')),
                     ('frees the read event', lambda t: rules.is_call(t, 'event_free')),
                     ('clears the request table with disposal', lambda t: rules.is_call(t, 'set_clear') and is_var(t.ev['args'][0], uar.TABLE) and const_of(t.ev['args'][1]) == 0),
                     ('frees the request table', lambda t: rules.is_call(t, 'free') and is_var(t.ev['args'][0], uar.TABLE))):
        p = d.path_avoiding(None, pred, from_entry=True)
        R.ob('C10.WIRE.2', p is None, d, 'the core module\'s destructor %s' % nm, key='dtor:%s' % nm)
    R.floor('C10.WIRE.2', 8)


def module_lifetime(P, R, rule='C10.WIRE.3'):
    """Requests are released by the core module, which is unloaded last (every decision module depends on it):
    a callback stored inside a request that points into a decision module would be called, at exit with a request
    still pending, after that module's code has been unmapped.  So function pointers stored into (objects embedded
    in) a request are functions of the core unit or of the daemon proper."""
    core_unit = P.need_fn('module_destructor', 'modules/iauth_core.c').unit
    n = 0
    for f in P.fns.values():
        if f.unit.startswith('tests/'):
            continue
        for s in f.stores():
            ev = s.ev
            if ev['k'] != 'store' or (ev.get('rhs') or {}).get('k') != 'func':
                continue
            if not any(x.get('k') == 'mem' and x.get('rec') == core.REQ_REC for x in walk(ev['lhs'])):
                continue
            n += 1
            tgt = P.direct_target(f, ev['rhs']['name'])
            ok = tgt is None or tgt.unit == core_unit or tgt.unit.startswith('src/')
            R.ob(rule, ok, s, 'the callback %s stored into a request (%s) lives in %s, which outlives every request' % (ev['rhs']['name'], sx(ev['lhs']), tgt.unit if tgt else 'a library'),
                 key='req-callback:%s' % ev['rhs']['name'])
        for s in f.calls():
            # set_alloc / set_init style: a request's embedded set given its callbacks through a call
            if any(x.get('k') == 'mem' and x.get('rec') == core.REQ_REC for a in s.ev['args'] for x in walk(a)):
                for a in s.ev['args']:
                    if a.get('k') == 'func':
                        n += 1
                        tgt = P.direct_target(f, a['name'])
                        ok = tgt is None or tgt.unit == core_unit or tgt.unit.startswith('src/')
                        R.ob(rule, ok, s, 'the callback %s attached to a request lives in %s, which outlives every request' % (a['name'], tgt.unit if tgt else 'a library'), key='req-callback:%s' % a['name'])
    R.ob(rule, True, P.need_fn('module_destructor', 'modules/iauth_core.c'), 'scanned every store of a function into a request: %d found' % n, key='scan', nontrivial=False)


def retire_wiring(P, R, rule='C10.WIRE.6'):
    """The count follows the server's view: a request leaves the table when, and only when, the server withdrew the
    client (D), reported it registered (T), or the daemon gave its verdict.  So (a) in the dispatch every path through
    the D and the T arm reaches the retiring handler - no condition of the daemon's own stands between the server's
    line and the removal; (b) the withdrawing handler is called from the D arm only and the registering handler from
    the T arm and from the verdict functions only - no timer, hook or reply handler retires a client the server still
    counts."""
    rd, disp = core.reader_dispatch(P)
    pred = core.retire_pred(P)
    retiring = {}
    for s, h, vs in disp:
        if any(pred(t) for t in h.sites()):
            retiring.setdefault(h.key, (h, set()))[1].update(vs or [])
    # the server's D and T lines are handled by functions that remove the request themselves (a removal put off to a later
    # "reap" step is only as complete as the list of places that remember to call it)
    for letter in ('D', 'T'):
        hs = [h for (s, h, vs) in disp if vs and ord(letter) in vs]
        if not hs:
            raise AnalysisBroken('the dispatch has no handler for the %s line' % letter)
        for h in hs:
            R.ob(rule, h.key in retiring, h, 'the handler of the server\'s %s line (%s) removes the request from the table' % (letter, h.name), key='retires:%s' % letter)
    # (a) must-pass-through inside the arms
    sw = None
    for bid in rd.reachable_blocks():
        if any(e.label == 'case' for e in rd.out[bid]):
            c = rd.term_cond(bid)
            if c is not None and any(x.get('k') == 'idx' for x in walk(c)):
                sw = bid
    for k, (h, letters) in sorted(retiring.items()):
        for e in rd.out[sw]:
            if e.label != 'case' or not (set(e.vs or []) & letters):
                continue
            calls = {t.key for (t, hh, vs) in disp if hh.key == k}
            # leave the arm = come back to the loop head or leave the function; stop at the call
            arm = rd.reach([e.dst], cut_blocks=[sw])
            ok = True
            seen, work = set(), [e.dst]
            while work:
                b = work.pop()
                if b in seen:
                    continue
                seen.add(b)
                if any(t.key in calls for t in rd.block_sites(b)):
                    continue
                outs = [x for x in rd.out[b]]
                if not outs:
                    ok = False
                for x in outs:
                    if x.dst == sw or x.dst not in arm or rd.term_cond(x.dst) is not None and any(isinstance(y, dict) and y.get('k') == 'callref' and y.get('callee') == 'evbuffer_readln' for y in walk(rd.term_cond(x.dst))):
                        ok = False
                    else:
                        work.append(x.dst)
            R.ob(rule, ok, rd, 'every path through the %s arm of the dispatch calls %s' % ('/'.join(repr(chr(v)) for v in sorted(set(e.vs or []) & letters)), h.name), key='arm-retires:%s' % h.name)
    # (b) who may call the retiring handlers
    V = core.verdict_fns(P)
    for k, (h, letters) in sorted(retiring.items()):
        for s in P.callers(h, may=True):
            from_dispatch = s.fn.key == rd.key
            from_verdict = s.fn.key in V
            withdraws = ord('D') in letters and ord('T') not in letters
            # the server using an id again withdraws its previous holder: the announcement handler may hand what it finds
            # under the announced id - and nothing else - to the withdrawing handler
            from_announce = False
            if withdraws and any(hh is s.fn and vs and ord('C') in vs for (_, hh, vs) in disp) and s.ev['args'] and is_var(s.ev['args'][0]):
                v, idp = s.ev['args'][0]['name'], (s.fn.params[0] if s.fn.params else None)
                defs = [d for d in s.fn.local_defs(v) if (d.bid, d.idx) < (s.bid, s.idx) or d.bid != s.bid]
                look = [d for d in s.fn.local_defs(v) if ((d.ev.get('rhs') if d.ev['k'] == 'store' else d.ev.get('init')) or {}).get('callee') == 'set_find']
                from_announce = bool(look) and all(any(c.ev['args'] and is_var(c.ev['args'][0], uar.TABLE) and len(c.ev['args']) > 1 and any(is_var(x, idp) for x in walk(c.ev['args'][1]))
                                                       for c in s.fn.calls('set_find') if c.bid == d.bid) for d in look) \
                    and any(g[1] == '!=' and is_var(g[0], v) and const_of(g[2]) == 0 for g in s.fn.guards(s.bid))
            ok = from_dispatch or (from_verdict and not withdraws) or from_announce
            R.ob(rule, ok, s, '%s is called from the dispatch%s only%s (caller: %s)' % (h.name, '' if withdraws else ' and from the verdict functions', ', or by the announcement handler for the previous holder of the announced id' if withdraws else '', s.fn.name), key='retire-caller:%s' % h.name)
    R.floor(rule, 4)


def announced_ids_nameable(P, R, rule='C10.GRD.2'):
    """"In use" counts what the server announced and has not withdrawn - which presupposes that it CAN withdraw it: every
    later message about id -1 is read as "no client", so a request filed under -1 could never be removed again.  The
    announce handler puts a request into the table only where the id is known not to be -1 (non-negative)."""
    rd, disp = core.reader_dispatch(P)
    ann = [h for (s, h, vs) in disp if vs and ord('C') in vs]
    n = 0
    for h in ann:
        idp = h.params[0] if h.params else None
        for s in h.calls('set_insert'):
            if not (s.ev['args'] and is_var(s.ev['args'][0], uar.TABLE)):
                continue
            gs = h.guards(s.bid)
            ok = any(is_var(g[0], idp) and ((g[1] == '>=' and (const_of(g[2]) or 0) >= 0 and const_of(g[2]) is not None) or (g[1] == '>' and const_of(g[2]) is not None and const_of(g[2]) >= -1) or (g[1] == '!=' and const_of(g[2]) == -1)) for g in gs)
            n += 1
            R.ob(rule, ok, s, 'a request is filed only under an id that later messages can name (%s is known not to be -1 at the insertion)' % idp, key='nameable-id')
    R.floor(rule, 1, 'insertions into the request table')


def module_records_are_flat(P, R, rule='C10.OWN.1'):
    """A request's per-module records are released by the request set's own cleanup - when the request is disposed, and
    also when a re-announced id replaces it or the table is cleared at exit, none of which calls into the modules.  A
    record therefore owns nothing but itself: it has no pointer member that a module allocates (the key it is filed
    under excepted), or the set it lives in has a cleanup function that frees what it owns."""
    n = 0
    for f in P.fns.values():
        if f.unit.startswith('tests/'):
            continue
        for s in f.calls('set_insert'):
            a = s.ev['args'][0] if s.ev['args'] else None
            if not (isinstance(a, dict) and any(x.get('k') == 'mem' and x.get('field') == 'data' and x.get('rec') == core.REQ_REC for x in walk(a))):
                continue
            # the record type: the local that set_node_data() of the inserted node was assigned to
            recs = set()
            for t in f.sites():
                val = t.ev.get('rhs') if t.ev['k'] == 'store' else t.ev.get('init') if t.ev['k'] == 'decl' else None
                if isinstance(val, dict) and (any(x.get('k') == 'callref' and x.get('callee') == 'set_node_data' for x in walk(val)) or
                                              any(x.get('k') == 'bin' and x.get('op') == '+' and is_var(x.get('l')) and 'struct set_node' in (x['l'].get('t') or '') and const_of(x.get('r')) == 1 for x in walk(val))):
                    tt = (t.ev.get('lhs') or {}).get('t') if t.ev['k'] == 'store' else t.ev.get('t')
                    if tt and tt.startswith('struct ') and tt.rstrip().endswith('*'):
                        recs.add(tt[len('struct '):].rstrip('* ').strip())
            for rec in sorted(recs):
                rd = P.records.get(rec) or {}
                ptrs = [fd['name'] for fd in rd.get('fields', ()) if '*' in fd.get('t', '') and '(*' not in fd.get('t', '')]
                # which of them does the module ever point at memory it allocated?
                owned = []
                for g in P.fns.values():
                    for t in g.stores():
                        lhs = t.ev.get('lhs') or {}
                        if t.ev['k'] == 'store' and lhs.get('k') == 'mem' and lhs.get('rec') == rec and lhs.get('field') in ptrs:
                            if any(x.get('k') == 'callref' and x.get('callee') in ('xmalloc', 'malloc', 'calloc', 'xstrdup', 'strdup', 'realloc', 'xrealloc', 'xstrndup') for x in walk(t.ev.get('rhs') or {})):
                                owned.append((lhs['field'], t))
                n += 1
                R.ob(rule, not owned, owned[0][1] if owned else s, 'the per-client record %s owns no allocation of its own (pointer members: %s%s)' % (rec, ', '.join(ptrs) or 'none', ('; allocated: ' + ', '.join(sorted({o[0] for o in owned}))) if owned else ''),
                     key='flat-record:%s' % rec)
    R.floor(rule, 1, 'per-client module records')


def run(P, R, tier):
    module_records_are_flat(P, R)
    # a request's part in a module: the references it holds on services are counted once per awaited bit and given back
    # once - a reference nobody owns any more keeps a retired service (and its slot) for the life of the process
    from .. import holds as _holds
    _holds.refs_discipline(P, R, 'C10.WMC.3')
    announced_ids_nameable(P, R)
    # withdrawals and registrations must find the request they are about
    from .c08 import junk_inert
    junk_inert(P, R, 'C10.GRD.1')
    table_sites(P, R)
    retire_wiring(P, R)
    cl = cleanup_fn(P, R)
    timer_lifecycle(P, R, cl)
    stats_binding(P, R)
    exit_chain(P, R)
    module_lifetime(P, R)
    # the timer is handed the request itself (its callback writes into what it is given)
    from . import c03
    from ..report import Remap
    c03.timer(P, Remap(R, {'C03.MPT.1': 'C10.WIRE.4'}, keys=('timer-created',)))
    uar.check(P, R, 'C10.UAR.1')
    # the table's balance rests on the container's pairing rules (anchor: src/set.c insert-replace)
    disp = c19.cleanup_callers(P, R, 'C10.SET.WMC')
    c19.dispose_guards(P, R, disp, 'C10.SET.GRD')
    c19.count_paths(P, R, 'C10.SET.MPT', disp)
    c19.link_insert(P, R, 'C10.SET.LINK')
    c19.link_remove(P, R, 'C10.SET.LINK')
    c19.use_after_dispose(P, R, disp, 'C10.SET.UAF')
    # requests are found by id: the id comparator is a total order for every pair of ints
    c19.comparators(P, R, 'C10.SET.ARITH')
    # a request whose flag word is combined with a set of another kind can never satisfy the gate and is never retired
    rules.bitset_domains(P, R, 'C10.TAB.1')
    # every verdict retires the request it is about (a killed client does not wait for the server's D)
    from . import c01
    from ..report import Remap as _Remap
    V, softfns = c01.fmt_rules(P, _Remap(R, {}))
    c01.verdict_discipline(P, _Remap(R, {'C01.MPT.1': 'C10.MPT.2'}), V)
    # the table key and the element count hold every id / every number of requests
    rules.narrowing_fields(P, R, 'C10.WID.1', ('modules/iauth_core.c', 'modules/iauth_xquery.c', 'src/set.c'))
    rules.counter_widths(P, R, 'C10.WID.2', recs=('set', 'iauth_request', 'iauth_xquery_service'))
    # the end of input is only seen by a reader that keeps being woken while bytes are left (round 9)
    from . import c03 as _c03r
    _c03r.reader_drains(P, R, 'C10.MPT.4')
    # what the daemon's own senders print is what they were given: each conversion gets an argument of its width and kind
    rules.fmt_args_agree(P, R, 'C10.FMT.2', {'iauth_send': 1, 'iauth_report_config': 1, 'iauth_report_stats': 1, 'iauth_x_query': 2})
    return EXPLANATION, ASSUMPTIONS
