"""C15 - reload is deterministic: last good file plus defaults (partial).

Decided: every hook call is guarded by that node's change predicate and every value change
reaches it; the no-change exits are taken only for equal values; node-kind exhaustiveness;
the leftover removal guard; the was-present test reads the old bit; registration adopts and
marks; ownership moves.  Not decided: history independence of values."""
from ..facts import AnalysisBroken
from ..model import sx, walk, is_var, is_field, const_of, vars_in, root_var, same, on_path
from .. import rules
from .c14 import ownership

UNIT = 'src/config.c'
EXPLANATION = (
    'Rules over src/config.c: (GRD.1) every call through a node\'s hook is null-guarded and reached only '
    'under that node\'s change predicate: list - not (new and old both exhausted at the first difference); '
    'typed string - parsed value differs; plain string - text differs; reverted string - there was a value; '
    'host/service pair - one of the four difference disjuncts; object - membership modified; path update - '
    'after a splice; (GRD.1b) the no-change exit of the list setter is taken only when both lists end at '
    'the first difference; (MPT.1) every replacement of a value is followed on all paths by its guarded hook '
    'test; every splice into and removal from an object sets its modified flag; (TAB.1) the switches over '
    'the node kind in merge and cleanup have a case for every enumerator; (GRD.2) a node is removed from '
    'the live tree only when absent from the file, not registered and attached, and the present bit is '
    'assigned from "has a source" before that test on every path; (GRD.3) the object branch\'s was-present '
    'test reads the bit before anything overwrites it; (MPT.2) registration looks the node up, inserts only '
    'when it is missing and marks it registered on every return path; (OWN.1) moved pointers are nulled at '
    'the source.  NOT decided: that values equal last good file plus defaults for every history.'
    ' Rounds 8-9: (WMC.2) the live root is set up member by member, never wiped as a whole; (GRD.6) typed parsers judge the text alone.')
ASSUMPTIONS = ['clang 14 CFG', 'hooks are only installed by consumers, never by the config unit']


def hook_calls(P):
    return [s for f in P.unit_fns(UNIT) for s in f.calls() if P.call_slot(s) == 'conf_node_base::hook']


def notification(P, R):
    hs = hook_calls(P)
    for s in hs:
        f = s.fn
        gs = f.guards(s.bid)
        nullg = any(is_field(g[0], 'hook') and g[1] == '!=' and const_of(g[2]) == 0 for g in gs)
        R.ob('C15.GRD.1', nullg, s, 'the hook call in %s is null-guarded' % f.name, key='null-guard:%s' % f.name, nontrivial=False)
    # ---- list setter
    ls = P.need_fn('conf_set_string_list_value')
    dv = None
    for s in ls.stores():
        if s.ev['k'] == 'store' and is_var(s.ev.get('lhs')) and s.ev.get('op') == '++':
            dv = dv or s.ev['lhs']['name']
    node, newv = ls.params[0], ls.params[1]

    def resolve(e, depth=0):
        """a local that holds a count (`const unsigned new_used = new_value->used`) stands for that count"""
        while is_var(e) and e.get('sc') == 'local' and depth < 3 and e['name'] != dv:
            d = ls.single_def(e['name'])
            if not d or not isinstance(d[1], dict):
                break
            e = d[1]
            depth += 1
        return e

    def owner(e):
        """the parameter a `...used` expression belongs to, through locals that alias `&param->value`"""
        rv_ = root_var(e)
        seen = 0
        while rv_ is not None and rv_['name'] not in (node, newv) and seen < 3:
            d = ls.single_def(rv_['name'])
            if not d or not isinstance(d[1], dict):
                break
            rv_ = root_var(d[1])
            seen += 1
        return rv_['name'] if rv_ is not None else None

    def atoms(r):
        l, op, rr = r
        out = []
        if is_var(rr, dv) and not is_var(l, dv) and op in ('==', '!='):
            l, rr = rr, l          # `used == differ` is `differ == used`
        if is_var(l, dv) and op in ('==', '!='):
            rr = resolve(rr)
            if on_path(rr, 'used') and owner(rr) == newv:
                out.append(('A', op == '=='))
            if on_path(rr, 'used') and owner(rr) == node:
                out.append(('B', op == '=='))
        return out

    def on_edge(st, e):
        r = rules.edge_rel(e)
        if not r:
            return st
        d = dict(st)
        for k, v in atoms(r):
            if k in d and d[k] != v:
                return None
            d[k] = v
        return tuple(sorted(d.items()))

    def on_event(st, s):
        if s.ev['k'] == 'store' and (is_var(s.ev.get('lhs'), dv) or on_path(s.ev['lhs'], 'used')):
            return ()
        return st
    before, _, _, _ = ls.forward((), on_event, on_edge)
    # first-mutation sites: frees, used = differ, appends
    muts = [s for s in ls.sites() if (s.ev['k'] == 'call' and s.ev.get('callee') in ('free', 'string_vector_append')) or
            (s.ev['k'] == 'store' and on_path(s.ev['lhs'], 'used') and root_var(s.ev['lhs']) is not None and root_var(s.ev['lhs'])['name'] == node)]
    for s in [t for t in hs if t.fn is ls]:
        # the hook is reached only when the lists differ: evaluate at the first statement after the equality test
        firstmut = min(muts, key=lambda t: t.line) if muts else s
        sts = [dict(st) for st in before.get(firstmut.key, set())] if firstmut.key in before else []
        # states are reset by the mutations themselves, so judge the guard at the first mutation
        ok = bool(sts) and all(not (d.get('A') and d.get('B')) for d in sts)
        # ... and it is KNOWN to differ: on every path to the hook one of "ends with the new list" / "ends with the old
        # list" was found false (facts kept across the list's own mutation; only a new value of the index resets them)

        def on_event_k(st, t):
            if t.ev['k'] == 'store' and is_var(t.ev.get('lhs'), dv):
                return ()
            return st
        bk, _, _, _ = ls.forward((), on_event_k, on_edge)
        stk = [dict(st) for st in bk.get(s.key, set())]
        ok = ok and bool(stk) and all((d.get('A') is False) or (d.get('B') is False) for d in stk)
        R.ob('C15.GRD.1', ok, s, 'the list hook runs only when the new list differs from the current one', key='predicate:list')
    # the items are compared exactly, like plain strings: an edit that changes only the letter case is a change
    cmpn = 0
    for b in ls.blocks:
        c = ls.term_cond(b)
        for x in walk(c) if c is not None else ():
            if x.get('k') == 'callref' and x.get('callee') in ('strcmp', 'strcasecmp', 'strncmp', 'strncasecmp', 'strcoll') and any(on_path(a, 'vec') for a in x.get('args', [])):
                cmpn += 1
                R.ob('C15.GRD.1', x['callee'] == 'strcmp', P.relloc((ls.blocks[b].get('term') or {}).get('loc')) if (ls.blocks[b].get('term') or {}).get('loc') else ls,
                     'list items are compared exactly (%s)' % x['callee'], key='predicate:list-exact')
    rets = [s for s in ls.sites() if s.ev['k'] == 'ret']
    early = [s for s in rets if not any(ls.before(m, s) or m.bid in ls.reach([ls.entry], cut_blocks=[s.bid]) and False for m in muts) and s.bid not in {b for m in muts for b in ls.reach([m.bid])}]
    for s in early:
        sts = [dict(st) for st in before.get(s.key, set())]
        ok = bool(sts) and all(d.get('A') and d.get('B') for d in sts)
        R.ob('C15.GRD.1', ok, s, 'the list setter returns without change only when both lists end at the first difference (equal lists)', key='nochange:list')
    if muts:
        first = min(muts, key=lambda t: t.line)

        def hooktest(t):
            return False
        # MPT: from the first mutation every path reaches the null-guarded hook test block
        tests = {b for b in ls.blocks if any(is_field((e.rel() or [{}])[0], 'hook') for e in ls.out[b] if e.rel())}
        p = ls.path_avoiding(first, lambda t: False)
        reach_ok = p is not None and all(True for _ in [0])
        # every path from the mutation to the exit passes through a block that tests the hook
        cut = ls.reach([first.bid], cut_blocks=list(tests))
        R.ob('C15.MPT.1', ls.exit not in cut or first.bid in tests, first, 'after the list is changed every path reaches the hook test', key='reaches:list')
    # the hook is told about the FINAL list: nothing changes the list behind the hook call
    for s in [t for t in hs if t.fn is ls]:
        after = ls.reach([e.dst for e in ls.out[s.bid]])
        late = [m for m in muts if (m.bid in after and m.bid != s.bid) or (m.bid == s.bid and m.idx > s.idx)]
        R.ob('C15.MPT.1', not late, s, 'the list hook runs after the last change to the list%s' % ((' (changed again at %s)' % late[0].loc) if late else ''), key='list-hook-last')
    # ---- strings
    sv = P.need_fn('conf_parse_string_value')
    for s in [t for t in hs if t.fn is sv]:
        gs = sv.guards(s.bid)
        kinds = []
        for g in gs:
            l, op, rr = g
            if isinstance(l, dict) and l.get('k') == 'callref' and l.get('callee') == 'memcmp' and op == '!=' and any(on_path(a, 'parsed') for a in l['args']):
                kinds.append('typed: parsed value differs')
            if is_var(l) and op == '!=' and const_of(rr) == 0:
                defs = sv.local_defs(l['name'])
                # only the assignments that can still be in force at the call
                def on_event(st, t, v=l['name']):
                    e2 = t.ev
                    if (e2['k'] == 'store' and is_var(e2.get('lhs'), v)) or (e2['k'] == 'decl' and e2.get('var') == v):
                        return t.key
                    return st
                before = sv.forward('', on_event, None)[0]
                live = set(before.get(s.key, ()))
                if live and '' not in live:
                    defs = [d for d in defs if d.key in live]
                if any(isinstance(x, dict) and x.get('k') == 'callref' and x.get('callee') == 'memcmp' and any(on_path(a, 'parsed') for a in x['args']) for d in defs for x in walk(d.ev.get('rhs') or d.ev.get('init') or {})) \
                        and len(defs) == 1:
                    kinds.append('reverted: the remembered value differs from "no value"')
                    continue
                texts = [sx(d.ev.get('rhs') or d.ev.get('init')) for d in defs]
                if any('strcmp(' in t and 'strcasecmp(' not in t and 'strncmp(' not in t for t in texts):
                    # ... and it compares the node's new text with the text it remembers (parsed.p_string), not with itself
                    okops = False
                    for d in defs:
                        for x in walk(d.ev.get('rhs') or d.ev.get('init') or {}):
                            if x.get('k') == 'callref' and x.get('callee') == 'strcmp' and len(x['args']) == 2:
                                ops = [sv.expand_local(a, d) for a in x['args']]
                                # a local that snapshots the node's value on entry is the node's value
                                ops = [sv.single_def(a['name'])[1] if is_var(a) and sv.single_def(a['name']) else a for a in ops]
                                okops = okops or (any(is_field(a, 'p_string') for a in ops) and any(is_field(a, 'value') for a in ops))
                    kinds.append('plain: text differs' if okops else 'WRONG: the plain-text comparison does not compare the new text with the remembered one (parsed.p_string)')
                elif any('cmp(' in t for t in texts):
                    kinds.append('WRONG: the plain-text comparison is not an exact strcmp, so some edits (e.g. letter case) are not seen as changes')
                if any(is_field(d.ev.get('rhs') or d.ev.get('init') or {}, 'value') for d in defs):
                    kinds.append('reverted: there was a value')
        R.ob('C15.GRD.1', bool(kinds) and not kinds[0].startswith('WRONG'), s, 'string hook call is guarded by its change predicate (%s)' % (kinds[0] if kinds else 'none found'), key='predicate:string:%s' % (kinds[0].split(':')[0] if kinds else 'none'))
    cp = [s for s in sv.calls('memcpy') if any(on_path(a, 'parsed') for a in s.ev['args'][:1])]
    for s in cp:
        ok = any(is_var(g[0], 'success') and g[1] == '!=' for g in sv.guards(s.bid)) or \
            not any(is_var(g[0], 'success') and g[1] == '==' for g in sv.guards(s.bid)) and any(isinstance(g[0], dict) and g[0].get('callee') == 'memcmp' for g in sv.guards(s.bid))
        tests = {b for b in sv.blocks if any(is_field((e.rel() or [{}])[0], 'hook') for e in sv.out[b] if e.rel())}
        cut = sv.reach([s.bid], cut_blocks=list(tests))
        R.ob('C15.MPT.1', sv.exit not in cut, s, 'after a typed value is replaced every path reaches the hook test', key='reaches:typed')
    # ---- host/service pair and object: in the merge
    rv = P.need_fn('conf_replace_value')
    # the "membership changed" flag: the int local tested before the object hook, and every local copied into it
    # (a merge loop moved into a helper keeps its own flag and hands it back)
    fam = set()
    for s in [t for t in hs if t.fn is rv]:
        for g in rv.guards(s.bid):
            if is_var(g[0]) and g[0].get('t') == 'int' and g[0].get('sc') == 'local' and g[1] == '!=' and const_of(g[2]) == 0:
                fam.add(g[0]['name'])
    grew = True
    while grew:
        grew = False
        for t in rv.stores():
            if t.ev['k'] == 'store' and is_var(t.ev.get('lhs')) and t.ev['lhs']['name'] in fam and t.ev.get('op') == '=' and is_var(t.ev.get('rhs')) and t.ev['rhs']['name'] not in fam:
                fam.add(t.ev['rhs']['name'])
                grew = True
    for s in [t for t in hs if t.fn is rv]:
        gs = rv.guards(s.bid)
        if any(is_var(g[0]) and g[0]['name'] in fam and g[1] == '!=' for g in gs):
            R.ob('C15.GRD.1', True, s, 'the object hook runs only when membership was modified', key='predicate:object')
            continue
        # pair: product over the four disjuncts

        def disj(r):
            l, op, rr = r
            t = sx(l)
            if op == '!=' and const_of(rr) is None and 'hostname' in t + sx(rr) and '!' in t:
                return 'host-presence'
            if isinstance(l, dict) and l.get('k') == 'callref' and l.get('callee') in ('strcasecmp', 'strcmp') and op == '!=' and const_of(rr) == 0:
                return 'host-text' if any(on_path(a, 'hostname') or 'hostname' in sx(a) for a in l['args']) else 'service-text'
            if op == '!=' and const_of(rr) is None and '!' in t:
                return 'service-presence'
            return None

        # a comparison folded back from a helper arrives as a test of the helper's result: what the helper returned
        ret_exprs = {}
        for t in rv.stores():
            if t.ev['k'] == 'store' and is_var(t.ev.get('lhs')) and t.ev['lhs']['name'].startswith('__ret@'):
                ret_exprs.setdefault(t.ev['lhs']['name'], []).append(t.ev.get('rhs'))

        def on_edge2(st, e):
            r = rules.edge_rel(e)
            if r and disj(r):
                return True
            if r and is_var(r[0]) and r[0]['name'] in ret_exprs and r[1] == '!=' and const_of(r[2]) == 0:
                exs = ret_exprs[r[0]['name']]
                if exs and all(isinstance(x, dict) and any(y.get('k') == 'mem' and y.get('field') in ('hostname', 'service') for y in walk(x)) and const_of(x) is None for x in exs):
                    return True
            return st
        b2, _, _, _ = rv.forward(False, None, on_edge2)
        sts = b2.get(s.key, set())
        R.ob('C15.GRD.1', bool(sts) and sts <= {True}, s, 'the host/service hook runs only when the host or the service differs (presence or text)', key='predicate:pair')
        inv = [t for t in rv.stores() if t.ev['k'] == 'store' and is_field(t.ev['lhs'], 'state') and t.bid == s.bid or (t.ev['k'] == 'store' and is_field(t.ev['lhs'], 'state') and rv.dominates(t.bid, s.bid))]
        R.ob('C15.MPT.1', bool(inv), s, 'a changed pair is invalidated (state reset) before its hook runs', key='pair:invalidate', nontrivial=False)
    # splice / removal -> modified
    mods = [t for t in rv.stores() if t.ev['k'] == 'store' and is_var(t.ev.get('lhs')) and t.ev['lhs']['name'] in fam and const_of(t.ev.get('rhs')) == 1]
    for s in rv.calls('set_insert'):
        if on_path(s.ev['args'][0], 'contents') and root_var(s.ev['args'][0]) is not None and (root_var(s.ev['args'][0])['name'].split('@')[0] == 'target' or root_var(s.ev['args'][0]).get('sc') == 'local'):
            p = rv.path_avoiding(s, lambda t: t in mods)
            R.ob('C15.MPT.1', p is None, s, 'a node spliced into an object marks the object modified', key='splice->modified')
    for bid in rv.reachable_blocks():
        for e in rv.out[bid]:
            r = rules.edge_rel(e)
            if r and isinstance(r[0], dict) and r[0].get('k') == 'callref' and r[0].get('callee') == 'conf_replace_value' and r[1] == '!=' and const_of(r[2]) == 0:
                first = rv.block_sites(e.dst)
                R.ob('C15.MPT.1', any(t in mods for t in first), first[0] if first else rv, 'a child removed during the merge marks its parent modified', key='removal->modified')
    # every revert of a child that left the file (recursive call with no source) has its "the child was removed" result
    # looked at: a removal whose result is dropped never reaches the parent's hook
    for s in rv.calls('conf_replace_value'):
        if len(s.ev['args']) < 2 or const_of(s.ev['args'][1]) != 0:
            continue
        c = rv.term_cond(s.bid)
        used = c is not None and any(x.get('k') == 'callref' and x.get('callee') == 'conf_replace_value' and [sx(a) for a in x.get('args', [])] == [sx(a) for a in s.ev['args']] for x in walk(c))
        if not used:
            # result stored in a local that is then tested or ORed into the flag
            nxt = rv.block_sites(s.bid)[s.idx + 1:s.idx + 2]
            used = bool(nxt) and nxt[0].ev['k'] == 'store' and is_var(nxt[0].ev.get('lhs')) and any(x.get('k') == 'callref' and x.get('callee') == 'conf_replace_value' for x in walk(nxt[0].ev.get('rhs')))
        R.ob('C15.MPT.1', used, s, 'the result of reverting a child that left the file is looked at (a removed child marks its parent modified)', key='removal-result-used')
    R.floor('C15.GRD.1', 12)
    R.floor('C15.MPT.1', 5)


def live_root_not_wiped(P, R, rule='C15.WMC.2'):
    """The live tree's root is a static object that is initialised lazily - and the initialisation can be entered twice
    (the first configuration call registers a log facility, which registers the `logs` section, which initialises the
    configuration).  What the inner run put into the root must survive the outer one: the root is set up member by
    member, its contents being left to the set code - nothing clears or overwrites the object as a whole."""
    unit = P.need_fn('conf_read').unit
    roots = {g['name'] for g in P.globals_of(unit)} if hasattr(P, 'globals_of') else set()
    n = 0
    for f in P.unit_fns(unit):
        for s in f.calls():
            if s.ev.get('callee') in ('memset', 'memcpy', 'memmove', 'bzero', '__builtin_memset', '__memset_chk', '__builtin___memset_chk'):
                a = s.ev['args'][0] if s.ev['args'] else None
                if isinstance(a, dict) and a.get('k') == 'un' and a.get('op') == '&' and is_var(a.get('e')) and a['e'].get('sc') in ('file_static', 'global') and a['e'].get('rec') == 'conf_node_object':
                    n += 1
                    R.ob(rule, False, s, '%s overwrites the whole live root object %s with %s' % (f.name, a['e']['name'], s.ev['callee']), key='root-wiped:%s' % f.name)
        for s in f.stores():
            lhs = s.ev.get('lhs') or {}
            if s.ev['k'] == 'store' and is_var(lhs) and lhs.get('sc') in ('file_static', 'global') and lhs.get('rec') == 'conf_node_object':
                n += 1
                R.ob(rule, False, s, '%s assigns the live root object %s as a whole' % (f.name, lhs['name']), key='root-wiped:%s' % f.name)
            # the set's own members (its tree and its count) are the set code's to write
            if s.ev['k'] == 'store' and lhs.get('k') == 'mem' and lhs.get('field') in ('root', 'count') and lhs.get('rec') == 'set' and root_var(lhs) is not None and root_var(lhs).get('sc') in ('file_static', 'global'):
                n += 1
                R.ob(rule, False, s, '%s writes the member %s of the live root\'s set itself' % (f.name, lhs['field']), key='root-set-written:%s' % f.name)
    init = P.need_fn('config_init')
    members = sorted({(t.ev['lhs'] or {}).get('field') for t in init.stores() if t.ev['k'] == 'store' and root_var(t.ev.get('lhs') or {}) is not None and root_var(t.ev['lhs']).get('rec') == 'conf_node_object'} - {None})
    R.ob(rule, bool(members), init, 'config_init sets the live root up member by member (%s)' % ', '.join(members), key='root-memberwise', nontrivial=False)
    R.floor(rule, 1)


def merge_details(P, R, rule='C15.MPT.6'):
    """Four small invariants of the merge that the coarser rules do not see:
    (flag)   the "membership changed" flag only ever goes up inside the merge loop - a plain assignment of a later
             child's result would forget an earlier splice or removal and the section hook would not run;
    (parent) a node spliced into an object names that object as its parent (the scratch object it came from is freed);
    (pair)   the host/service change test compares BOTH texts, each new text with its own saved original;
    (alias)  the plain string's remembered text aliases the node's current text: whenever the function that refreshes
             it is left on the plain-text arm, the alias has been re-pointed (the old text is freed by the caller)."""
    rv = P.need_fn('conf_replace_value')
    hs = [t for t in hook_calls(P) if t.fn is rv]
    fam = set()
    for s in hs:
        for g in rv.guards(s.bid):
            if is_var(g[0]) and g[0].get('t') == 'int' and g[0].get('sc') == 'local' and g[1] == '!=' and const_of(g[2]) == 0:
                fam.add(g[0]['name'])
    n = 0
    for t in rv.stores():
        ev = t.ev
        if ev['k'] != 'store' or not is_var(ev.get('lhs')) or ev['lhs']['name'] not in fam:
            continue
        in_loop = t.bid in rv.reach([e.dst for e in rv.out[t.bid]])
        if not in_loop:
            continue
        c = const_of(ev.get('rhs'))
        ok = ev.get('op') == '|=' or (ev.get('op') == '=' and isinstance(c, int) and c != 0)
        n += 1
        R.ob(rule, ok, t, 'inside the merge loop the change flag %s is only raised (found `%s %s %s`)' % (ev['lhs']['name'], ev['lhs']['name'], ev.get('op'), sx(ev.get('rhs'))), key='flag-monotone')
    # parent
    for f in P.unit_fns(rv.unit):
        for s in f.calls('set_insert'):
            a0 = s.ev['args'][0] if s.ev['args'] else {}
            cont = [x for x in walk(a0) if x.get('k') == 'mem' and x.get('field') == 'contents']
            if not cont:
                continue
            owner = cont[0].get('base')
            ps = [t for t in f.block_sites(s.bid) if t.ev['k'] == 'store' and is_field(t.ev.get('lhs'), 'parent') and t.ev.get('op') == '=' and t.idx < s.idx]
            for t in ps:
                n += 1
                R.ob(rule, sx(t.ev.get('rhs')) == sx(owner), t, 'the node inserted into %s is given that object as its parent (found %s)' % (sx(a0), sx(t.ev.get('rhs'))), key='parent-link:%s' % f.name)
    # pair
    cmps = []
    for b in rv.blocks:
        c = rv.term_cond(b)
        for x in walk(c) if c is not None else ():
            if x.get('k') == 'callref' and x.get('callee') in ('strcasecmp', 'strcmp') and len(x['args']) == 2:
                fl = []
                for a in x['args']:
                    if is_var(a) and rv.single_def(a['name']):
                        a = rv.single_def(a['name'])[1]
                    fl.append([y.get('field') for y in walk(a) if y.get('k') == 'mem' and y.get('field') in ('hostname', 'service')])
                if any(fl):
                    cmps.append((b, fl))
    if cmps:
        seen = set()
        for b, fl in cmps:
            same_field = len(fl) == 2 and fl[0] and fl[1] and fl[0][-1] == fl[1][-1]
            n += 1
            R.ob(rule, same_field, P.relloc(rv.blocks[b]['term'].get('loc')) if (rv.blocks[b].get('term') or {}).get('loc') else rv,
                 'a text comparison of the host/service test compares a field with its own saved original (%s vs %s)' % (fl[0], fl[1]), key='pair-own-field')
            if same_field:
                seen.add(fl[0][-1])
        n += 1
        R.ob(rule, seen >= {'hostname', 'service'}, rv, 'the host/service change test compares both texts (compared: %s)' % sorted(seen), key='pair-both')
        # ... the EFFECTIVE texts: what is compared is what the node ends up with - no store to the node's host or
        # service (the fall-back to the registered default) happens behind the comparison
        after = set()
        for b, fl in cmps:
            after |= rv.reach([e.dst for e in rv.out[b]])
        late = [t for t in rv.stores() if t.ev['k'] == 'store' and (t.ev.get('lhs') or {}).get('k') == 'mem' and t.ev['lhs'].get('field') in ('hostname', 'service')
                and t.bid in after and not any(t.bid == b for b, _ in cmps) and const_of(t.ev.get('rhs')) != 0
                and not (is_var(t.ev['lhs'].get('base')) and t.ev['lhs']['base']['name'].startswith('source'))]
        n += 1
        R.ob(rule, not late, late[0] if late else rv, 'the host/service texts are final (defaults applied) before they are compared with the saved originals', key='pair-final')
    # alias
    sv = P.need_fn('conf_parse_string_value')
    plain = None
    for c in P.enums.get('conf_node_string_subtype', []):
        if c['name'] == 'CONF_STRING_PLAIN':
            plain = c['v']
    al = [t for t in sv.stores() if t.ev['k'] == 'store' and is_field(t.ev.get('lhs'), 'p_string') and is_field(t.ev.get('rhs') or {}, 'value')]
    if al and plain is not None:
        # state: (on the plain-text arm?, remembered text fresh?, known constant values of locals - so that "the helper
        # said plain" (a folded helper returning a code) selects the arm the same way a case label does)
        def on_edge(st, e):
            arm, fresh, consts = st
            if e.label == 'case' and e.cond is not None and is_field(e.cond, 'subtype'):
                return (plain in (e.vs or []), fresh, consts)
            if e.label == 'default' and e.cond is not None and is_field(e.cond, 'subtype'):
                return (True, fresh, consts)
            r = rules.edge_rel(e)
            if r and is_var(r[0]) and isinstance(const_of(r[2]), int) and r[0]['name'] in dict(consts):
                v, c = dict(consts)[r[0]['name']], const_of(r[2])
                if not {'==': v == c, '!=': v != c, '<': v < c, '<=': v <= c, '>': v > c, '>=': v >= c}.get(r[1], True):
                    return None
            return st

        def on_event(st, t):
            arm, fresh, consts = st
            ev = t.ev
            if ev['k'] == 'store' and is_field(ev.get('lhs'), 'p_string'):
                return (arm, is_field(ev.get('rhs') or {}, 'value') or const_of(ev.get('rhs')) == 0, consts)
            if ev['k'] == 'store' and is_field(ev.get('lhs'), 'value'):
                return (arm, False, consts)
            if ev['k'] == 'call' and ev.get('callee') == 'memset' and ev['args'] and any(y.get('k') == 'mem' and y.get('field') == 'parsed' for y in walk(ev['args'][0])):
                return (arm, True, consts)
            if ev['k'] == 'store' and is_var(ev.get('lhs')) and ev['lhs'].get('sc') == 'local':
                d = dict(consts)
                d.pop(ev['lhs']['name'], None)
                rhs = ev.get('rhs')
                if ev.get('op') == '=' and isinstance(const_of(rhs), int):
                    d[ev['lhs']['name']] = const_of(rhs)
                elif ev.get('op') == '=' and is_var(rhs) and rhs['name'] in dict(consts):
                    d[ev['lhs']['name']] = dict(consts)[rhs['name']]
                return (arm, fresh, tuple(sorted(d.items())))
            return st
        _, at_exit3, _, _ = sv.forward((False, False, ()), on_event, on_edge)
        at_exit = {(x[0], x[1]) for x in at_exit3}
        n += 1
        R.ob(rule, bool(at_exit) and all(fresh for arm, fresh in at_exit if arm), al[0], 'on the plain-text arm the remembered text is re-pointed at the node\'s current text on every path to the return', key='alias-refresh')
    R.floor(rule, 5, 'flag raises, parent link, pair comparisons, alias refresh')

def alias_established(P, R, rule='C15.MPT.7'):
    """The change test of a plain string compares the new text with the text the node REMEMBERS (parsed.p_string): so
    wherever a string node is given a text, the remembered text is brought in line before the function returns - by
    the refresh function, or by a store of its own.  A node that starts life with a text but no remembered text looks
    "changed" on the first identical reload, and its consumer is notified for nothing."""
    unit = P.need_fn('conf_read').unit
    refresh = 'conf_parse_string_value'
    n = 0
    for f in P.unit_fns(unit):
        if f.name == refresh:
            continue
        for s in f.stores():
            ev = s.ev
            lhs = ev.get('lhs') or {}
            if not (ev['k'] == 'store' and ev.get('op') == '=' and lhs.get('k') == 'mem' and lhs.get('field') == 'value' and lhs.get('rec') == 'conf_node_string'):
                continue
            base = sx(lhs.get('base'))
            if is_var(lhs.get('base')) and lhs['base']['name'].startswith('source'):
                continue        # the scratch node gives its text away; it is freed with the scratch tree

            def settles(t, base=base):
                e2 = t.ev
                if e2['k'] == 'call' and e2.get('callee') == refresh and e2['args'] and sx(e2['args'][0]) == base:
                    return True
                l2 = e2.get('lhs') or {}
                if e2['k'] == 'store' and l2.get('k') == 'mem' and l2.get('field') == 'p_string' and sx(l2.get('base', {}).get('base')) == base:
                    return True
                return False
            n += 1
            R.ob(rule, f.path_avoiding(s, settles) is None, s, 'in %s the text given to %s is also what the node remembers (refresh call or store to parsed.p_string) before the function returns' % (f.name, base),
                 key='alias-established:%s' % f.name)
    R.floor(rule, 2, 'stores of a text into a string node')

def defaults_at_registration(P, R, rule='C15.MPT.8'):
    """A registration applies the default it records: every conf_register_* function that records a default in a
    member def_X also establishes the live member X before it returns (a store to it, a vector copy into it, or the
    refresh function on the node).  Otherwise a setting registered after the file was read has no value until the next
    reload, and what the consumer sees depends on when it registered."""
    unit = P.need_fn('conf_read').unit
    refresh = 'conf_parse_string_value'
    n = 0
    for f in P.unit_fns(unit):
        if not f.name.startswith('conf_register_'):
            continue
        recorded = {}
        for s in f.sites():
            ev = s.ev
            cands = []
            if ev['k'] == 'store':
                cands.append(ev.get('lhs'))
            elif ev['k'] == 'call' and ev['args'] and (ev.get('callee') or '').startswith(('string_vector_', 'const_string_vector_')):
                a = ev['args'][0]
                cands.append(a.get('e') if isinstance(a, dict) and a.get('k') == 'un' and a.get('op') == '&' else a)
            for lv in cands:
                if isinstance(lv, dict) and lv.get('k') == 'mem' and str(lv.get('field', '')).startswith('def_'):
                    recorded.setdefault((sx(lv.get('base')), lv['field'][4:]), s)
        for (base, live), s in sorted(recorded.items()):
            def settles(t, base=base, live=live):
                e2 = t.ev
                if e2['k'] == 'call' and e2.get('callee') == refresh and e2['args'] and sx(e2['args'][0]) == base:
                    return True
                if e2['k'] == 'store':
                    l2 = e2.get('lhs') or {}
                    return l2.get('k') == 'mem' and l2.get('field') == live and sx(l2.get('base')) == base
                if e2['k'] == 'call' and e2['args'] and (e2.get('callee') or '') in ('string_vector_copy',):
                    a = e2['args'][0]
                    a = a.get('e') if isinstance(a, dict) and a.get('k') == 'un' and a.get('op') == '&' else a
                    return isinstance(a, dict) and a.get('k') == 'mem' and a.get('field') == live and sx(a.get('base')) == base
                return False
            # the live member may be kept when it already has a value: the side of a test that says "set" settles it too
            def on_event(st, t):
                return True if settles(t) else st

            def on_edge(st, e, base=base, live=live):
                r = e.rel() if e.cond is not None and e.label not in ('case', 'default') else None
                if r and const_of(r[2]) == 0 and r[1] in ('!=', '>'):
                    for x in walk(r[0]):
                        if isinstance(x, dict) and x.get('k') == 'mem' and x.get('field') == live and sx(x.get('base')) == base:
                            return True
                        # ... or the file gave the value (an empty list is one): the node is marked present
                        if isinstance(x, dict) and x.get('k') == 'mem' and x.get('field') == 'present' and root_var(x) is not None and is_var(root_var(x), base):
                            return True
                return st
            _, at_exit, _, _ = f.forward(False, on_event, on_edge)
            ok = bool(at_exit) and all(at_exit)
            n += 1
            R.ob(rule, ok, s, '%s records the default def_%s of %s and establishes the live %s before returning (unconditionally, or unless it already has a value or the file gave it)' % (f.name, live, base, live),
                 key='default-applied:%s:%s' % (f.name, live))
    R.floor(rule, 5, 'defaults recorded by registration functions')

def live_notifications(P, R, rule='C15.GRD.5'):
    """No notification is dead code: every call through a node's hook can be reached along a path whose pointer tests
    do not contradict each other.  (A snapshot `orig = node->value` tested for "there was a value" inside the arm that
    is entered only when node->value was already NULL is such a contradiction: the consumer of a text with no default
    never heard that the text went away.)  A forward nullness analysis over each function with hook calls: facts
    "expression is / is not NULL" from the branch conditions, copied through `local = expression` snapshots, dropped
    at stores and (for non-locals) at calls."""
    n = 0
    for f in sorted({s.fn for s in hook_calls(P)}, key=lambda g: g.name):
        def strip(e):
            while isinstance(e, dict) and e.get('k') == 'cast':
                e = e.get('e')
            return e

        def forget(st, L, calls=False):
            out = set()
            for it in st:
                if it[0] == 'n':
                    x = it[1]
                    if x == L or x.startswith(L + '->') or x.startswith(L + '.') or x.startswith(L + '['):
                        continue
                    if calls and ('->' in x or '.' in x or '[' in x or '*' in x):
                        continue
                    out.add(it)
                else:
                    _, v, E = it
                    if v == L or E == L or E.startswith(L + '->') or E.startswith(L + '.'):
                        continue
                    if calls:
                        continue
                    out.add(it)
            return out

        def on_event(st, t):
            ev = t.ev
            if ev['k'] == 'call':
                return frozenset(forget(st, '\0', calls=True))
            lhs = rhs = None
            if ev['k'] == 'store':
                lhs, rhs = ev.get('lhs'), ev.get('rhs') if ev.get('op') == '=' else None
                L = sx(lhs)
            elif ev['k'] == 'decl' and ev.get('var'):
                L, rhs = ev['var'], ev.get('init')
            else:
                return st
            cur = forget(st, L)
            rhs = strip(rhs)
            if isinstance(rhs, dict):
                c = const_of(rhs)
                E = sx(rhs)
                if c == 0:
                    cur.add(('n', L, True))
                elif rhs.get('k') in ('var', 'mem') and L != E:
                    for it in st:
                        if it[0] == 'n' and it[1] == E:
                            cur.add(('n', L, it[2]))
                    if '->' not in L and '.' not in L and not E.startswith(L):
                        cur.add(('a', L, E))
            return frozenset(cur)

        def on_edge(st, e):
            if e.cond is None or e.label in ('case', 'default'):
                return st
            r = e.rel()
            if not r or const_of(r[2]) != 0 or r[1] not in ('==', '!='):
                return st
            l = strip(r[0])
            if not (isinstance(l, dict) and l.get('k') in ('var', 'mem')):
                return st
            key, isnull = sx(l), r[1] == '=='
            keys = {key}
            for it in st:
                if it[0] == 'a':
                    if it[2] == key:
                        keys.add(it[1])
                    if it[1] == key:
                        keys.add(it[2])
            cur = set(st)
            for k in keys:
                if ('n', k, not isnull) in st:
                    return None
                cur.add(('n', k, isnull))
            return frozenset(cur)
        before = f.forward(frozenset(), on_event, on_edge)[0]
        for s in [t for t in hook_calls(P) if t.fn is f]:
            n += 1
            R.ob(rule, bool(before.get(s.key)), s, 'the hook call in %s can be reached: the pointer tests on the way to it do not contradict each other' % f.name,
                 key='live:%s' % f.name)
    R.floor(rule, 5, 'hook call sites')

def list_default_condition(P, R, rule='C15.MPT.9'):
    """An empty list is a value the file can give (`name ();`).  The registration of a list therefore cannot decide
    "no value, take the default" from the emptiness of the list alone: the statement that copies the default into the
    live list is guarded by something that tells an omitted list from an empty one (the node's present bit)."""
    unit = P.need_fn('conf_read').unit
    n = 0
    for f in P.unit_fns(unit):
        if not f.name.startswith('conf_register_'):
            continue
        for s in f.calls('string_vector_copy'):
            a = s.ev['args']
            if len(a) < 2:
                continue
            dst = a[0].get('e') if a[0].get('k') == 'un' and a[0].get('op') == '&' else a[0]
            src = a[1].get('e') if a[1].get('k') == 'un' and a[1].get('op') == '&' else a[1]
            if not (isinstance(dst, dict) and dst.get('k') == 'mem' and dst.get('field') == 'value' and isinstance(src, dict) and src.get('k') == 'mem' and src.get('field') == 'def_value'):
                continue
            gs = f.guards(s.bid)
            own = [g for g in gs if any(isinstance(x, dict) and x.get('k') == 'mem' and x.get('field') in ('size', 'used', 'vec') for x in walk(g[0]))]
            other = [g for g in gs if g not in own and any(isinstance(x, dict) and x.get('k') == 'mem' and x.get('field') == 'present' for x in walk(g[0]))]
            n += 1
            R.ob(rule, bool(other), s, 'in %s the default is copied into the live list only for a list the file does not give (guards: %s)' % (f.name, '; '.join('%s %s %s' % (sx(g[0]), g[1], sx(g[2])) for g in gs) or 'none'),
                 key='list-default:%s' % f.name)
    R.floor(rule, 2, 'list registrations')

def zero_defaults(P, R, rule='C15.TAB.2'):
    """Nodes made by the parser are zero-filled and never given a subtype (only registration assigns one): the
    enumerator that means "plain text" must therefore be 0, or a setting nobody registered is parsed as a boolean /
    number when a later file changes it.  Checked from both sides: the parse phase stores no subtype, and the plain
    enumerator's value is 0; the subtype name table has one entry per enumerator."""
    enum = P.enums.get('conf_node_string_subtype', [])
    plain = [c['v'] for c in enum if c['name'] == 'CONF_STRING_PLAIN']
    gc = P.need_fn('conf_parse_get_child')
    pe = P.need_fn('conf_parse_entry')
    sets = [s for f in (gc, pe) for s in f.stores() if s.ev['k'] == 'store' and is_field(s.ev.get('lhs'), 'subtype')]
    R.ob(rule, bool(plain) and (plain[0] == 0 or bool(sets)), gc, 'parser-made string nodes are plain text: they are zero-filled, no parse function stores a subtype, and CONF_STRING_PLAIN is %s' % (plain[0] if plain else '?'),
         key='plain-is-zero')
    names = None
    for unit, g in P.globals.get('conf_string_subtype_names', []):
        if isinstance(g.get('init'), dict):
            names = [it.get('v') for it in g['init'].get('items', []) if isinstance(it, dict) and it.get('k') == 'str']
    if names is not None:
        R.ob(rule, len(names) >= len(enum), gc, 'the subtype name table has a name for every subtype (%d names, %d subtypes)' % (len(names), len(enum)), key='subtype-names', nontrivial=False)

def capacities(P, R, rule='C15.BND.1'):
    """A vector's recorded capacity is what was allocated: wherever a `vec` member is given freshly allocated storage
    for N elements, the `size` member is N - either the allocation is sized by the member itself, or the store to the
    member in the same function has the same count expression.  (List values are copied with these when a default is
    applied or a setting is replaced; a capacity larger than the block lets the next append write past it.)"""
    n = 0

    def count_of(f, e, depth=0):
        if not isinstance(e, dict) or depth > 2:
            return None
        if is_var(e) and f.single_def(e['name']):
            return count_of(f, f.single_def(e['name'])[1], depth + 1)
        if e.get('k') == 'callref' and e.get('callee') in ('xmalloc', 'malloc', 'calloc', 'xrealloc', 'realloc'):
            a = e['args'][-1] if e['callee'] not in ('calloc',) else e['args'][0]
            if isinstance(a, dict) and a.get('k') == 'bin' and a.get('op') == '*':
                for x, y in ((a['l'], a['r']), (a['r'], a['l'])):
                    if isinstance(const_of(y), int) and not isinstance(const_of(x), int):
                        return x
            return a
        return None
    for f in P.fns.values():
        if f.unit.startswith('tests/'):
            continue
        for s in f.stores():
            ev = s.ev
            if not (ev['k'] == 'store' and ev.get('op') == '=' and is_field(ev.get('lhs'), 'vec')):
                continue
            cnt = count_of(f, ev.get('rhs'))
            if cnt is None:
                continue
            owner = sx(ev['lhs'].get('base'))
            sizes = [t for t in f.stores() if t.ev['k'] == 'store' and is_field(t.ev.get('lhs'), 'size') and sx(t.ev['lhs'].get('base')) == owner and t.ev.get('op') == '=']
            self_sized = is_field(cnt, 'size') and sx(cnt.get('base')) == owner
            ok = self_sized or any(sx(t.ev.get('rhs')) == sx(cnt) for t in sizes)
            n += 1
            R.ob(rule, ok, s, '%s: the storage given to %s holds %s elements and that is the capacity recorded (%s)' % (f.name, sx(ev['lhs']), sx(cnt), ', '.join('size = %s' % sx(t.ev.get('rhs')) for t in sizes) or 'sized by the member itself'),
                 key='capacity:%s' % f.name)
    R.floor(rule, 10, 'vector allocations')

def exhaustive(P, R):
    enum = [c['v'] for c in P.enums.get('conf_node_type', [])]
    for name in ('conf_replace_value', 'conf_object_cleanup'):
        f = P.need_fn(name)
        found = False
        for bid in f.reachable_blocks():
            es = f.out[bid]
            if any(e.label == 'case' for e in es):
                c = f.term_cond(bid)
                if c is not None and any(x.get('k') == 'mem' and x['field'] == 'type' for x in walk(c)):
                    vals = sorted({v for e in es if e.label == 'case' for v in (e.vs or [])})
                    found = True
                    R.ob('C15.TAB.1', vals == sorted(enum), P.relloc((f.blocks[bid].get('term') or {}).get('loc', '?')),
                         '%s handles every node kind (cases %s, enum %s)' % (name, vals, sorted(enum)), key='switch:%s' % name)
                    R.obligations[-1]['function'] = name
        if not found:
            # an if / else-if chain on the kind: the enumerators compared with the node's type
            vals = set()
            first = None
            for bid in f.reachable_blocks():
                for e in f.out[bid]:
                    r = e.rel()
                    l0 = r[0] if r else None
                    if is_var(l0) and f.single_def(l0['name']):
                        l0 = f.single_def(l0['name'])[1]      # a local copy of the kind
                    if r and isinstance(l0, dict) and l0.get('k') == 'mem' and l0.get('field') == 'type' and r[1] == '==' and (r[2] or {}).get('k') == 'enum' and r[2].get('enum') == 'conf_node_type':
                        vals.add(r[2]['v'])
                        first = first or bid
            if vals:
                found = True
                R.ob('C15.TAB.1', sorted(vals) == sorted(enum), P.relloc((f.blocks[first].get('term') or {}).get('loc', '?')),
                     '%s handles every node kind (kinds tested in its if-chain %s, enum %s)' % (name, sorted(vals), sorted(enum)), key='switch:%s' % name)
                R.obligations[-1]['function'] = name
        if not found:
            R.broke('C15.TAB.1: %s no longer switches on the node kind' % name)
    R.floor('C15.TAB.1', 2)


def removal_guard(P, R):
    rv = P.need_fn('conf_replace_value')
    tgt = rv.params[0]
    src = rv.params[1]
    pres = [s for s in rv.stores() if s.ev['k'] == 'store' and is_field(s.ev['lhs'], 'present') and is_var(s.ev['lhs']['base'], tgt)]
    def present_ok(t):
        txt = sx(t.ev.get('rhs')).replace(' ', '')
        if txt in ('(%s!=0)' % src, '(0!=%s)' % src):
            return True
        c = const_of(t.ev.get('rhs'))
        gs = rv.guards(t.bid)
        if c == 1:
            return any(is_var(g[0], src) and g[1] == '!=' and const_of(g[2]) == 0 for g in gs)
        if c == 0:
            return any(is_var(g[0], src) and g[1] == '==' and const_of(g[2]) == 0 for g in gs)
        return False
    okp = len(pres) >= 1 and all(present_ok(t) for t in pres)
    R.ob('C15.GRD.2', okp, pres[0] if pres else rv, 'the present bit is assigned from "the file has this node" (%s)' % (', '.join(sx(t.ev.get('rhs')) for t in pres) if pres else None), key='present-assign')
    rem = [s for s in rv.calls('set_remove') if any(is_var(x, tgt) for x in walk(s.ev['args'][1])) and any(is_field(g[0], 'present') or is_field(g[0], 'specified') for g in rv.guards(s.bid))]
    for s in rem:
        gs = rv.guards(s.bid)
        np = any(is_field(g[0], 'present') and g[1] == '==' and const_of(g[2]) == 0 for g in gs) or (okp and any(is_var(g[0], src) and g[1] == '==' and const_of(g[2]) == 0 for g in gs))
        ns = any(is_field(g[0], 'specified') and g[1] == '==' and const_of(g[2]) == 0 for g in gs)
        hp = any(is_field(g[0], 'parent') and g[1] == '!=' and const_of(g[2]) == 0 for g in gs)
        R.ob('C15.GRD.2', np and ns and hp, s, 'a leftover is removed only when absent from the file, not registered, and attached to a parent', key='leftover-guard')
        # ... and WHENEVER it is: nothing else about the node (a hook a consumer installed, its kind, its value) keeps an
        # unregistered leftover in the tree - "unregistered leftovers of earlier files are gone"
        extra = [g for g in gs if isinstance(g[0], dict) and g[0].get('k') == 'mem' and is_var(root_var(g[0]), tgt) and g[0].get('field') not in ('present', 'specified', 'parent')]
        R.ob('C15.GRD.2', not extra, s, 'the removal of a leftover depends on nothing but its present bit, its registration and its parent%s' % ('' if not extra else ' (it also requires %s)' % ', '.join('%s %s %s' % (sx(g[0]), g[1], sx(g[2])) for g in extra)), key='leftover-only')
        if pres:
            R.ob('C15.GRD.2', rv.path_avoiding(None, lambda t: any(t.key == q.key for q in pres), target=s.bid, from_entry=True) is None or any(q.bid == s.bid and q.idx < s.idx for q in pres), s,
                 'the present bit is up to date when the leftover test runs', key='present-before-test')
    R.floor('C15.GRD.2', 3)
    # GRD.3: was-present read in the object branch precedes any write of the bit
    reads = []
    for b in rv.blocks:
        for e in rv.out[b]:
            r = e.rel()
            if r and is_field(r[0], 'present') and is_var(r[0]['base'], tgt) and const_of(r[2]) == 0:
                # the object-branch test: it is not the leftover test (which also tests `specified`)
                nxt = rv.out[e.dst] if e.label == 'false' or True else []
                reads.append((b, e))
    obj_tests = {b for b, e in reads if not any(is_field((x.rel() or [{}])[0], 'specified') for x in rv.out[b] if x.rel())
                 and not any(is_field((x.rel() or [{}])[0], 'specified') for bb in [y.dst for y in rv.out[b]] for x in rv.out[bb] if x.rel())}
    for b in obj_tests:
        if pres:
            stale = b in rv.reach([pres[0].bid]) and pres[0].bid != b
            loc = P.relloc((rv.blocks[b].get('term') or {}).get('loc', '?'))
            R.ob('C15.GRD.3', not stale, loc, 'the object branch tests whether the section WAS present before the bit is overwritten (needed to revert the children of a dropped section)', key='was-present')
            R.obligations[-1]['function'] = rv.name
    # ... and it is the section that WAS present whose children are reverted (the test's polarity)
    for s in rv.calls('conf_replace_value'):
        if len(s.ev['args']) < 2 or const_of(s.ev['args'][1]) != 0:
            continue
        gs = rv.guards(s.bid)
        if any(is_var(g[0], src) and g[1] == '!=' and const_of(g[2]) == 0 for g in gs):
            continue        # inside the merge with a new version of the section: a child that left the file
        pg = [g for g in gs if is_field(g[0], 'present') and is_var(g[0]['base'], tgt) and const_of(g[2]) == 0]
        R.ob('C15.GRD.3', bool(pg) and all(g[1] == '!=' for g in pg), s, 'when the whole section left the file its children are reverted if the section was present before (guard: %s)' %
             (', '.join('present %s 0' % g[1] for g in pg) or 'none'), key='revert-if-was-present')
    R.floor('C15.GRD.3', 1)


def registration(P, R):
    rn = P.need_fn('conf_register_node')
    finds = [s for s in rn.sites() if (s.ev.get('rhs') or s.ev.get('init') or {}).get('callee') == 'set_find']
    ins = [s for s in rn.calls('set_insert')]
    R.ob('C15.MPT.2', len(finds) == 1 and len(ins) == 1 and rn.before(finds[0], ins[0]), finds[0] if finds else rn, 'registration looks the node up before it inserts', key='lookup-first')
    if finds and ins:
        ev = finds[0].ev
        ex = ev['lhs']['name'] if ev['k'] == 'store' else ev['var']
        ok = any(is_var(g[0], ex) and g[1] == '==' and const_of(g[2]) == 0 for g in rn.guards(ins[0].bid))
        R.ob('C15.MPT.2', ok, ins[0], 'a node is inserted only when the lookup found none (an existing node is adopted)', key='insert-if-missing')
    marks = [s for s in rn.stores() if s.ev['k'] == 'store' and is_field(s.ev['lhs'], 'specified') and const_of(s.ev.get('rhs')) == 1]
    rets = [s for s in rn.sites() if s.ev['k'] == 'ret']
    okm = bool(marks) and all(rn.path_avoiding(None, lambda t: t in marks, target=r.bid, from_entry=True) is None or any(t in marks for t in rn.block_sites(r.bid)[:r.idx]) for r in rets)
    R.ob('C15.MPT.2', okm, marks[0] if marks else rn, 'every return of the registration has marked the node as registered (so a later file that omits it reverts it to its default instead of deleting it)', key='marks-specified')
    # the marked node is the one returned
    if marks and rets:
        def marked_before(r):
            for mk in marks:
                if same(r.ev.get('val'), mk.ev['lhs']['base']) and (rn.path_avoiding(None, lambda t: t.key == mk.key, target=r.bid, from_entry=True) is None or any(t.key == mk.key for t in rn.block_sites(r.bid)[:r.idx])):
                    return True
            return False
        R.ob('C15.MPT.2', all(marked_before(r) for r in rets), rets[0], 'the node returned is the one that was marked', key='returns-marked', nontrivial=False)
    R.floor('C15.MPT.2', 3)


def list_defaults(P, R, rule='C15.GRD.4'):
    """A registered default goes only into a list that never held a value.  The list has no presence flag of its own:
    the mechanism is the vector's capacity (`size`), which a list emptied by a file keeps while its length (`used`)
    is 0 - so the default fill is guarded by the capacity, not by the length.  And the helper that installs it makes
    the destination equal to the source whatever the source holds (an empty source empties the destination)."""
    n = 0
    for name in ('conf_register_string_list', 'conf_register_string_list_sv'):
        f = P.fn(name)
        if f is None:
            continue
        for c in f.calls('string_vector_copy'):
            a = c.ev['args']
            if not (len(a) == 2 and on_path(a[0], 'value') and on_path(a[1], 'def_value')):
                continue
            n += 1
            gs = f.guards(c.bid)
            by_len = [g for g in gs if on_path(g[0], 'value') and is_field(g[0], 'used')]
            by_cap = [g for g in gs if on_path(g[0], 'value') and is_field(g[0], 'size') and g[1] == '==' and const_of(g[2]) == 0]
            by_presence = [g for g in gs if isinstance(g[0], dict) and g[0].get('k') == 'mem' and g[0].get('field') == 'present' and g[1] == '==' and const_of(g[2]) == 0]
            # the node's present bit tells an omitted list from an empty one on its own; without it the only witness is
            # the vector's capacity (a list emptied by a file keeps it), never its length
            R.ob(rule, bool(by_presence) or (bool(by_cap) and not by_len), c, '%s installs the default only into a list the file did not give (present-bit test %s, capacity test %s, length test %s)' % (name, bool(by_presence), bool(by_cap), bool(by_len)), key='default-fill:%s' % name)
    cp = P.fn('string_vector_copy')
    if cp is not None and len(cp.params) == 2:
        dst = cp.params[0]
        def sets_used(t):
            return t.ev['k'] == 'store' and is_field(t.ev['lhs'], 'used') and is_var(t.ev['lhs'].get('base'), dst) and t.ev.get('op') == '='
        p = cp.path_avoiding(None, sets_used, from_entry=True)
        n += 1
        R.ob(rule, p is None, cp, 'string_vector_copy gives the destination the source\'s length on every path (also for an empty source)', key='copy-total')
    R.floor(rule, 2)


def load_merges(P, R, rule='C15.MPT.3'):
    """A successful load always installs what it read: in conf_read every path through the setjmp()==0 branch that
    ends normally calls the merge of the scratch tree into the live one (a load that "decides" the file need not be
    applied leaves settings that differ from the file)."""
    cr = P.need_fn('conf_read')
    rv = P.need_fn('conf_replace_value')
    merges = [s for s in cr.calls(rv.name)]
    if not merges:
        raise AnalysisBroken('conf_read does not call the merge')
    n = 0
    resv = {t.ev['lhs']['name'] for t in cr.stores() if t.ev['k'] == 'store' and is_var(t.ev.get('lhs')) and any(isinstance(x, dict) and x.get('k') == 'callref' and x.get('callee') in ('setjmp', '_setjmp', '__sigsetjmp') for x in walk(t.ev.get('rhs') or {}))}
    for b in cr.reachable_blocks():
        for e in cr.out[b]:
            ok_edge = e.label == 'case' and e.vs and 0 in e.vs
            if not ok_edge and e.cond is not None and e.label not in ('case', 'default'):
                # the same dispatch written as `if (res == 0) ... else ...`
                r = e.rel()
                ok_edge = bool(r) and is_var(r[0]) and r[0]['name'] in resv and r[1] == '==' and const_of(r[2]) == 0
            if ok_edge:
                n += 1
                p = cr.path_from_block(e.dst, lambda t: t.key in {m.key for m in merges})
                R.ob(rule, p is None, merges[0], 'every normal path through the successful-parse branch of conf_read reaches the merge%s' % ('' if p is None else ' (a path avoids it: lines %s)' % cr.path_lines(p)), key='load-merges')
    R.floor(rule, 1)
    # history independence, structural part: the load keeps no state of its own between calls
    unit = cr.unit
    closure = [f for f in P.closure([cr], may=False).values() if f.unit == unit]
    allowed = set()
    for a in merges[0].ev['args']:
        rvv = root_var(a)
        if rvv is not None and rvv.get('sc') in ('file_static', 'static_local', 'global'):
            allowed.add(rvv['name'])
    k = 0
    for f in closure:
        for s in f.sites():
            for lv in P.written_lvalues(s):
                rvv = root_var(lv)
                if rvv is None or rvv.get('sc') not in ('file_static', 'static_local', 'global'):
                    continue
                if rvv['name'] in allowed or 'log' in rvv['name']:
                    continue
                k += 1
                R.ob('C15.WMC.1', False, s, '%s writes the static object %s while loading: the outcome of a load must depend on the file and the registered defaults only, not on earlier loads' % (f.name, rvv['name']), key='load-static:%s' % rvv['name'])
    R.ob('C15.WMC.1', True, cr, 'scanned %d functions of the load closure for writes to static storage other than the live tree (%s): %d found' % (len(closure), sorted(allowed), k), key='scan', nontrivial=False)


def removal_reports_change(P, R, rule='C15.MPT.4'):
    """An object's hook runs when its membership changes: a child that is dropped from its parent makes the merge
    return a non-zero constant (the parent's `modified`), on every path that removes it."""
    rv = P.need_fn('conf_replace_value')
    tgt = rv.params[0]
    n = 0
    for s in rv.calls('set_remove'):
        if not any(is_var(x, tgt) for x in walk(s.ev['args'][1])):
            continue
        # returns reachable from the removal without another merge step
        seen, work, rets = set(), [(s.bid, s.idx)], []
        for t in rv.sites():
            if t.ev['k'] == 'ret' and (t.bid in rv.reach([s.bid])) and (t.bid != s.bid or t.idx > s.idx):
                rets.append(t)
        # single-exit form: `removed = 1; ... return removed;` - what the local is known to hold at the return, on the paths
        # that passed the removal
        def on_event(st, u, s=s):
            passed, consts = st
            if u.key == s.key:
                return (True, consts)
            ev = u.ev
            if ev['k'] == 'store' and is_var(ev.get('lhs')) and ev['lhs'].get('sc') == 'local':
                d = dict(consts)
                d.pop(ev['lhs']['name'], None)
                if ev.get('op') == '=' and isinstance(const_of(ev.get('rhs')), int):
                    d[ev['lhs']['name']] = const_of(ev['rhs'])
                return (passed, tuple(sorted(d.items())))
            if ev['k'] == 'decl' and ev.get('var') and isinstance(const_of(ev.get('init')), int):
                d = dict(consts)
                d[ev['var']] = const_of(ev['init'])
                return (passed, tuple(sorted(d.items())))
            return st
        bf, _, _, _ = rv.forward((False, ()), on_event, None)
        for t in rets:
            n += 1
            v = rv.expand_local(t.ev.get('val'), t) if isinstance(t.ev.get('val'), dict) else t.ev.get('val')
            c = const_of(v)
            if c is None and is_var(t.ev.get('val')):
                vals = {dict(cs).get(t.ev['val']['name']) for (ps, cs) in bf.get(t.key, set()) if ps}
                if vals and None not in vals and all(isinstance(x, int) and x != 0 for x in vals):
                    c = sorted(vals)[0]
            viacall = isinstance(t.ev.get('val'), dict) and t.ev['val'].get('k') == 'callref'
            R.ob(rule, isinstance(c, int) and c != 0, t, 'after dropping the node from its parent the merge reports a change by returning a non-zero constant (returns %s)' % sx(t.ev.get('val')), key='removal-return')
    R.floor(rule, 2, 'type-change replacement and leftover removal')


def old_value_lifetime(P, R, rule='C15.UAF.1'):
    """The string re-parser compares the new text with the previous one through parsed.p_string, which points into
    the node's previous value: the previous value is released only after the last re-parse of that node."""
    rv = P.need_fn('conf_replace_value')
    psv = P.need_fn('conf_parse_string_value')
    alias = any(t.ev['k'] == 'store' and any(is_field(x, 'p_string') for x in walk(t.ev['lhs'])) and is_field(t.ev.get('rhs'), 'value') for t in psv.stores())
    reads = any(is_field(x, 'p_string') for t in psv.calls() for a in t.ev['args'] for x in walk(a))
    if not (alias and reads):
        R.ob(rule, True, psv, 'the re-parser no longer keeps a pointer into the previous text; nothing to order', key='no-alias', nontrivial=False)
        return
    n = 0
    for s in rv.calls():
        if s.ev.get('callee') not in ('xfree', 'free') or not s.ev['args'] or not is_var(s.ev['args'][0]):
            continue
        v = s.ev['args'][0]['name']
        d = rv.single_def(v)
        if not d or not is_field(d[1], 'value'):
            continue
        n += 1
        later = [t for t in rv.calls(psv.name) if (t.bid == s.bid and t.idx > s.idx) or (t.bid != s.bid and t.bid in rv.reach([s.bid]) and not (s.bid in rv.reach([t.bid]) and False))]
        later = [t for t in later if not (t.bid == s.bid and t.idx < s.idx)]
        R.ob(rule, not later, later[0] if later else s, 'the previous text (%s) is released after the last re-parse of the string: no call of %s is reachable from the release' % (v, psv.name), key='old-value-free')
    R.floor(rule, 1)


def run(P, R, tier):
    list_defaults(P, R)
    # "unregistered leftovers are gone / omitted settings revert": both walk the nodes the parser marked present
    from . import c16
    from ..report import Remap
    c16.duplicates(P, Remap(R, {'C16.MPT.1': 'C15.MPT.5'}))
    load_merges(P, R)
    removal_reports_change(P, R)
    old_value_lifetime(P, R)
    notification(P, R)
    merge_details(P, R)
    capacities(P, R)
    zero_defaults(P, R)
    alias_established(P, R)
    defaults_at_registration(P, R)
    live_notifications(P, R)
    list_default_condition(P, R)
    rules.vector_walks(P, R, 'C15.BND.2', units=('src/config.c', 'src/common.c'))
    R.floor('C15.BND.2', 3, 'vector walks in the configuration code')
    exhaustive(P, R)
    removal_guard(P, R)
    registration(P, R)
    ownership(P, R, 'C15.OWN.1')
    # leftovers are removed from, and returning members inserted into, the same ordered container
    from . import c19
    c19.link_insert(P, R, 'C15.LINK.1')
    c19.link_remove(P, R, 'C15.LINK.1')
    # the parser and the merge keep nothing from one load (or one entry, or one nested call) to the next
    rules.no_static_locals(P, R, 'C15.WMC.9', P.unit_fns(P.need_fn('conf_read').unit), 'configuration code')
    # settings keep copies of the texts they are given, except the documented hand-overs
    rules.param_string_escapes(P, R, 'C15.OWN.9', ('src/config.c', 'src/common.c'))
    # "or its registered default if the file omits it": the default is still what was registered, however often a
    # setting has fallen back to it
    from . import c14 as _c14
    _c14.defaults_read_only(P, R, 'C15.OWN.2')
    # shared (round 9): whether a typed value parses depends on its text alone, not on what was parsed before
    from ..report import Remap as _Remap
    from . import c16 as _c16
    _c16.unknown_chars(P, _Remap(R, {'C16.GRD.1': 'C15.GRD.6'}))
    live_root_not_wiped(P, R)
    return EXPLANATION, ASSUMPTIONS
