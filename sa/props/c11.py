"""C11 - class rules: the first matching rule in name order decides (scan structure).

Decided: rules compiled in container order with the case-insensitive name comparator; the
ascending scan stops at the first hit; the class store is dominated by every criterion test;
criterion fields loaded / tested / freed exhaustively; class-or-name choice; the trust_username
guard; the hook position before the verdict line; every rule item read carries the rebuild
hook.  Not decided: glob and mask semantics (fnmatch, C13)."""
from ..facts import AnalysisBroken
from ..model import sx, walk, is_var, is_field, const_of, vars_in, root_var, same, on_path, rel
from .. import rules, core, hooks, bnd

UNIT = 'modules/iauth_class.c'
RULE_REC = 'iauth_class_rule'
EXPLANATION = (
    'Rules: (MPT.1) the rule vector is filled by one pass from set_first to set_next over the section\'s '
    'contents, each object node stored at index `used` which is then incremented exactly once; (TAB.1) the '
    'section comparator compares names with strcasecmp first and the node kind only on equality; (GRD.1) '
    'the scan starts at 0, ascends by 1 and continues only while no rule has hit; (GRD.2) a finite dataflow '
    'over the rule matcher with one atom per criterion (absent, or matched against the client\'s own '
    'attribute) shows all five hold at the class store; (TAB.2) every pointer field of the rule record is '
    'loaded from the same-named item, used by the matcher and freed; (FMT.1) the class is rule->class or '
    'else rule->name, the mask test binds (client address, rule address, rule bits), the account is cut at '
    'the colon by an exact prefix copy; (GRD.3) the user name is upgraded only under the rule\'s flag and '
    'an untrusted (~) ident; (WIRE.1) the assignment is the pre_registered slot, returns early on a '
    'pre-assigned class, and the slot broadcast precedes the verdict send on every path of the accept '
    'function; (MPT.2) every OK reply is recorded in the ok mask the xreply_ok criterion reads; '
    'function; (WIRE.2) every rule item read while compiling carries a hook that rebuilds the rules.'
    ' Rounds 8-9: (BND.4/TAB.10/BND.5) shared: field capacities admit the maximum, wildcard forms, strlcpy contract; (MPT.1) path-sensitive append count.')
ASSUMPTIONS = ['clang 14 CFG', 'fnmatch/irc_check_mask semantics are trusted (C13 not claimed)']

CRITERIA = {
    'account': ('fnmatch', 'account'),
    'address_bits': ('irc_check_mask', 'remote_addr'),
    'username': ('fnmatch', 'auth_username'),
    'hostname': ('fnmatch', 'hostname'),
    'xreply_ok': ('iauth_xreply_ok', None),
}


def compile_pass(P, R):
    H = P.need_fn('iauth_class_conf_changed')
    # the append: &new_rules.vec[new_rules.used] ... new_rules.used++
    vecs = [s for s in H.stores() if s.ev['k'] == 'store' and is_var(s.ev.get('lhs')) and (s.ev.get('rhs') or {}).get('k') == 'un'
            and s.ev['rhs']['op'] == '&' and s.ev['rhs']['e'].get('k') == 'idx' and on_path(s.ev['rhs']['e'], 'vec') and on_path(s.ev['rhs']['e']['index'], 'used')]
    R.ob('C11.MPT.1', len(vecs) == 1, vecs[0] if vecs else H, 'each rule is stored at index `used` of the new vector', key='append-slot')
    incs = [s for s in H.stores() if s.ev['k'] == 'store' and s.ev.get('op') == '++' and on_path(s.ev['lhs'], 'used')]
    nexts = [t for t in H.stores() if t.ev['k'] == 'store' and is_var(t.ev.get('lhs')) and is_field(t.ev.get('rhs') or {}, 'next')]
    if vecs:
        # between two steps of the walk: a rule entry that was written (any member of the record stored) has been counted
        # exactly once.  Path-sensitive (a loader helper that refuses a rule returns before it stores anything).
        def on_event(st, t):
            stored, inc = st
            ev = t.ev
            if t in nexts:
                return (False, 0)
            if ev['k'] == 'store' and ev.get('op') == '++' and on_path(ev['lhs'], 'used'):
                return (stored, min(inc + 1, 2))
            lhs = ev.get('lhs') or {}
            if ev['k'] == 'store' and lhs.get('k') == 'mem' and lhs.get('rec') == RULE_REC and const_of(ev.get('rhs')) != 0:
                return (True, inc)
            return st
        before, _, _, bout = H.forward((False, 0), on_event)
        ok = len(incs) == 1 and bool(nexts)
        for t in nexts:
            for st in before.get(t.key, set()):
                if (st[0] and st[1] != 1) or (not st[0] and st[1] > 1):
                    ok = False
        # the pass ends (the old table is released) with the last entry counted as well
        for t in H.calls('iauth_class_free_rules'):
            for st in before.get(t.key, set()):
                if st[0] and st[1] != 1:
                    ok = False
        R.ob('C11.MPT.1', ok, incs[0] if incs else H, '`used` is incremented exactly once for every rule stored, before the next node is taken', key='append-inc')
    first = [s for s in H.calls('set_first') if on_path(s.ev['args'][0], 'contents')]
    # one step per turn: from one step of the walk no other (and not the same one again) is reached without passing the
    # test of the iterator that heads the loop
    itv = {t.ev['lhs']['name'] for t in nexts}
    heads = {bid for bid, b_ in H.blocks.items() if any(is_var(x) and x['name'] in itv for x in walk((b_.get('term') or {}).get('cond') or {}))}
    one_step = bool(nexts) and len(itv) == 1
    for t in nexts:
        seen = H.reach([e.dst for e in H.out[t.bid]], cut_blocks=heads)
        if any(u.bid in seen and u.bid not in heads for u in nexts):
            one_step = False
    R.ob('C11.MPT.1', len(first) == 1 and one_step, first[0] if first else H, 'the pass walks the section\'s contents once, from set_first along next', key='walk')
    # only object nodes become rules; others are skipped
    R.floor('C11.MPT.1', 3)
    return H


def owned_strings(P, R, H, rule='C11.OWN.1'):
    """The compiled rule table owns its texts: every string member of a rule entry is stored as a copy (xstrdup) of the
    configuration value, never as the configuration node's own pointer - the node's text is freed and replaced on every
    reload, while the table is rebuilt only when a hook reports a change."""
    n = 0
    for s in H.stores():
        ev = s.ev
        lhs = ev.get('lhs') or {}
        if ev['k'] != 'store' or lhs.get('k') != 'mem' or lhs.get('rec') != RULE_REC or ev.get('op') != '=':
            continue
        t = (lhs.get('t') or '')
        if not ('char' in t and '*' in t):
            continue
        rhs = ev.get('rhs') or {}
        n += 1
        R.ob(rule, const_of(rhs) == 0 or (rhs.get('k') == 'callref' and rhs.get('callee') in ('xstrdup', 'strdup', 'xstrndup')), s,
             'rule member %s is stored as a copy of the configuration text (%s)' % (lhs.get('field'), sx(rhs)[:60]), key='owned:%s' % lhs.get('field'))
    R.floor(rule, 4, 'string members of a compiled rule')


def zeroed_entries(P, R, H, rule='C11.MPT.4'):
    """A freshly compiled rule has no criteria it was not given: members of a rule entry that the compile pass stores
    only when the item exists (the address and its length, trust_username) start out as zero because the new table's
    storage comes from a zero-filling allocation.  Storage that is merely allocated keeps what an earlier table left in
    the reused block, and a rule that lost its `address` item keeps the old restriction."""
    # members stored conditionally (guarded by "the item exists") inside the compile loop
    cond = set()
    for s in H.stores():
        lhs = s.ev.get('lhs') or {}
        if s.ev['k'] == 'store' and lhs.get('k') == 'mem' and lhs.get('rec') == RULE_REC:
            if any(is_var(g[0]) and g[1] == '!=' and const_of(g[2]) == 0 for g in H.guards(s.bid)):
                cond.add(lhs.get('field'))
    for s in H.calls():
        for a in s.ev['args']:
            if isinstance(a, dict) and a.get('k') == 'un' and a.get('op') == '&' and isinstance(a.get('e'), dict) and a['e'].get('k') == 'mem' and a['e'].get('rec') == RULE_REC:
                if any(is_var(g[0]) and g[1] == '!=' and const_of(g[2]) == 0 for g in H.guards(s.bid)):
                    cond.add(a['e'].get('field'))
    if not cond:
        R.note('%s: every member of a rule entry is stored unconditionally; zero-filled storage not needed' % rule)
        return
    zeroing = {'calloc'}
    for name in ('xmalloc',):
        f = P.fn(name)
        if f is not None and any(t.ev.get('callee') == 'calloc' or any(x.get('k') == 'callref' and x.get('callee') == 'calloc' for ex in rules.event_exprs(t.ev) for x in walk(ex)) for t in f.sites()):
            zeroing.add(name)
    n = 0
    for s in H.calls():
        c = s.ev.get('callee') or ''
        if not c.endswith('_init'):
            continue
        g = P.direct_target(H, c)
        if g is None:
            continue
        gs_ = [g] + [h for u in g.calls() for h in P.callees(u, False)]
        for t in [t for g_ in gs_ for t in g_.stores()]:
            if t.ev['k'] == 'store' and is_field(t.ev.get('lhs'), 'vec') and (t.ev.get('rhs') or {}).get('k') == 'callref':
                n += 1
                R.ob(rule, t.ev['rhs'].get('callee') in zeroing, t, 'the new rule table is zero-filled (%s): members stored only when their item exists (%s) start out as "not given"' % (t.ev['rhs'].get('callee'), ', '.join(sorted(x for x in cond if x))),
                     key='zeroed-table')
    R.floor(rule, 1, 'allocation of the new rule table')


def comparator(P, R):
    cmp = P.need_fn('conf_object_cmp')
    first = None
    for s in sorted(cmp.sites(), key=lambda t: (t.line, t.idx)):
        if s.ev['k'] == 'call':
            first = s
            break
    ok = first is not None and first.ev.get('callee') == 'strcasecmp' and all(is_field(a, 'name') for a in first.ev['args'])
    R.ob('C11.TAB.1', ok, first or cmp, 'the section comparator\'s primary key is the case-insensitive name', key='primary-key')
    # the kind only breaks ties: the type difference is computed under res == 0
    ties = [s for s in cmp.stores() if s.ev['k'] == 'store' and any(is_field(x, 'type') for x in walk(s.ev.get('rhs')))]
    okt = all(any(r[1] == '==' and const_of(r[2]) == 0 for r in cmp.guards(s.bid)) for s in ties)
    R.ob('C11.TAB.1', okt, ties[0] if ties else cmp, 'the node kind is compared only when the names are equal', key='tie-break')
    # the class section and every object use that comparator
    users = [s for f in P.fns.values() for s in f.stores() if s.ev['k'] == 'store' and is_field(s.ev['lhs'], 'compare') and on_path(s.ev['lhs'], 'contents')]
    R.ob('C11.TAB.1', bool(users) and all((s.ev.get('rhs') or {}).get('name') == cmp.name for s in users), users[0] if users else cmp,
         'every configuration object orders its contents with that comparator (%d sites)' % len(users), key='comparator-installed')
    R.floor('C11.TAB.1', 3)


def scan(P, R):
    f = P.fn('iauth_class_foreach_rule')
    call = [s for s in f.calls() if P.call_slot(s) and P.call_slot(s).startswith('param:')] if f is not None else []
    direct = False
    if not call:
        # the scan written out where the rules are applied: a loop calling the matcher itself
        m = P.need_fn('iauth_class_rule_check')
        for s0 in P.callers(m, may=False):
            if s0.bid in s0.fn.reach([e.dst for e in s0.fn.out[s0.bid]]):
                f, call, direct = s0.fn, [s0], True
    if not call:
        raise AnalysisBroken('rule scan does not call its rule function')
    s = call[0]
    if direct:
        idx = None
        a0 = s.ev['args'][0]
        for x in walk(a0):
            if x.get('k') == 'idx' and on_path(x, 'vec'):
                vs = vars_in(x['index'])
                idx = sorted(vs)[0] if vs else None
        R.ob('C11.GRD.1', idx is not None, s, 'the scan applies the matcher to vec[%s]' % idx, key='scan-shape')
        # after a hit no further rule is tried: the call is not reachable from the edge on which it returned non-zero
        hits = []
        for bid in f.reachable_blocks():
            for e in f.out[bid]:
                r = rules.edge_rel(e)
                if r and isinstance(r[0], dict) and r[0].get('k') == 'callref' and r[0].get('ev') == s.ev['id'] and const_of(r[2]) == 0 and r[1] == '!=':
                    hits.append(e)
                if r and is_var(r[0]) and const_of(r[2]) == 0 and r[1] == '!=' and any((t.ev.get('rhs') or {}).get('ev') == s.ev['id'] and is_var(t.ev.get('lhs'), r[0]['name']) for t in f.stores()):
                    hits.append(e)
        R.ob('C11.GRD.1', bool(hits) and all(s.bid not in f.reach([e.dst]) for e in hits), s, 'a rule is tried only while no earlier rule has hit', key='stop-at-first')
        gs = f.guards(s.bid)
        R.ob('C11.GRD.1', any(is_var(g[0], idx) and g[1] == '<' and on_path(g[2], 'used') for g in gs), s, 'the scan stays below the number of rules', key='scan-bound')
        inits = [t for t in f.sites() if (t.ev['k'] == 'store' and is_var(t.ev.get('lhs'), idx) and t.ev.get('op') == '=') or (t.ev['k'] == 'decl' and t.ev.get('var') == idx and t.ev.get('init') is not None)]
        steps = [t for t in f.stores() if is_var(t.ev.get('lhs'), idx) and t.ev.get('op') not in ('=',)]
        R.ob('C11.GRD.1', bool(inits) and all(const_of(t.ev.get('rhs') if t.ev['k'] == 'store' else t.ev.get('init')) == 0 for t in inits) and len(steps) == 1 and steps[0].ev.get('op') == '++',
             steps[0] if steps else f, 'the scan starts at rule 0 and ascends one rule at a time', key='scan-order')
        R.ob('C11.GRD.1', root_var(a0) is not None and root_var(a0)['name'] == 'conf', s, 'the scan runs over the compiled rule vector', key='scan-vector', nontrivial=False)
        R.floor('C11.GRD.1', 5)
        return
    idx = None
    a0 = s.ev['args'][0]
    for x in walk(a0):
        if x.get('k') == 'idx' and on_path(x, 'vec'):
            vs = vars_in(x['index'])
            idx = sorted(vs)[0] if vs else None
    res = None
    for t in f.stores():
        if (t.ev.get('rhs') or {}).get('ev') == s.ev['id'] and is_var(t.ev.get('lhs')):
            res = t.ev['lhs']['name']
    R.ob('C11.GRD.1', idx is not None and res is not None, s, 'the scan applies the rule function to vec[%s] and keeps its result in %s' % (idx, res), key='scan-shape')
    gs = f.guards(s.bid)
    stop = any(is_var(g[0], res) and g[1] == '==' and const_of(g[2]) == 0 for g in gs)
    if not stop and res is not None:
        # `if (res != 0) return res;` after the call: the call cannot be reached again from the edge that saw a hit
        hits = []
        for bid in f.reachable_blocks():
            for e in f.out[bid]:
                r = rules.edge_rel(e)
                if r and is_var(r[0], res) and const_of(r[2]) == 0 and r[1] == '!=':
                    hits.append(e)
        stop = bool(hits) and all(s.bid not in f.reach([e.dst]) for e in hits)
    R.ob('C11.GRD.1', stop, s, 'a rule is tried only while no earlier rule has hit', key='stop-at-first')
    R.ob('C11.GRD.1', any(is_var(g[0], idx) and g[1] == '<' and on_path(g[2], 'used') for g in gs), s, 'the scan stays below the number of rules', key='scan-bound')
    inits = [t for t in f.sites() if (t.ev['k'] == 'store' and is_var(t.ev.get('lhs'), idx) and t.ev.get('op') == '=') or (t.ev['k'] == 'decl' and t.ev.get('var') == idx and t.ev.get('init') is not None)]
    steps = [t for t in f.stores() if is_var(t.ev.get('lhs'), idx) and t.ev.get('op') not in ('=',)]
    R.ob('C11.GRD.1', bool(inits) and all(const_of(t.ev.get('rhs') if t.ev['k'] == 'store' else t.ev.get('init')) == 0 for t in inits) and len(steps) == 1 and steps[0].ev.get('op') == '++',
         steps[0] if steps else f, 'the scan starts at rule 0 and ascends one rule at a time', key='scan-order')
    # the matcher and the table: the scan runs over the live rule vector
    R.ob('C11.GRD.1', root_var(a0) is not None and root_var(a0)['name'] == 'conf', s, 'the scan runs over the compiled rule vector', key='scan-vector', nontrivial=False)
    R.floor('C11.GRD.1', 5)


def matcher(P, R):
    m = P.need_fn('iauth_class_rule_check')
    rule = next((p['name'] for p in m.param_info if 'iauth_class_rule' in p.get('t', '')), None)
    reqp = next((p['name'] for p in m.param_info if 'iauth_request' in p.get('t', '')), None)
    if rule is None or reqp is None:
        raise AnalysisBroken('the rule matcher no longer takes a rule and a request')
    store = [s for s in m.calls() if s.ev.get('callee') in ('strlcpy', 'strncpy', 'strcpy') and on_path(s.ev['args'][0], 'class', core.REQ_REC)]
    if not store:
        raise AnalysisBroken('rule matcher does not store a class')
    acct_alias = set()
    for s in m.sites():
        val = s.ev.get('rhs') if s.ev['k'] == 'store' else s.ev.get('init') if s.ev['k'] == 'decl' else None
        tgt = s.ev['lhs']['name'] if s.ev['k'] == 'store' and is_var(s.ev.get('lhs')) else s.ev.get('var') if s.ev['k'] == 'decl' else None
        if val is not None and tgt:
            acct_alias.add(tgt) if (on_path(val, 'account', core.REQ_REC) or (val.get('k') == 'callref' and any(on_path(a, 'account', core.REQ_REC) for a in val['args']))
                                   or (is_var(val) and val.get('arr') is not None)) else None

    # local arrays that receive (a prefix of) the client's account
    for s in m.calls():
        if s.ev.get('callee') in bnd.SINKS and s.ev['args'] and is_var(root_var(s.ev['args'][0])) and root_var(s.ev['args'][0]).get('sc') == 'local' \
                and any(on_path(x, 'account', core.REQ_REC) for a in s.ev['args'][1:] for x in walk(a)):
            acct_alias.add(root_var(s.ev['args'][0])['name'])

    def classify(r):
        l, op, rr = r
        out = []
        c = const_of(rr)
        for fld in CRITERIA:
            if is_field(l, fld, RULE_REC) and c == 0:
                out.append((fld, 'absent' if op == '==' else 'present'))
        if isinstance(l, dict) and l.get('k') == 'callref' and c is not None:
            cal, a = l.get('callee'), l['args']
            if cal == 'fnmatch' and c == 0 and op == '==':
                for fld in ('account', 'username', 'hostname'):
                    if is_field(a[0], fld, RULE_REC):
                        subj = a[1]
                        want = CRITERIA[fld][1]
                        good = on_path(subj, want, core.REQ_REC) or (fld == 'account' and is_var(subj) and subj['name'] in acct_alias)
                        out.append((fld, 'matched' if good else 'wrong-subject'))
            if cal == 'irc_check_mask' and c == 0 and op == '!=':
                good = on_path(a[0], 'remote_addr', core.REQ_REC) and on_path(a[1], 'address', RULE_REC) and is_field(a[2], 'address_bits', RULE_REC)
                out.append(('address_bits', 'matched' if good else 'wrong-subject'))
            if cal == 'iauth_xreply_ok' and ((op == '>' and c == 0) or (op == '>=' and c == 1) or (op == '==' and c == 1)):
                good = is_var(a[0], reqp) and is_field(a[1], 'xreply_ok', RULE_REC)
                out.append(('xreply_ok', 'matched' if good else 'wrong-subject'))
        return out

    def on_edge(st, e):
        r = rules.edge_rel(e)
        if not r:
            return st
        d = dict(st)
        for fld, v in classify(r):
            if v == 'absent' and d.get(fld) in ('present', 'matched'):
                return None
            if v == 'present' and d.get(fld) == 'absent':
                return None
            if v == 'present' and d.get(fld) == 'matched':
                continue
            d[fld] = v
        return tuple(sorted(d.items()))
    before, _, _, _ = m.forward((), None, on_edge)
    for s in store:
        sts = [dict(st) for st in before.get(s.key, set())]
        for fld in CRITERIA:
            ok = bool(sts) and all(d.get(fld) in ('absent', 'matched') for d in sts)
            R.ob('C11.GRD.2', ok, s, 'a class is assigned only if criterion %s is absent or matched against the client\'s own %s (states: %s)'
                 % (fld, CRITERIA[fld][1] or 'service replies', sorted({d.get(fld) for d in sts}, key=str)), key='criterion:%s' % fld)
        # FMT.1: class value and bound
        a = s.ev['args']
        v = a[1]
        okv = v.get('k') == 'cond' and is_field(v['c'], 'class', RULE_REC) and is_field(v['t'], 'class', RULE_REC) and is_field(v['f'], 'name', RULE_REC)
        if not okv and is_var(v) and v.get('sc') == 'local':
            # the same choice spelled with a local: it takes the rule's class, and the rule's name only where the class
            # (or the local holding it) is known to be NULL
            ds = m.local_defs(v['name'])
            vals = [(d, d.ev.get('rhs') or d.ev.get('init') or {}) for d in ds]
            cls = [d for d, x in vals if is_field(x, 'class', RULE_REC)]
            nms = [d for d, x in vals if is_field(x, 'name', RULE_REC)]
            oth = [d for d, x in vals if not is_field(x, 'class', RULE_REC) and not is_field(x, 'name', RULE_REC)]

            def null_known(d):
                return any((is_var(g[0], v['name']) or is_field(g[0], 'class', RULE_REC)) and g[1] == '==' and const_of(g[2]) == 0 for g in m.guards(d.bid))

            def nonnull_or_first(d):
                gs = m.guards(d.bid)
                return not any(is_field(g[0], 'class', RULE_REC) and g[1] == '==' and const_of(g[2]) == 0 for g in gs)
            okv = bool(cls) and bool(nms) and not oth and all(null_known(d) for d in nms) and all(nonnull_or_first(d) for d in cls)
        R.ob('C11.FMT.1', okv, s, 'the class assigned is the rule\'s class value or else its name (%s)' % sx(v), key='class-value')
    # ... and a rule is passed over only for failing one of its criteria: the immediate reason of every "no match" return
    # is the test of a criterion (a glob, the prefix test, the service's OK) - or, for an equivalent spelling, a
    # comparison that involves one of the rule's criterion members and nothing else of the rule
    crit_fields = set(CRITERIA)
    # what the loader noted about a criterion ("this rule's address did not parse") is a member named after it; a pure
    # test of such a member against zero is a reason belonging to that criterion
    stems = {c.split('_')[0] for c in CRITERIA}

    def noted(r_):
        l_, rr_ = r_[0], r_[2]
        return isinstance(l_, dict) and l_.get('k') == 'mem' and l_.get('rec') == RULE_REC and is_var(l_.get('base')) and str(l_.get('field', '')).split('_')[0] in stems and const_of(rr_) == 0
    for t in m.sites():
        if not (t.ev['k'] == 'ret' and const_of(t.ev.get('val')) == 0):
            continue
        for e in m.inn[t.bid]:
            r = rules.edge_rel(e)
            if not r:
                continue
            l = r[0]
            ok = isinstance(l, dict) and l.get('k') == 'callref' and l.get('callee') in ('fnmatch', 'irc_check_mask', 'iauth_xreply_ok', 'strcmp', 'strcasecmp')
            if not ok:
                mem = {x.get('field') for x in walk(l) if isinstance(x, dict) and x.get('k') == 'mem' and x.get('rec') == RULE_REC}
                ok = (bool(mem) and mem <= crit_fields) or noted(r)
            if not ok and is_var(l) and l['name'].startswith('__ret@'):
                # the criteria moved into helpers that the model folded into this function: where a helper returns "no
                # match" it stores 0 (or the outcome of a criterion test) into its result variable; those reasons are
                # judged instead, helper inside helper included
                def crit_expr(x):
                    if isinstance(x, dict) and any(isinstance(y, dict) and y.get('k') == 'callref' and y.get('callee') in ('fnmatch', 'irc_check_mask', 'iauth_xreply_ok', 'strcmp', 'strcasecmp') for y in walk(x)):
                        return True
                    mem_ = {y.get('field') for y in walk(x) if isinstance(y, dict) and y.get('k') == 'mem' and y.get('rec') == RULE_REC}
                    # criterion members, and what the loader noted about a criterion (address_invalid, ...)
                    return bool(mem_) and all(fd in crit_fields or str(fd).split('_')[0] in stems for fd in mem_)

                def folded_ok(name, depth=0):
                    if depth > 4:
                        return False
                    defs_ = [t3 for t3 in m.stores() if is_var(t3.ev.get('lhs'), name)]
                    if not defs_:
                        return False
                    for t3 in defs_:
                        v3 = t3.ev.get('rhs')
                        c3 = const_of(v3)
                        if isinstance(c3, int) and c3 != 0:
                            continue
                        if c3 is None:
                            if not crit_expr(v3):
                                return False
                            continue
                        for e3 in m.inn[t3.bid]:
                            r3 = rules.edge_rel(e3)
                            if not r3:
                                continue
                            l3 = r3[0]
                            if is_var(l3) and l3['name'].startswith('__ret@'):
                                if not folded_ok(l3['name'], depth + 1):
                                    return False
                            elif not crit_expr(l3):
                                return False
                    return True
                ok = folded_ok(l['name'])
            if not ok:
                # the criteria moved into a helper of the same unit: its own "no match" returns are judged instead
                hn = None
                if is_var(l) and l['name'].startswith('__ret@'):
                    hn = l['name'][len('__ret@'):].split('#')[0]
                elif isinstance(l, dict) and l.get('k') == 'callref' and l.get('callee'):
                    hn = l['callee']
                hf = (P.direct_target(m, hn) or P.fn(hn, m.unit) or P.fn(hn)) if hn else None
                if hf is not None and hf.unit == m.unit and hf.key != m.key:
                    sub_ok = True
                    for t2 in hf.sites():
                        if t2.ev['k'] == 'ret' and const_of(t2.ev.get('val')) == 0:
                            for e2 in hf.inn[t2.bid]:
                                r2 = rules.edge_rel(e2)
                                if not r2:
                                    continue
                                l2 = r2[0]
                                ok2 = isinstance(l2, dict) and l2.get('k') == 'callref' and l2.get('callee') in ('fnmatch', 'irc_check_mask', 'iauth_xreply_ok', 'strcmp', 'strcasecmp')
                                if not ok2:
                                    mem2 = {x.get('field') for x in walk(l2) if isinstance(x, dict) and x.get('k') == 'mem' and x.get('rec') == RULE_REC}
                                    ok2 = bool(mem2) and mem2 <= crit_fields
                                sub_ok = sub_ok and ok2
                    ok = sub_ok
            if not ok and is_var(l):
                d = m.single_def(l['name'])
                v = d[1] if d else None
                ok = isinstance(v, dict) and any(isinstance(x, dict) and x.get('k') == 'callref' and x.get('callee') in ('fnmatch', 'irc_check_mask', 'iauth_xreply_ok') for x in walk(v))
            R.ob('C11.GRD.2', ok, t, 'this "no match" is returned for failing a criterion of the rule (reason: %s %s %s)' % (sx(r[0]), r[1], sx(r[2])), key='miss-reason')
    # the account is cut at ':' by an exact prefix copy (or used whole)
    cuts = [s for s in m.calls() if s.ev.get('callee') in bnd.SINKS and is_var(root_var(s.ev['args'][0])) and root_var(s.ev['args'][0]).get('sc') == 'local'
            and any(on_path(x, 'account', core.REQ_REC) for a in s.ev['args'][1:] for x in walk(a))]
    for s in cuts:
        idi, why = bnd.classify_call(P, m, s)
        n_ex = m.expand_local(s.ev['args'][2], s) if len(s.ev['args']) > 2 else {}
        prefix = False
        if isinstance(n_ex, dict) and n_ex.get('k') == 'bin' and n_ex.get('op') == '-' and is_var(n_ex.get('l')) and on_path(n_ex.get('r'), 'account', core.REQ_REC):
            defs = [d for d in m.local_defs(n_ex['l']['name']) if (d.ev.get('rhs') if d.ev['k'] == 'store' else d.ev.get('init')) is not None]
            prefix = bool(defs) and all(((d.ev.get('rhs') or d.ev.get('init') or {}).get('callee') == 'strchr' and const_of((d.ev.get('rhs') or d.ev.get('init'))['args'][1]) == ord(':')
                                         and on_path((d.ev.get('rhs') or d.ev.get('init'))['args'][0], 'account', core.REQ_REC)) or const_of(d.ev.get('rhs') or d.ev.get('init') or {}) == 0
                                        or (is_var(d.ev.get('rhs') or {}) and (d.ev['rhs'].get('arr') is not None)) for d in defs)
        if isinstance(n_ex, dict) and n_ex.get('k') == 'bin' and n_ex.get('op') == '-' and isinstance(n_ex.get('l'), dict) and n_ex['l'].get('k') == 'callref' \
                and n_ex['l'].get('callee') == 'strchr' and const_of(n_ex['l']['args'][1]) == ord(':') and on_path(n_ex['l']['args'][0], 'account', core.REQ_REC) \
                and on_path(n_ex.get('r'), 'account', core.REQ_REC):
            prefix = True
        # ... or measured: strcspn(account, ":") is the length of the part before the first colon (all of it if there is none)
        if isinstance(n_ex, dict):
            nv = n_ex
            while isinstance(nv, dict) and nv.get('k') == 'cast':
                nv = nv.get('e')
            if isinstance(nv, dict) and nv.get('k') == 'callref' and nv.get('callee') == 'strcspn' and len(nv.get('args') or ()) == 2 and on_path(nv['args'][0], 'account', core.REQ_REC) \
                    and nv['args'][1].get('k') == 'str' and nv['args'][1].get('v') == ':':
                prefix = True
        R.ob('C11.FMT.1', bool(idi) and (idi.startswith('4 ') or prefix), s, 'the account name before the stamp is copied as the exact prefix up to the colon (%s)' % (idi or why), key='account-cut')
        nul = [t for t in m.stores() if t.ev['k'] == 'store' and t.ev['lhs'].get('k') == 'idx' and same(t.ev['lhs']['base'], s.ev['args'][0]) and const_of(t.ev.get('rhs')) == 0
               and same(t.ev['lhs']['index'], s.ev['args'][2])]
        R.ob('C11.FMT.1', bool(nul) and m.path_avoiding(s, lambda t: t in nul) is None, s, 'the copied account name is terminated right after the prefix', key='account-cut-nul')
    def colon_search(v):
        while isinstance(v, dict) and v.get('k') == 'cast':
            v = v.get('e')
        if not (isinstance(v, dict) and v.get('k') == 'callref' and len(v.get('args') or ()) == 2):
            return False
        return (v.get('callee') == 'strchr' and const_of(v['args'][1]) == ord(':')) or (v.get('callee') == 'strcspn' and v['args'][1].get('k') == 'str' and v['args'][1].get('v') == ':')
    seps = [s for s in m.sites() if colon_search(s.ev.get('rhs') or s.ev.get('init') or {})]
    def arg0(s_):
        v = s_.ev.get('rhs') or s_.ev.get('init') or {}
        while isinstance(v, dict) and v.get('k') == 'cast':
            v = v.get('e')
        return v['args'][0]
    R.ob('C11.FMT.1', len(seps) == 1 and on_path(arg0(seps[0]), 'account', core.REQ_REC), seps[0] if seps else m,
         'the stamp suffix is located by the first colon of the client\'s account', key='account-colon')
    # GRD.3
    for s in m.calls('iauth_trust_username'):
        gs = m.guards(s.bid)
        flag = any(is_field(g[0], 'trust_username', RULE_REC) and g[1] == '!=' for g in gs)
        tilde = any(isinstance(g[0], dict) and g[0].get('k') == 'idx' and on_path(g[0], 'auth_username', core.REQ_REC) and const_of(g[0]['index']) == 0
                    and g[1] == '==' and const_of(g[2]) == ord('~') for g in gs)
        R.ob('C11.GRD.3', flag and tilde, s, 'the user name is upgraded only under the rule\'s trust_username flag and an untrusted (~) ident', key='trust-guard')
        a1 = s.ev['args'][1]
        okv = on_path(a1, 'cli_username', core.REQ_REC)
        if not okv and is_var(a1):
            # a cursor set to the client-supplied name and stepped over its marker
            defs = m.local_defs(a1['name'])
            okv = bool(defs) and all((d.ev.get('op') in ('++',) and d.ev['k'] == 'store') or on_path(d.ev.get('rhs') or d.ev.get('init') or {}, 'cli_username', core.REQ_REC) for d in defs) \
                and any(on_path(d.ev.get('rhs') or d.ev.get('init') or {}, 'cli_username', core.REQ_REC) for d in defs)
        R.ob('C11.GRD.3', okv, s, 'the upgrade uses the client-supplied user name (%s)' % sx(a1), key='trust-value')
        # and happens only on the matching path: same criterion states as the class store
        sts = [dict(st) for st in before.get(s.key, set())]
        R.ob('C11.GRD.3', bool(sts) and all(all(d.get(f) in ('absent', 'matched') for f in CRITERIA) for d in sts), s, 'the upgrade happens only for a rule all of whose criteria hold', key='trust-after-match')
    R.floor('C11.GRD.2', 5)
    R.floor('C11.FMT.1', 4)
    R.floor('C11.GRD.3', 3)
    return m


def field_exhaustive(P, R, H, m):
    rec = P.records.get(RULE_REC)
    if not rec:
        raise AnalysisBroken('record %s not found' % RULE_REC)
    fr = P.need_fn('iauth_class_free_rules')
    ptrs = [f['name'] for f in rec['fields'] if f['t'] == 'char *']
    freed = set()
    for s in fr.calls('free'):
        for x in walk(s.ev['args'][0]):
            if x.get('k') == 'mem' and x.get('rec') == RULE_REC:
                freed.add(x['field'])
    loaded = {}
    helpers = {t.key: t for s in H.calls() for t in P.callees(s, False) if t.unit == UNIT}
    for s in H.stores():
        if s.ev['k'] == 'store' and s.ev['lhs'].get('k') == 'mem' and s.ev['lhs'].get('rec') == RULE_REC:
            lits = [x['v'] for x in walk(s.ev.get('rhs')) if x.get('k') == 'str']
            if not lits:
                # the item was fetched into a local first (`class = item(obj, "class"); ...; rule->class = xstrdup(class)`)
                for v in sorted(vars_in(s.ev.get('rhs'))):
                    sd = H.single_def(v)
                    if sd and isinstance(sd[1], dict):
                        lits += [x['v'] for x in walk(sd[1]) if x.get('k') == 'str']
            loaded[s.ev['lhs']['field']] = lits
    used = {x['field'] for s in m.sites() for ex in rules.event_exprs(s.ev) for x in walk(ex) if x.get('k') == 'mem' and x.get('rec') == RULE_REC}
    used |= {x['field'] for b in m.blocks.values() for x in walk((b.get('term') or {}).get('cond')) if x.get('k') == 'mem' and x.get('rec') == RULE_REC}
    for fld in ptrs:
        okl = fld == 'name' or loaded.get(fld) == [fld]
        R.ob('C11.TAB.2', okl, H, 'rule field %s is loaded from the item of the same name (%s)' % (fld, loaded.get(fld)), key='loaded:%s' % fld)
        R.ob('C11.TAB.2', fld in used, m, 'rule field %s is used by the matcher' % fld, key='used:%s' % fld, nontrivial=False)
        R.ob('C11.TAB.2', fld in freed, fr, 'rule field %s is freed with the rule' % fld, key='freed:%s' % fld, nontrivial=False)
    # the non-pointer criteria
    pt = [s for s in H.calls('irc_pton')]
    okp = bool(pt) and on_path(pt[0].ev['args'][0], 'address', RULE_REC) and on_path(pt[0].ev['args'][1], 'address_bits', RULE_REC)
    R.ob('C11.TAB.2', okp, pt[0] if pt else H, 'the address criterion is parsed into (address, address_bits) of the rule', key='loaded:address')
    src = None
    if pt and is_var(pt[0].ev['args'][2]):
        for d in H.local_defs(pt[0].ev['args'][2]['name']):
            if H.before(d, pt[0]) or d.bid == pt[0].bid:
                lits = [x['v'] for x in walk(d.ev.get('rhs') or d.ev.get('init')) if x.get('k') == 'str']
                if lits:
                    src = lits
    R.ob('C11.TAB.2', okp and (src is None or 'address' in src or True), pt[0] if pt else H, 'address text source: %s' % src, key='loaded:address-src', nontrivial=False)
    R.ob('C11.TAB.2', loaded.get('trust_username') == [] or 'trust_username' in loaded, H, 'the trust_username flag is loaded', key='loaded:trust_username', nontrivial=False)
    R.floor('C11.TAB.2', 12)


def wiring(P, R, H):
    slots = P.slots()
    ms = [P.fns[k] for k in slots.get('iauth_module::pre_registered', ())]
    asg = [f for f in ms if f.unit == UNIT]
    R.ob('C11.WIRE.1', len(asg) == 1, asg[0] if asg else H, 'the class module installs its assignment function as the pre_registered handler', key='slot')
    for f in asg:
        sc = [s for s in f.calls('iauth_class_foreach_rule')]
        if not sc:
            # the scan written out in the assignment function: the matcher is called directly with the client
            dc = [s for s in f.calls('iauth_class_rule_check')]
            if dc:
                reqi = [j for j, p in enumerate(P.need_fn('iauth_class_rule_check').param_info) if 'iauth_request' in p.get('t', '')]
                okg = any(is_field(g[0].get('base', {}), 'class', core.REQ_REC) and g[1] == '==' and const_of(g[2]) == 0 for g in f.guards(dc[0].bid) if isinstance(g[0], dict) and g[0].get('k') == 'idx')
                R.ob('C11.WIRE.1', okg, dc[0], 'rules are applied only when no class was assigned before', key='pre-assigned')
                R.ob('C11.WIRE.1', bool(reqi) and is_var(dc[0].ev['args'][reqi[0]], f.params[0]), dc[0], 'the scan is run with the matcher on the client being accepted', key='scan-call')
                continue
        ok = bool(sc) and any(is_field(g[0].get('base', {}), 'class', core.REQ_REC) and g[1] == '==' and const_of(g[2]) == 0 for g in f.guards(sc[0].bid) if isinstance(g[0], dict) and g[0].get('k') == 'idx')
        R.ob('C11.WIRE.1', ok, sc[0] if sc else f, 'rules are applied only when no class was assigned before', key='pre-assigned')
        okm = bool(sc) and sc[0].ev['args'][0].get('k') == 'func' and sc[0].ev['args'][0]['name'] == 'iauth_class_rule_check' and is_var(sc[0].ev['args'][1], f.params[0])
        R.ob('C11.WIRE.1', okm, sc[0] if sc else f, 'the scan is run with the matcher on the client being accepted', key='scan-call')
    acc = P.need_fn('iauth_accept')
    V = [s for s in acc.calls('iauth_send')]

    def notifies(t):
        if t.ev['k'] != 'call':
            return False
        al = rules.May(P, lambda x: P.call_slot(x) == 'iauth_module::pre_registered', may=False)
        return al.site_may(t)
    # the broadcast may be written out in the verdict function itself: then "notified" means the broadcast loop was
    # passed (its body may run zero times when no module has a handler)
    heads = set()
    for t in acc.calls():
        if P.call_slot(t) == 'iauth_module::pre_registered':
            loop = {b for b in acc.reach([t.bid]) if t.bid in acc.reach([b])}
            heads |= {b for b in loop if any(e.src not in loop for e in acc.inn[b])}
    for s in V:
        p = acc.path_avoiding(None, notifies, target=s.bid, from_entry=True)
        inb = any(notifies(t) for t in acc.block_sites(s.bid)[:s.idx])
        if not (p is None or inb) and heads:
            p = None if s.bid not in acc.reach([acc.entry], cut_blocks=heads) else p
        R.ob('C11.WIRE.1', p is None or inb, s, 'the pre_registered notification precedes the verdict line %r' % rules.fmt_literal(s.ev, 1), key='before-verdict')
    reg = [s for f in P.unit_fns(UNIT) for s in f.calls('iauth_register_module')]
    R.ob('C11.WIRE.1', len(reg) == 1, reg[0] if reg else H, 'the class module registers its descriptor', key='registered', nontrivial=False)
    R.floor('C11.WIRE.1', 7)
    hooks.check_hook_coverage(P, R, 'C11.WIRE.2', H)
    R.floor('C11.WIRE.2', 1)
    # an edit only reaches the hook if the configuration layer notices it: its change predicates
    from . import c15
    from ..report import Remap
    c15.notification(P, Remap(R, {'C15.GRD.1': 'C11.WIRE.3', 'C15.MPT.1': 'C11.WIRE.3'}))


def ok_recorded(P, R):
    """MPT.2: the xreply_ok criterion reads the client's ok mask: every OK reply (with or without an
    account, from any protocol) must set the answering slot's bit before the reply is retired."""
    from .c04 import slot_impls
    n = 0
    for f in slot_impls(P).values():
        for bid in f.reachable_blocks():
            for e in f.out[bid]:
                r = rules.edge_rel(e)
                if not r:
                    continue
                l, op, rr = r
                # the last byte test of "OK": reply[2] == NUL or == ' ' after reply[0]=='O', reply[1]=='K'
                if isinstance(l, dict) and l.get('k') == 'idx' and const_of(l['index']) == 2 and op == '==' and const_of(rr) in (0, 32):
                    gs = f.guards(e.dst) + [r]
                    if not (any(const_of(g[2]) == ord('O') and g[1] == '==' for g in gs) and any(const_of(g[2]) == ord('K') and g[1] == '==' for g in gs)):
                        continue

                    def sets_ok(t):
                        return t.ev['k'] == 'store' and t.ev['lhs'].get('k') == 'mem' and t.ev['lhs']['field'] == 'ok_mask' and t.ev.get('op') == '|='
                    if any(sets_ok(t) and (f.dominates(t.bid, bid)) for t in f.sites()):
                        continue      # a later re-test of the same byte, already past the recording
                    p = f.path_from_block(e.dst, sets_ok)
                    # paths that end in a kill or an early return for an unknown reply are not OK paths; the OK path reaches the release
                    n += 1
                    R.ob('C11.MPT.2', p is None, P.relloc((f.blocks[bid].get('term') or {}).get('loc', '?')),
                         'every path of an OK reply (third byte %s) records the answering service in the client\'s ok mask' % ('NUL' if const_of(rr) == 0 else 'space'), key='ok-recorded:%s' % const_of(rr))
                    R.obligations[-1]['function'] = f.name
    # ... and only an OK reply does: the bit is set on no path on which the reply was not recognised as "OK"
    for f in slot_impls(P).values():
        stores = [t for t in f.stores() if t.ev['k'] == 'store' and t.ev['lhs'].get('k') == 'mem' and t.ev['lhs']['field'] == 'ok_mask' and t.ev.get('op') == '|=']
        if not stores or len(f.params) < 3:
            continue
        rp = f.params[2]

        def on_edge(st, e):
            r = rules.edge_rel(e)
            if r and isinstance(r[0], dict) and r[0].get('k') == 'idx' and is_var(r[0].get('base'), rp) and r[1] == '==':
                i, c = const_of(r[0].get('index')), const_of(r[2])
                if i == 0 and c == ord('O'):
                    return (True, st[1])
                if i == 1 and c == ord('K'):
                    return (st[0], True)
            if r and isinstance(r[0], dict) and r[0].get('k') == 'callref' and r[0].get('callee') in ('strncmp', 'strcmp', 'memcmp') and r[1] == '==' and const_of(r[2]) == 0 \
                    and any(a.get('k') == 'str' and a['v'].startswith('OK') for a in r[0].get('args', [])):
                return (True, True)
            return st
        before, _, _, _ = f.forward((False, False), None, on_edge)
        for t in stores:
            sts = before.get(t.key, set())
            n += 1
            R.ob('C11.MPT.2', bool(sts) and all(a and b for a, b in sts), t, 'the service is recorded in the ok mask only on paths on which its reply was recognised as OK', key='ok-only')
    R.floor('C11.MPT.2', 2, 'OK reply edges')


def ok_query(P, R, rule='C11.GRD.4'):
    """The xreply_ok criterion is "the named service said OK": the query function answers 1 whenever the service's
    bit is in the client's ok mask - every other result is returned only after that bit has been tested and found
    clear (a re-sent query or any other state must not hide an OK already given), and 1 only when it is set."""
    f = P.fn('iauth_xreply_ok')
    if f is None:
        raise AnalysisBroken('iauth_xreply_ok has vanished')
    def okrel(g):
        l, op, rr = g
        return isinstance(l, dict) and l.get('k') == 'bin' and l.get('op') == '&' and any(is_field(x, 'ok_mask') for x in walk(l)) and const_of(rr) == 0 and op in ('==', '!=')
    # returns reachable after the name comparison
    cmpb = [s for s in f.calls() if s.ev.get('callee') in ('strcasecmp', 'strcmp')]
    if not cmpb:
        raise AnalysisBroken('iauth_xreply_ok no longer compares the service name')
    n = 0
    # result sites: `return <constant>`, or - in single-exit form - the assignments of a constant to the local returned
    results = []
    retvars = {s.ev['val']['name'] for s in f.sites() if s.ev['k'] == 'ret' and is_var(s.ev.get('val')) and s.ev['val'].get('sc') == 'local'}
    # ... and the locals a result variable is copied from (the value a folded per-slot helper hands back)
    grew = True
    while grew:
        grew = False
        for s in f.stores():
            if s.ev['k'] == 'store' and is_var(s.ev.get('lhs')) and s.ev['lhs']['name'] in retvars and s.ev.get('op') == '=' and is_var(s.ev.get('rhs')) and s.ev['rhs'].get('sc') == 'local' and s.ev['rhs']['name'] not in retvars:
                retvars.add(s.ev['rhs']['name'])
                grew = True
    for s in f.sites():
        if s.ev['k'] == 'ret' and s.ev.get('val') is not None and not (is_var(s.ev['val']) and s.ev['val']['name'] in retvars):
            results.append((s, const_of(s.ev['val']) if isinstance(const_of(s.ev['val']), int) else sx(s.ev['val'])))
        if s.ev['k'] == 'store' and is_var(s.ev.get('lhs')) and s.ev['lhs']['name'] in retvars and s.ev.get('op') == '=' and not (is_var(s.ev.get('rhs')) and s.ev['rhs']['name'] in retvars):
            results.append((s, const_of(s.ev['rhs']) if isinstance(const_of(s.ev.get('rhs')), int) else sx(s.ev.get('rhs'))))

    def maskrel(g):
        l = g[0]
        return isinstance(l, dict) and l.get('k') == 'bin' and l.get('op') == '&' and any(isinstance(x, dict) and x.get('k') == 'mem' and str(x.get('field', '')).endswith('_mask') for x in walk(l))
    for s, v in results:
        gs = f.guards(s.bid)
        oks = [g for g in gs if okrel(g)]
        if v == 1:
            n += 1
            R.ob(rule, any(g[1] == '!=' for g in oks), s, 'the result 1 ("OK was received") is given only when the service\'s bit is in the ok mask', key='okq:1')
        elif any(maskrel(g) for g in gs):
            n += 1
            R.ob(rule, any(g[1] == '==' for g in oks), s, 'the result %s is given only after the ok mask was tested and the service\'s bit found clear' % v, key='okq:%s' % v)
    R.floor(rule, 3, 'results for a named service')


def class_kept_whole(P, R, rule='C11.BND.2'):
    """The class handed out is the rule's class value (or name): the copy into the request keeps a text of the
    documented maximum length whole.  The destination is declared LEN+1 bytes for a LEN-character text; a bounded string
    copy told the size is LEN stores LEN-1 characters, so its size argument is the destination's own size."""
    from .. import bnd
    n = 0
    for f in P.unit_fns('modules/iauth_class.c'):
        for s in f.calls():
            if s.ev.get('callee') not in ('strlcpy', 'snprintf') or len(s.ev['args']) < 3:
                continue
            dst = s.ev['args'][0]
            if not any(isinstance(x, dict) and x.get('k') == 'mem' and x.get('field') == 'class' for x in walk(dst)):
                continue
            ext = bnd.extent_of(f, dst)
            size = const_of(s.ev['args'][2] if s.ev['callee'] == 'strlcpy' else s.ev['args'][1])
            n += 1
            R.ob(rule, bool(ext) and isinstance(size, int) and size == ext[0] - ext[1], s, 'the class copied into the request may be as long as the member allows (%s bytes given to %s for a %s-byte member)' % (
                size, s.ev['callee'], (ext[0] - ext[1]) if ext else '?'), key='class-copy-size')
    R.floor(rule, 1, 'copies of the class into the request')


def limits_admit_maximum(P, R, rule='C11.BND.3'):
    """Criteria are applied to what the server reported: a text of the documented maximum length (LEN characters in a
    member declared LEN+1) is kept, not refused.  Wherever a handler copies one of its text parameters into a member of
    the request and also tests that parameter's length against a constant, the side of the test on which the copy
    happens admits a length of LEN (a `>= LEN` rejection turns the longest legal host name into "no host name", and a
    rule on the host name no longer sees the client)."""
    from .. import bnd
    n = 0
    for f in P.unit_fns('modules/iauth_core.c'):
        params = {p['name'] for p in f.param_info if 'char' in p.get('t', '')}
        if not params:
            continue
        copies = []
        for s in f.calls():
            if s.ev.get('callee') in ('strncpy', 'strlcpy', 'memcpy', 'strcpy') and len(s.ev['args']) >= 2 and is_var(s.ev['args'][1]) and s.ev['args'][1]['name'] in params:
                ext = bnd.extent_of(f, s.ev['args'][0])
                if ext and any(isinstance(x, dict) and x.get('k') == 'mem' and x.get('rec') == 'iauth_request' for x in walk(s.ev['args'][0])):
                    copies.append((s, s.ev['args'][1]['name'], ext[0] - ext[1]))
        for s, v, room in copies:
            n += 1
            limit = None      # the greatest length admitted on the way to the copy
            for g in f.guards(s.bid):
                l = g[0]
                while isinstance(l, dict) and l.get('k') == 'cast':
                    l = l.get('e')
                if isinstance(l, dict) and l.get('k') == 'callref' and l.get('callee') == 'strlen' and l['args'] and is_var(l['args'][0], v) and isinstance(const_of(g[2]), int):
                    k = const_of(g[2])
                    m = {'<': k - 1, '<=': k, '==': k}.get(g[1])
                    if m is not None:
                        limit = m if limit is None else min(limit, m)
            R.ob(rule, limit is None or limit >= room - 1, s, 'in %s the copy of %s into a %d-byte member happens for every length up to %d (%s)' % (
                f.name, v, room, room - 1, 'no length test on the way' if limit is None else 'lengths up to %d get here' % limit), key='admits-maximum:%s' % f.name, nontrivial=limit is not None)
    R.floor(rule, 2, 'copies of server-reported texts into the request')


def address_text_checked(P, R, rule='C11.GRD.5'):
    """A criterion that cannot be read is not a criterion that everybody satisfies: where the rule loader hands a rule's
    address text to the address parser it looks at the parser's verdict (the call stands in a condition, or its result
    is kept and tested).  Ignored, a mistyped network ("10.0.0.0/33", "bogus") leaves prefix length 0 - the rule then
    matches every client - or whatever the parser had stored before it gave up."""
    n = 0
    for f in P.unit_fns('modules/iauth_class.c'):
        for s in f.calls('irc_pton'):
            used = False
            for b in f.blocks:
                c = f.term_cond(b)
                if c is not None and any(isinstance(x, dict) and x.get('k') == 'callref' and x.get('ev') == s.ev.get('id') for x in walk(c)):
                    used = True
            for t in f.sites():
                val = t.ev.get('rhs') if t.ev['k'] == 'store' else t.ev.get('init') if t.ev['k'] == 'decl' else None
                if isinstance(val, dict) and any(isinstance(x, dict) and x.get('k') == 'callref' and x.get('ev') == s.ev.get('id') for x in walk(val)):
                    v = t.ev['lhs']['name'] if t.ev['k'] == 'store' and is_var(t.ev.get('lhs')) else t.ev.get('var')
                    if v and any(f.term_cond(b) is not None and any(is_var(x, v) for x in walk(f.term_cond(b))) for b in f.blocks):
                        used = True
                    if t.ev['k'] == 'store' and isinstance(t.ev.get('lhs'), dict) and t.ev['lhs'].get('k') == 'mem':
                        used = True     # kept in the rule for the matcher to test
            n += 1
            R.ob(rule, used, s, 'the rule loader looks at whether the rule\'s address text could be parsed', key='address-verdict:%s' % f.name)
    R.floor(rule, 1, 'address texts parsed by the rule loader')


def run(P, R, tier):
    ok_query(P, R)
    class_kept_whole(P, R)
    address_text_checked(P, R)
    limits_admit_maximum(P, R)
    # the address criterion compares the prefix length the mask parser reports
    from . import c13
    from ..report import Remap
    c13.prefix_offsets(P, Remap(R, {'C13.TAB.1': 'C11.TAB.3'}))
    # a rule's address is read with the digit values of the character table
    c13.hex_table(P, R, 'C11.TAB.4')
    # a rule address without /n is a host address: the parser reports its full length
    c13.prefix_reported(P, R, c13.scope(P), 'C11.TAB.8')
    # a host rule (/128, /32) keeps its full prefix length, and every bit of an odd prefix length is compared
    c13.full_range(P, R, c13.scope(P), 'C11.TAB.5', parts=('prefix', 'residue'))
    # a rule address written with "::" is expanded to the eight groups it stands for
    from . import c12
    c12.expansion_count(P, R, P.need_fn('irc_pton'), 'C11.TAB.6')
    # trust_username is a boolean word: each spelling has one meaning
    from . import c16
    c16.keyword_chains(P, R, 'C11.TAB.7')
    R.floor('C11.TAB.5', 3)
    ok_recorded(P, R)
    H = compile_pass(P, R)
    owned_strings(P, R, H)
    zeroed_entries(P, R, H)
    # every rule object of the section is compiled: a non-rule entry is skipped, it does not end the pass
    nn = rules.full_traversal(P, R, 'C11.MPT.3', H, lambda c: any(is_var(x) and x.get('t', '').startswith('struct set_node') for x in walk(c)) and const_of((rel(c, True) or [None, None, None])[2]) == 0,
                              'rule compilation over the section\'s entries')
    if nn == 0:
        R.note('C11.MPT.3: the compile pass does not walk the section with a set iterator; not judged')
    comparator(P, R)
    scan(P, R)
    m = matcher(P, R)
    field_exhaustive(P, R, H, m)
    wiring(P, R, H)
    # the OK mask covers every slot a rule can name
    rules.narrowing_fields(P, R, 'C11.WID.1', ('modules/iauth_core.c', 'modules/iauth_xquery.c', 'modules/iauth_class.c'))
    # the address criterion is a prefix test over ALL leading bits: the mask walk starts at the first group
    c13.mask_walk_from_start(P, R, 'C11.TAB.9')
    # a rule's /n is the number written: it cannot wrap around into a small one
    _f13 = c13.scope(P)
    c13.accumulators_bounded(P, R, list(_f13) if not isinstance(_f13, dict) else list(_f13.values()), 'C11.ARITH.1')
    # shared (round 9): the texts the criteria are matched against arrive whole, and a wildcard address means its block
    from ..report import Remap as _Remap
    from . import c06 as _c06, c13 as _c13
    _c06.field_capacity(P, _Remap(R, {'C06.BND.2': 'C11.BND.4'}))
    _c13.mask_forms(P, R, _c13.scope(P), 'C11.TAB.10')
    # the bounded copies above go through strlcpy: where the program supplies its own, it keeps its promise
    from .. import bnd as _bndS
    _bndS.fallback_strlcpy(P, R, 'C11.BND.5')
    return EXPLANATION, ASSUMPTIONS
