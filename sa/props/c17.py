"""C17 - a reload reaches the decision modules.

Decided: each caching module's section hook is installed, rebuilds completely, and is reachable
from every node whose value it reads; every path through the service-slot insertion configures
the service and adopts the configured protocol; SIGUSR1 wiring; hook delivery in the merge
(membership changes mark the object modified, the was-present test reads the old bit).  Not
decided: the values of the rebuilt caches."""
from ..facts import AnalysisBroken
from ..model import sx, walk, is_var, is_field, const_of, vars_in, root_var, same, on_path
from .. import rules, hooks
from .c15 import removal_guard

EXPLANATION = (
    'Rules: (WIRE.1) each caching module (iauth_xquery, iauth_class) registers its section object, stores '
    'its rebuild function into the section root\'s hook and calls it once, in its constructor; SIGUSR1 is '
    'bound to a callback that calls conf_read on the configured file name; (MPT.1) cache-hook coverage: '
    'inside a section hook and the unit functions it calls, every configuration node whose value is read '
    'carries, on every path to the read, a hook that reaches the rebuild; (MPT.2) in the service-slot '
    'insertion every path that stores a service into the table (fresh slot, reused slot or existing entry) '
    'reaches the assignment of its configured flag, and on the matched-protocol edge every path assigns the '
    'service\'s type; (MPT.3) rebuild completeness: the service hook clears `configured` on every slot before '
    're-adding and sweeps unreferenced services afterwards; the class hook builds a fresh vector, frees the '
    'old rules and adopts the new ones on every path; (GRD.1) in the merge the object hook depends only on '
    'the modified flag, which every splice and removal sets, and the dropped-section branch reads the old '
    'present bit.  The values of the caches are not decided.'
    " Hunt round 1: (GRD.4) no path leaves the exported service lookup having matched an entry's name without having found the entry configured.")
ASSUMPTIONS = ['clang 14 CFG', 'a node that already has a hook got it from the same section code on an earlier pass']

XQ = 'modules/iauth_xquery.c'
CL = 'modules/iauth_class.c'


def wiring(P, R):
    out = {}
    for unit, sect in ((XQ, 'iauth_xquery'), (CL, None)):
        ctor = P.need_fn('module_constructor', unit)
        reg = [s for s in ctor.stores() if (s.ev.get('rhs') or {}).get('callee') == 'conf_register_object']
        R.ob('C17.WIRE.1', len(reg) == 1, reg[0] if reg else ctor, '%s registers its configuration section' % unit, key='register:%s' % unit)
        hs = [(s, t) for (s, t) in hooks.section_hooks(P, unit) if s.fn is ctor]
        R.ob('C17.WIRE.1', len(hs) == 1 and on_path(hs[0][0].ev['lhs'], 'root'), hs[0][0] if hs else ctor, '%s installs its rebuild function as the section root\'s hook' % unit, key='hook-installed:%s' % unit)
        if hs:
            s, H = hs[0]
            calls = [t for t in ctor.calls() if H in P.callees(t, False)]
            okc = bool(calls) and ctor.before(s, calls[0]) and ctor.path_avoiding(s, lambda t: t in calls) is None
            R.ob('C17.WIRE.1', okc, calls[0] if calls else ctor, 'the constructor runs the rebuild once after installing the hook (initial cache)', key='initial-build:%s' % unit)
            out[unit] = H
    # SIGUSR1
    main = P.need_fn('main')
    ev = [s for s in main.calls('event_new') if len(s.ev['args']) >= 4 and s.ev['args'][1].get('k') in ('int', 'enum') and const_of(s.ev['args'][1]) == 10]
    R.ob('C17.WIRE.1', len(ev) == 1 and ev[0].ev['args'][3].get('k') == 'func', ev[0] if ev else main, 'SIGUSR1 is bound to a callback', key='sigusr1-event')
    if ev:
        # "every reload": the handler stays installed after it has run once (libevent removes a non-persistent event)
        fl = const_of(ev[0].ev['args'][2])
        persist = P.macro_value('EV_PERSIST') if hasattr(P, 'macro_value') else None
        persist = persist if isinstance(persist, int) else 0x10
        R.ob('C17.WIRE.1', isinstance(fl, int) and bool(fl & persist), ev[0], 'the SIGUSR1 event is persistent (flags %s include EV_PERSIST)' % (hex(fl) if isinstance(fl, int) else sx(ev[0].ev['args'][2])), key='sigusr1-persist')
        cb = P.direct_target(main, ev[0].ev['args'][3]['name'])
        cr = [s for s in cb.calls('conf_read')] if cb else []
        # "the configured file": the static object (a variable, or a member of a static settings record) whose value the
        # start-up load in main was given too
        first = [t for t in main.calls('conf_read')]
        a0 = cr[0].ev['args'][0] if cr else None
        named = isinstance(a0, dict) and a0.get('k') in ('var', 'mem') and (root_var(a0) is not None and root_var(a0).get('sc') not in ('local', 'param')) and bool(first) and sx(first[0].ev['args'][0]) == sx(a0)
        okr = bool(cr) and named and cb.path_avoiding(None, lambda t: t in cr, from_entry=True) is None
        R.ob('C17.WIRE.1', okr, cr[0] if cr else (cb or main), 'the SIGUSR1 callback re-reads the configured file on every path', key='sigusr1-reload')
        # "the configured file": the name is the one the command line gave - an option handler stores its own argument -
        # and nothing rewrites it afterwards (a name resolved once at start-up follows a symbolic link's OLD target)
        if cr and isinstance(cr[0].ev['args'][0], dict) and cr[0].ev['args'][0].get('k') in ('var', 'mem'):
            nm = sx(cr[0].ev['args'][0])
            for f2 in P.unit_fns(main.unit):
                for t in f2.stores():
                    if t.ev['k'] == 'store' and isinstance(t.ev.get('lhs'), dict) and t.ev['lhs'].get('k') in ('var', 'mem') and sx(t.ev['lhs']) == nm:
                        rhs = t.ev.get('rhs')
                        okw = is_var(rhs) and rhs['name'] in f2.params
                        R.ob('C17.WIRE.1', okw, t, 'the name of the file to re-read is only ever set from a handler\'s own argument (%s = %s in %s)' % (nm, sx(rhs), f2.name), key='config-name-writer')
        st = [t for t in main.stores() if (t.ev.get('rhs') or {}).get('ev') == ev[0].ev['id']]
        added = [t for t in main.calls('event_add') if st and is_var(t.ev['args'][0], st[0].ev['lhs']['name'])]
        R.ob('C17.WIRE.1', bool(added), added[0] if added else ev[0], 'the SIGUSR1 event is armed', key='sigusr1-armed', nontrivial=False)
    R.floor('C17.WIRE.1', 8)
    return out


def coverage(P, R, H):
    n = 0
    for unit, h in H.items():
        n += hooks.check_hook_coverage(P, R, 'C17.MPT.1', h)
    R.floor('C17.MPT.1', 2, 'value reads inside section hooks')


def hooked_plain_lookup(s):
    """The one registration that behaves like a lookup: a string with NO default whose node is given a hook on every
    path before the function returns.  Its value is NULL while the file does not mention it, and since a string that
    loses its value notifies its hook (C15.GRD.5 keeps that call alive), the removal is heard through the hook."""
    ev = s.ev
    if ev.get('callee') != 'conf_register_string' or len(ev['args']) < 4 or const_of(ev['args'][3]) != 0:
        return False
    f = s.fn
    holders = [t for t in f.stores() if t.ev['k'] == 'store' and is_var(t.ev.get('lhs')) and (t.ev.get('rhs') or {}).get('ev') == ev.get('id')]
    if not holders:
        return False
    v = holders[0].ev['lhs']['name']

    def hooked(t):
        l = t.ev.get('lhs') or {}
        return t.ev['k'] == 'store' and is_field(l, 'hook') and is_var(root_var(l), v) and const_of(t.ev.get('rhs')) != 0
    return f.path_avoiding(holders[0], hooked) is None


def no_registration_in_hooks(P, R, H):
    """WMC.1: a rebuild hook only looks nodes up.  Registering (conf_register_*) a node while rebuilding
    marks it as owned by the program: it is then kept when a later file drops it, no membership change is
    seen and the hook never runs for the removal."""
    n = 0
    for unit, h in H.items():
        cl = {k: f for k, f in P.closure([h], may=False).items() if f.unit == unit}
        bad = [s for f in cl.values() for s in f.calls() if (s.ev.get('callee') or '').startswith('conf_register_') and not hooked_plain_lookup(s)]
        n += 1
        R.ob('C17.WMC.1', not bad, bad[0] if bad else h, 'the rebuild of %s only looks configuration nodes up (conf_get_child / iteration); it registers none (except a text with no default that is given a hook at once, which notifies when the text goes away)' % unit, key='no-register:%s' % unit,
             detail=[b.loc for b in bad] or None)
    R.floor('C17.WMC.1', 2)


def slot_insertion(P, R):
    f = P.need_fn('iauth_xquery_config_service')
    srv = None
    stores = []
    for s in f.stores():
        if s.ev['k'] == 'store' and s.ev['lhs'].get('k') == 'idx' and on_path(s.ev['lhs'], 'vec') and is_var(s.ev.get('rhs')):
            stores.append(s)
            srv = s.ev['rhs']['name']
    apps = [s for s in f.calls('iauth_xquery_services_append')]
    # a slot released by the sweep is handed out again before the table grows: slot numbers index the 32-bit client
    # masks, so they must stay bounded by the number of live services, not by the number ever configured
    if apps:
        R.ob('C17.MPT.5', bool(stores), apps[0], 'a new service is put into an empty slot when there is one; the table only grows when every slot is taken', key='slot-reuse')
        for a in apps:
            gs = f.guards(a.bid)
            okg = any(is_var(g[0]) and g[1] in ('==', '>=') and on_path(g[2], 'used') for g in gs) or any(on_path(g[0], 'used') and is_var(g[2]) and g[1] in ('==', '<=') for g in gs)
            R.ob('C17.MPT.5', okg or not stores, a, 'the append happens only after the search for an empty slot ran through the whole table', key='append-after-search', nontrivial=False)
    # ... and it takes ONE slot: the store into a free slot is not on a cycle (the search stops at the first free slot),
    # otherwise a service re-added after a reload fills every hole and is queried - and awaited - once per copy
    for s in stores:
        on_cycle = s.bid in f.reach([e.dst for e in f.out[s.bid]])
        R.ob('C17.MPT.5', not on_cycle, s, 'the search for a free slot stops at the first one it fills', key='one-slot')
    stores += apps
    if srv is None and apps and is_var(apps[0].ev['args'][1]):
        srv = apps[0].ev['args'][1]['name']
    if srv is None:
        raise AnalysisBroken('service insertion does not store into the table')

    def conf(t):
        return t.ev['k'] == 'store' and is_field(t.ev['lhs'], 'configured') and is_var(t.ev['lhs']['base'], srv)
    for s in stores:
        p = f.path_avoiding(s, conf)
        R.ob('C17.MPT.2', p is None, s, 'a service stored into the table is always given its configured flag before the function returns', key='stored->configured',
             detail=('path: lines %s' % f.path_lines(p)) if p else None)
    # existing entry found: also reaches the flag
    for bid in f.reachable_blocks():
        for e in f.out[bid]:
            r = rules.edge_rel(e)
            if r and isinstance(r[0], dict) and r[0].get('k') == 'callref' and r[0].get('callee') in ('strcmp', 'strcasecmp') and r[1] == '==' and const_of(r[2]) == 0:
                a = r[0]['args']
                if any(is_field(x, 'name') for x in a) and not any(is_var(x, 'type_names') for y in a for x in walk(y)):
                    p = f.path_from_block(e.dst, conf)
                    R.ob('C17.MPT.2', p is None, P.relloc((f.blocks[bid].get('term') or {}).get('loc', '?')), 'an already known service is (re)configured on every path', key='existing->configured')
                    R.obligations[-1]['function'] = f.name
                if any(is_var(x, 'type_names') for y in a for x in walk(y)):
                    def typ(t):
                        return t.ev['k'] == 'store' and is_field(t.ev['lhs'], 'type') and is_var(t.ev['lhs']['base'], srv) and t.ev.get('op') == '='
                    p = f.path_from_block(e.dst, typ)
                    if p is not None:
                        # the path may be infeasible: the lookup may leave its loop with "index < table size" known and test
                        # "index >= table size" afterwards; follow the index's interval
                        ivs = sorted({x for y in a for x in vars_in(y)} & {x for t in f.stores() if typ(t) for x in vars_in(t.ev['rhs'])})
                        if ivs:
                            iv = ivs[0]
                            m_edge = (e.src, e.dst, e.label)

                            def ident(x, iv=iv):
                                return 'i' if is_var(x, iv) else None

                            LO, HI = -2, 40

                            def on_edge2(st, e2, m_edge=m_edge):
                                matched, typed, lo, hi = st
                                r2 = rules.edge_rel(e2)
                                if r2 and is_var(r2[0], iv) and isinstance(const_of(r2[2]), int):
                                    c = const_of(r2[2])
                                    op = r2[1]
                                    if op == '<':
                                        hi = min(hi, c - 1)
                                    elif op == '<=':
                                        hi = min(hi, c)
                                    elif op == '>':
                                        lo = max(lo, c + 1)
                                    elif op == '>=':
                                        lo = max(lo, c)
                                    elif op == '==':
                                        lo, hi = max(lo, c), min(hi, c)
                                    if lo > hi:
                                        return None
                                if (e2.src, e2.dst, e2.label) == m_edge:
                                    matched = True
                                return (matched, typed, lo, hi)

                            def on_event2(st, t):
                                matched, typed, lo, hi = st
                                if typ(t):
                                    typed = True
                                ev = t.ev
                                if ev['k'] == 'store' and is_var(ev.get('lhs'), iv):
                                    if ev.get('op') == '=' and isinstance(const_of(ev.get('rhs')), int):
                                        lo = hi = const_of(ev['rhs'])
                                    elif ev.get('op') == '++':
                                        lo, hi = min(lo + 1, HI), min(hi + 1, HI)
                                    else:
                                        lo, hi = LO, HI
                                    matched = False if not typed else matched
                                return (matched, typed, lo, hi)
                            _, at_exit, _, _ = f.forward((False, False, LO, HI), on_event2, on_edge2)
                            if not any(st[0] and not st[1] for st in at_exit):
                                p = None
                    R.ob('C17.MPT.2', p is None, P.relloc((f.blocks[bid].get('term') or {}).get('loc', '?')), 'when the configured protocol name matches, the service adopts that protocol on every path (an in-place protocol change takes effect)', key='match->type')
                    R.obligations[-1]['function'] = f.name
                    # and it is the matched index that is stored
                    ts = [t for t in f.stores() if typ(t)]
                    okv = bool(ts) and all(vars_in(t.ev['rhs']) <= {x for y in a for x in vars_in(y)} and vars_in(t.ev['rhs']) for t in ts)
                    R.ob('C17.MPT.2', okv, ts[0] if ts else f, 'the protocol stored is the one whose name matched', key='type-value', nontrivial=False)
    # configured = 1 only on the matched path, 0 otherwise
    ones = [t for t in f.stores() if conf(t) and const_of(t.ev.get('rhs')) == 1]
    R.ob('C17.MPT.2', len(ones) == 1, ones[0] if ones else f, 'the service is marked configured at one place', key='configured-one')
    R.floor('C17.MPT.2', 5)


def rebuilds(P, R, H):
    h = H.get(XQ)
    if h is not None:
        clear = [s for s in h.stores() if s.ev['k'] == 'store' and is_field(s.ev['lhs'], 'configured') and const_of(s.ev.get('rhs')) == 0]
        adds = [s for s in h.calls('iauth_xquery_config_service')]
        ok = bool(clear) and bool(adds) and all(h.before(clear[0], a) or clear[0].bid not in h.reach([a.bid]) for a in adds)
        inloop = bool(clear) and clear[0].bid in h.reach([e.dst for e in h.out[clear[0].bid]])
        R.ob('C17.MPT.3', ok and inloop, clear[0] if clear else h, 'the service rebuild first marks every slot unconfigured, then re-adds the entries of the section', key='xquery:clear-then-add')
        # the clearing loop runs over the whole table: bound is .used, start 0
        sweep = [s for s in h.calls('iauth_xquery_unref')]
        R.ob('C17.MPT.3', bool(sweep) and all(a.bid not in h.reach([sweep[0].bid]) or a.bid == sweep[0].bid for a in adds), sweep[0] if sweep else h, 'unreferenced services are swept after the re-add', key='xquery:sweep-after')
        # the walk covers the section: set_first(&conf.root->contents) .. set_next
        w = [s for s in h.calls('set_first') if on_path(s.ev['args'][0], 'contents')]
        R.ob('C17.MPT.3', len(w) == 1, w[0] if w else h, 'the rebuild walks the whole section', key='xquery:walk', nontrivial=False)
        # name and value of the entry are what is configured
        for a in adds:
            ar = a.ev['args']
            okargs = len(ar) >= 2 and on_path(ar[0], 'name') and on_path(ar[1], 'value')
            if not okargs and len(ar) == 1 and 'conf_node_string' in ((ar[0].get('t') or '') if isinstance(ar[0], dict) else ''):
                # the entry itself is handed over: the configuring function reads its name and its value
                cs = P.need_fn('iauth_xquery_config_service')
                p0 = cs.params[0]
                reads = {x.get('field') for t in cs.sites() for ex in rules.event_exprs(t.ev) for x in walk(ex) if x.get('k') == 'mem' and root_var(x) is not None and root_var(x)['name'] == p0}
                okargs = {'name', 'value'} <= reads
            R.ob('C17.MPT.3', okargs, a, 'each entry configures the service named by the entry with the protocol given as its value', key='xquery:args')
    c = H.get(CL)
    if c is not None:
        init = [s for s in c.calls('iauth_class_rules_init')]
        fr = [s for s in c.calls('iauth_class_free_rules')]
        ad = [s for s in c.stores() if s.ev['k'] == 'store' and on_path(s.ev['lhs'], 'rules') and root_var(s.ev['lhs']) is not None and root_var(s.ev['lhs'])['name'] == 'conf' and s.ev.get('op') == '=']
        ok = bool(init) and bool(fr) and bool(ad) and c.before(init[0], fr[0]) and c.before(fr[0], ad[0])
        R.ob('C17.MPT.3', ok, ad[0] if ad else c, 'the class rebuild compiles a fresh vector, frees the old rules, then adopts the new ones', key='class:fresh-free-adopt')
        for nm, ss in (('frees the old rules', fr), ('adopts the new rules', ad)):
            p = c.path_avoiding(None, lambda t: t in ss, from_entry=True)
            R.ob('C17.MPT.3', p is None, ss[0] if ss else c, 'every path of the class rebuild %s' % nm, key='class:%s' % nm.split()[0])
        # the new vector is sized for the whole section
        okn = bool(init) and any(on_path(x, 'count') or on_path(x, 'contents') for x in walk(init[0].ev['args'][1])) or (bool(init) and is_var(init[0].ev['args'][1]))
        R.ob('C17.MPT.3', okn, init[0] if init else c, 'the new vector has room for every node of the section', key='class:capacity', nontrivial=False)
    R.floor('C17.MPT.3', 7)


def foreign_state(P, R, H, rule='C17.MPT.6'):
    """What a module compiles out of its section depends on its section only.  A value that the hook looks up in
    another decision module's tables (e.g. a service's slot) is decided by that module's own reload, which may run
    later in the same load or in a later one - nothing re-runs this hook then."""
    n = 0
    for unit, h in H.items():
        if h is None:
            continue
        cl = P.closure([h], may=False)
        for g in cl.values():
            if g.unit == h.unit or not g.unit.startswith('modules/') or g.unit == 'modules/iauth_misc.c':
                continue
            reads = set()
            for t in g.sites():
                for ex in rules.event_exprs(t.ev):
                    for x in walk(ex):
                        if x.get('k') == 'var' and x.get('sc') in ('file_static', 'global') and x.get('t', '') and not x.get('t', '').startswith('struct log_type'):
                            reads.add(x['name'])
            n += 1
            R.ob(rule, not reads, h, 'the %s section hook compiles its cache without consulting another module\'s state (calls %s in %s, which reads %s)' % (h.unit, g.name, g.unit, sorted(reads)), key='foreign:%s:%s' % (h.name, g.name))
    R.ob(rule, True, P.need_fn('conf_read'), 'scanned the section hooks\' call closures for functions of other decision modules: %d found' % n, key='scan', nontrivial=False)


def merge_delivery(P, R):
    """GRD.1: in the merge the object hook depends only on the membership flag, which is set on splice and on removal
    (the rule body is C15's notification rule; only its object/splice/removal instances are recorded here)."""
    from . import c15
    from ..report import Remap

    class _Only(object):
        def __init__(self, R):
            self.R = R

        def ob(self, rule, ok, site, what, key=None, **k):
            if key in ('predicate:object', 'splice->modified', 'removal->modified'):
                return self.R.ob('C17.GRD.1', ok, site, what, key=key, **k)
            return True

        def floor(self, *a, **k):
            pass

        def __getattr__(self, n):
            return getattr(self.R, n)
    c15.notification(P, _Only(R))
    R.floor('C17.GRD.1', 4)


def spelling_adopted(P, R, rule='C17.MPT.12'):
    """The merge pairs the nodes of the old and the new tree with the node comparator.  When that comparator folds
    case, two nodes can be "the same" while their names are spelled differently - and names are data here (the name
    of a service is what queries are addressed to, a rule's name is the class it hands out).  So in the function that
    pairs the nodes, the present-in-both arm gives the live node the new spelling (a store to its name under an exact
    comparison of the two names) and counts that as a change of membership."""
    cmpf = P.need_fn('conf_object_cmp')
    folds = any(isinstance(x, dict) and x.get('k') == 'callref' and x.get('callee') in ('strcasecmp', 'strncasecmp')
                for t in cmpf.sites() for ex in rules.event_exprs(t.ev) for x in walk(ex))
    if not folds:
        R.ob(rule, True, cmpf, 'node names are compared exactly: a differently spelled name is a different node', key='spelling:exact-comparator', nontrivial=False)
        R.floor(rule, 1)
        return
    rv = P.need_fn('conf_replace_value')
    pairs = [t for t in rv.calls('conf_object_cmp')]
    if not pairs:
        raise AnalysisBroken('the merge no longer pairs nodes with conf_object_cmp')
    stores = []
    for t in rv.stores():
        l = t.ev.get('lhs') or {}
        if t.ev['k'] == 'store' and l.get('k') == 'mem' and l.get('field') == 'name' and l.get('rec') == 'conf_node_base':
            gs = rv.guards(t.bid)
            exact = any(isinstance(g[0], dict) and g[0].get('k') == 'callref' and g[0].get('callee') == 'strcmp' and g[1] == '!=' and const_of(g[2]) == 0
                        and sum(1 for a in g[0]['args'] for x in walk(a) if isinstance(x, dict) and x.get('k') == 'mem' and x.get('field') == 'name') >= 2 for g in gs)
            if exact:
                stores.append(t)
    ok = bool(stores)
    flagged = False
    if stores:
        # the block that renames also marks the parent as modified (the local tested before the object hook)
        hs = [t for t in rv.calls() if P.call_slot(t) == 'conf_node_base::hook']
        flags = {g[0]['name'] for t in hs for g in rv.guards(t.bid) if is_var(g[0]) and g[1] == '!=' and const_of(g[2]) == 0}
        def sets_flag(u):
            return u.ev['k'] == 'store' and is_var(u.ev.get('lhs')) and u.ev['lhs']['name'] in flags and const_of(u.ev.get('rhs')) not in (None, 0)
        hooked = [t for t in hs if any(is_var(g[0]) and g[0]['name'] in flags for g in rv.guards(t.bid))]
        for t in stores:
            # every feasible path from the renaming to the object's hook test sets the flag (it may be set a few statements
            # on, from the result of a helper that did the renaming: constants of locals are followed)
            def on_event(st, u, t=t):
                if st == 'pre':
                    return ('post', (), False) if u.key == t.key else st
                _, consts, fl = st
                ev = u.ev
                if sets_flag(u):
                    return ('post', consts, True)
                if ev['k'] == 'store' and is_var(ev.get('lhs')) and ev['lhs'].get('sc') == 'local':
                    d = dict(consts)
                    d.pop(ev['lhs']['name'], None)
                    if ev.get('op') == '=' and isinstance(const_of(ev.get('rhs')), int):
                        d[ev['lhs']['name']] = const_of(ev['rhs'])
                    return ('post', tuple(sorted(d.items())), fl)
                return st

            def on_edge(st, e):
                if st == 'pre':
                    return st
                r = rules.edge_rel(e)
                if r and is_var(r[0]) and isinstance(const_of(r[2]), int) and r[0]['name'] in dict(st[1]):
                    v, c = dict(st[1])[r[0]['name']], const_of(r[2])
                    if not {'==': v == c, '!=': v != c, '<': v < c, '<=': v <= c, '>': v > c, '>=': v >= c}.get(r[1], True):
                        return None
                return st
            before, _, _, _ = rv.forward('pre', on_event, on_edge)
            sts = [x for h in hooked for x in before.get(h.key, set()) if x != 'pre']
            if hooked and sts and all(x[2] for x in sts):
                flagged = True
    R.ob(rule, ok and flagged, stores[0] if stores else pairs[0], 'names are paired ignoring case, so the present-in-both arm of the merge adopts the new spelling of the name and marks the parent as changed', key='spelling:adopted')
    R.floor(rule, 1)


def retired_namesake_skipped(P, R, rule='C17.GRD.4'):
    """A reload that re-spells a service retires the old entry and adds a new one; while a client still waits for the
    old one both are in the table under names that differ in case only.  The class module's question "did <service>
    accept this client" is answered from the first entry whose name matches without regard to case - so an entry that
    is no longer configured answers for nobody: it is in the table only because some OTHER client still waits for it (so
    whether it is there at all depends on the other clients' traffic), and a fresh daemon on the current file has no
    such service.  In the exported lookup, no path leaves the function having matched an entry's name without having
    found that entry configured (before or after the match; going on to the next entry forgets both)."""
    n = 0
    for f in P.unit_fns('modules/iauth_xquery.c'):
        if f.static or not any(p_['t'].startswith('const char') for p_ in f.param_info):
            continue

        def name_match(r):
            l, op, rr = r
            return isinstance(l, dict) and l.get('k') == 'callref' and l.get('callee') in ('strcasecmp', 'strcmp', 'irccasecmp') and op == '==' and const_of(rr) == 0 \
                and any(x.get('k') == 'mem' and x.get('field') == 'name' for a in l.get('args', ()) for x in walk(a))
        edges = [e for b in f.reachable_blocks() for e in f.out[b] if e.rel() and name_match(e.rel())]
        if not edges:
            continue

        def on_edge(st, e):
            r = e.rel()
            if not r:
                return st
            m, c = st
            l, op, rr = r
            if name_match(r):
                m = True
            if isinstance(l, dict) and l.get('k') == 'mem' and l.get('field') == 'configured' and op == '!=' and const_of(rr) == 0:
                c = True
            return (m, c)

        def on_event(st, t):
            # the next entry: what was learned about the previous one is void
            if t.ev['k'] == 'store' and is_var(t.ev.get('lhs')) and any(x.get('k') == 'mem' and x.get('field') == 'vec' for x in walk(t.ev.get('rhs') or {})):
                return (False, False)
            # ... and so it is when the walk steps on (the last entry passed over leaves nothing behind either)
            if t.ev['k'] == 'store' and is_var(t.ev.get('lhs')) and t.ev.get('op') in ('++', '+='):
                return (False, False)
            return st
        _, at_exit, _, _ = f.forward((False, False), on_event, on_edge)
        bad = [st for st in at_exit if st[0] and not st[1]]
        n += len(edges)
        R.ob(rule, bool(at_exit) and not bad, f, 'an entry whose name matches answers only while it is configured (a retired entry - a namesake spelled differently before a reload, or one kept by another client\'s pending query - is passed over): %d name test(s) in %s, %s' % (
            len(edges), f.name, 'a path leaves with a match on an entry never found configured' if bad else 'every path out of a match has found the entry configured'), key='namesake:%s' % f.name)
    R.floor(rule, 1, 'exported service lookups with a name test')


def run(P, R, tier):
    retired_namesake_skipped(P, R)
    H = wiring(P, R)
    coverage(P, R, H)
    no_registration_in_hooks(P, R, H)
    slot_insertion(P, R)
    rebuilds(P, R, H)
    foreign_state(P, R, H)
    merge_delivery(P, R)
    spelling_adopted(P, R)
    # the dropped-section branch must read the OLD present bit (shared with C15.GRD.3)
    import types
    sub = types.SimpleNamespace()
    class _R(object):
        def __init__(self, R):
            self.R = R
        def ob(self, rule, *a, **k):
            if rule == 'C15.GRD.3':
                return self.R.ob('C17.GRD.2', *a, **k)
            return True
        def floor(self, rule, n, why=''):
            if rule == 'C15.GRD.3':
                self.R.floor('C17.GRD.2', n, why)
        def __getattr__(self, n):
            return getattr(self.R, n)
    proxy = _R(R)
    before = len(R.obligations)
    removal_guard(P, proxy)
    from . import c15
    from ..report import Remap
    c15.notification(P, Remap(R, {'C15.GRD.1': 'C17.GRD.3', 'C15.MPT.1': 'C17.GRD.3'}))
    # a reload that is not applied, or a removal that is not reported, never reaches the modules' hooks
    c15.load_merges(P, Remap(R, {'C15.MPT.3': 'C17.MPT.4', 'C15.WMC.1': 'C17.MPT.4'}))
    c15.removal_reports_change(P, Remap(R, {'C15.MPT.4': 'C17.GRD.3'}))
    # a module's section survives being dropped from the file only because registration pinned it: the hook lives on the node
    c15.registration(P, Remap(R, {'C15.MPT.2': 'C17.MPT.7'}))
    # an added or removed entry marks its section modified whatever its neighbours in sort order do
    c15.merge_details(P, R, 'C17.MPT.8')
    # a section read from the file counts as present, so that dropping it later reverts its children
    from . import c16 as _c16
    _c16.duplicates(P, Remap(R, {'C16.MPT.1': 'C17.MPT.10'}))
    # a rule that lost a criterion in the new file has lost it in the rebuilt table
    from . import c11 as _c11
    _c11.zeroed_entries(P, R, _c11.compile_pass(P, Remap(R, {})), 'C17.MPT.11')
    # a slot emptied by a reload must not hide the services configured behind it
    from . import c06
    xq, b = c06.builder(P)
    c06.fanout_complete(P, R, b, 'C17.MPT.9')
    # the parser and the merge keep nothing from one load (or one entry, or one nested call) to the next
    rules.no_static_locals(P, R, 'C17.WMC.9', P.unit_fns(P.need_fn('conf_read').unit), 'configuration code')
    return EXPLANATION, ASSUMPTIONS
