"""C20 - module load and unload respect declared dependencies (partial).

Decided: construct-once guard; failure paths fatal and propagated to the exit status; post-init
only in the DFS, after the dependency loop, under the once-guard; DFS marks distinguish
on-stack from finished; the walk's stamp is never the unvisited value; both directions of a
dependency are recorded; unload guarded by empty reverse-dependencies and iterated to a
fixpoint.  Not decided: the order of events over all DAGs."""
from ..facts import AnalysisBroken
from ..model import sx, walk, is_var, is_field, const_of, vars_in, root_var, same, on_path, rel
from .. import rules, core

UNIT = 'src/module.c'
EXPLANATION = (
    'Rules over src/module.c and main: (GRD.1) dlopen and the constructor call are reached only on the '
    'not-found edge of the registry lookup at the top of the loader, and the constructor symbol is called '
    'nowhere else; (MPT.1) a NULL handle and an unloadable dependency end in a FATAL log call on every '
    'path, the list loader returns non-zero on a failed load and propagates a non-zero DFS result, and '
    'main returns failure on it; (GRD.2) post-init is called only in the DFS, after the dependency loop, '
    'and a finished module returns before reaching it; (MPT.2) three-state marking: the mark the on-stack '
    'test reads is changed on every path between the post-init call and the successful return, so that a '
    'finished module no longer matches the on-stack test; (GRD.4) the stamp handed to the DFS is never the '
    '"unvisited" value 0; (MPT.3) the dependency declaration records the edge in both directions for every '
    'name; (GRD.3) in the unload rounds a module is removed only with no reverse dependencies and not a '
    'backend, each removal flags progress so the rounds run to a fixpoint, and the per-module cleanup drops '
    'the module from each dependency\'s reverse list.  The order over all DAGs is NOT decided.'
    ' Rounds 8-9: (GRD.5) a bare name handed to dlopen is non-empty; (TAB.3) lazy global dlopen; (WIRE.4) the configured list is loaded once as a whole; (GRD.6) the back-end count is a truth value; (MPT.8) the loader is entered from a constructor only to load what the caller depends on (known finding F53).')
ASSUMPTIONS = ['clang 14 CFG', 'log_message(..., LOG_FATAL, ...) terminates the process', 'dlsym("module_*") resolves to the module\'s own entry point']


def is_fatal(s):
    return rules.is_call(s, 'log_message') and len(s.ev['args']) > 1 and s.ev['args'][1].get('k') == 'enum' and s.ev['args'][1]['name'] == 'LOG_FATAL'


def dlsym_calls(P, f, sym):
    """Indirect calls in f through a pointer obtained from dlsym(..., sym)."""
    out = []
    for s in f.calls():
        if s.ev.get('callee'):
            continue
        fe = s.ev.get('fexpr') or {}
        if is_var(fe):
            for d in f.local_defs(fe['name']):
                v = d.ev.get('rhs') or d.ev.get('init') or {}
                if v.get('callee') == 'dlsym' and any(a.get('k') == 'str' and a['v'] == sym for a in v['args']):
                    out.append(s)
    # assignments inside conditions: (func = dlsym(...))
    if not out:
        for s in f.calls():
            if not s.ev.get('callee') and is_var(s.ev.get('fexpr') or {}):
                nm = s.ev['fexpr']['name']
                for t in f.sites():
                    if t.ev['k'] == 'store' and is_var(t.ev.get('lhs'), nm) and (t.ev.get('rhs') or {}).get('callee') == 'dlsym' \
                            and any(a.get('k') == 'str' and a['v'] == sym for a in t.ev['rhs']['args']):
                        out.append(s)
    return out


def construct_once(P, R):
    ld = core.module_loader(P)
    ctor = dlsym_calls(P, ld, 'module_constructor')
    R.ob('C20.GRD.1', len(ctor) == 1, ctor[0] if ctor else ld, 'the loader calls the module constructor (once in its body)', key='ctor-call')
    look = [s for s in ld.stores() if (s.ev.get('rhs') or {}).get('callee') == 'set_find' and is_var(s.ev.get('lhs'))]
    lv = look[0].ev['lhs']['name'] if look else None
    for s in ctor + [t for t in ld.calls() if t.ev.get('callee') in ('module_dlopen', 'dlopen')]:
        # the not-found edge: the lookup result tested == 0 on every path (the early return on found)
        def on_event(st, t):
            if look and t.key == look[0].key:
                return 'looked'
            return st

        def on_edge(st, e):
            r = rules.edge_rel(e)
            if r and is_var(r[0], lv) and const_of(r[2]) == 0 and st == 'looked':
                return 'absent' if r[1] == '==' else 'present'
            return st
        before, _, _, _ = ld.forward('init', on_event, on_edge)
        sts = before.get(s.key, set())
        R.ob('C20.GRD.1', bool(sts) and sts <= {'absent'}, s, '%s is reached only when the registry lookup found no such module (states: %s)'
             % (s.ev.get('callee') or 'the constructor call', sorted(sts)), key='once:%s' % (s.ev.get('callee') or 'ctor'))
    # nobody else calls a constructor
    others = [s for f in P.fns.values() if f is not ld and not f.unit.startswith('tests/') for s in dlsym_calls(P, f, 'module_constructor')]
    R.ob('C20.GRD.1', not others, others[0] if others else ld, 'the constructor entry point is called only by the loader', key='ctor-elsewhere', nontrivial=False)
    R.floor('C20.GRD.1', 3)
    return ld


def failures(P, R, ld):
    # NULL handle -> FATAL
    for bid in ld.reachable_blocks():
        for e in ld.out[bid]:
            r = rules.edge_rel(e)
            if r and is_field(r[0], 'handle') and r[1] == '==' and const_of(r[2]) == 0:
                first = ld.block_sites(e.dst)
                ok = any(is_fatal(t) for t in first) or (bool(first) and ld.path_avoiding(first[-1], is_fatal) is None)
                R.ob('C20.MPT.1', ok, first[0] if first else ld, 'a module that cannot be opened is fatal', key='fatal:handle')
    for dname in ('module_depends', 'module_antidepends'):
        dep = P.need_fn(dname)
        loads = [t for t in dep.stores() if (t.ev.get('rhs') or {}).get('callee') == 'module_load' and is_var(t.ev.get('lhs'))]
        for ls in loads:
            ov = ls.ev['lhs']['name']
            ovs = {ov}
            for t in dep.sites():
                if t.ev['k'] == 'store' and is_var(t.ev.get('lhs')) and is_var(t.ev.get('rhs')) and t.ev['rhs']['name'] in ovs:
                    ovs.add(t.ev['lhs']['name'])
                if t.ev['k'] == 'decl' and is_var(t.ev.get('init')) and t.ev['init']['name'] in ovs:
                    ovs.add(t.ev['var'])

            def on_event(st, t, ls=ls):
                if t.key == ls.key:
                    return 'loaded?'
                if is_fatal(t):
                    return None          # the process ends here
                return st

            def on_edge(st, e, ov=ov, ovs=ovs):
                r = rules.edge_rel(e)
                if r and is_var(r[0]) and r[0]['name'] in ovs and const_of(r[2]) == 0 and st == 'loaded?':
                    return 'null' if r[1] == '==' else 'ok'
                return st
            before, _, _, _ = dep.forward('pre', on_event, on_edge)
            uses = [t for t in dep.calls('const_string_vector_append')]
            bad = [t for t in uses if 'null' in before.get(t.key, set()) or 'loaded?' in before.get(t.key, set())]
            R.ob('C20.MPT.1', bool(uses) and not bad, ls, '%s: a dependency that cannot be loaded is fatal before any edge is recorded' % dname, key='fatal:dependency:%s' % dname)
    ll = P.need_fn('module_load_list')
    # failed load / failed walk -> non-zero return (path-sensitive: also through folded helpers)
    def failing(e):
        r = rules.edge_rel(e)
        if r and isinstance(r[0], dict) and r[0].get('k') == 'callref' and r[0].get('callee') == 'module_load' and r[1] == '==' and const_of(r[2]) == 0:
            return 'load'
        return None
    dfs_calls = [s for s in ll.calls('module_dfs')]
    rvs = {}
    for s in dfs_calls:
        st = [t for t in ll.stores() if (t.ev.get('rhs') or {}).get('ev') == s.ev['id'] and is_var(t.ev.get('lhs'))]
        if st:
            rvs[st[0].ev['lhs']['name']] = s

    # ... and what carries that result on (the value a folded sorting helper hands back)
    grew = True
    while grew:
        grew = False
        for t in ll.stores():
            if t.ev['k'] == 'store' and is_var(t.ev.get('lhs')) and t.ev.get('op') == '=' and is_var(t.ev.get('rhs')) and t.ev['rhs']['name'] in rvs and t.ev['lhs']['name'] not in rvs:
                rvs[t.ev['lhs']['name']] = rvs[t.ev['rhs']['name']]
                grew = True

    def on_edge(st, e):
        k = failing(e)
        if k:
            return 'failed:load'
        r = rules.edge_rel(e)
        if r and is_var(r[0]) and r[0]['name'] in rvs and const_of(r[2]) == 0 and st == 'walked':
            return 'failed:dfs' if r[1] == '!=' else 'pre'
        return st

    def on_event(st, t):
        if t.ev['k'] == 'call' and t.ev.get('callee') == 'module_dfs' and not st.startswith('failed'):
            return 'walked'
        return st
    before, _, _, _ = ll.forward('pre', on_event, on_edge)
    seen_kinds = set()
    for t in ll.sites():
        if t.ev['k'] != 'ret':
            continue
        for st in before.get(t.key, set()):
            if not st.startswith('failed'):
                continue
            kind = st.split(':')[1]
            seen_kinds.add(kind)
            v = t.ev.get('val')
            c = const_of(ll.expand_local(v, t)) if isinstance(v, dict) else None
            ok = (c not in (None, 0)) or (kind == 'dfs' and is_var(v) and v['name'] in rvs)
            if kind == 'load':
                R.ob('C20.MPT.1', ok, t, 'a failed load makes the list loader return non-zero (returns %s)' % sx(v), key='propagate:load')
            else:
                R.ob('C20.MPT.1', ok, t, 'a non-zero DFS result is returned by the list loader (returns %s)' % sx(v), key='propagate:dfs')
    R.ob('C20.MPT.1', 'load' in seen_kinds, ll, 'the list loader has a return on the failed-load path', key='propagate:load:exists', nontrivial=False)
    R.ob('C20.MPT.1', 'dfs' in seen_kinds, ll, 'the list loader has a return on the failed-walk path', key='propagate:dfs:exists', nontrivial=False)
    main = P.need_fn('main')
    for bid in main.reachable_blocks():
        for e in main.out[bid]:
            r = rules.edge_rel(e)
            if r and isinstance(r[0], dict) and r[0].get('k') == 'callref' and r[0].get('callee') == 'module_load_list' and e.label == 'true' and not (r[1] in ('!=', '==') and const_of(r[2]) == 0):
                R.ob('C20.MPT.1', False, P.relloc((main.blocks[bid].get('term') or {}).get('loc', '?')), 'main treats every non-zero result of the module loader as a failure (tests %s)' % e.describe(), key='propagate:main-test')
                R.obligations[-1]['function'] = main.name
            if r and isinstance(r[0], dict) and r[0].get('k') == 'callref' and r[0].get('callee') == 'module_load_list' and r[1] == '!=' and const_of(r[2]) == 0:
                fe = (e.src, e.dst, e.label)

                def on_edge_m(st, e2, fe=fe):
                    return 'failed' if (e2.src, e2.dst, e2.label) == fe else st
                bm, _, _, _ = main.forward('pre', None, on_edge_m)
                frets = [t for t in main.sites() if t.ev['k'] == 'ret' and 'failed' in bm.get(t.key, set())]
                okm = bool(frets) and all(const_of(main.expand_local(t.ev.get('val'), t) if isinstance(t.ev.get('val'), dict) else t.ev.get('val')) not in (None, 0) for t in frets)
                R.ob('C20.MPT.1', okm, frets[0] if frets else main, 'main exits with failure when module loading failed', key='propagate:main')
    # dependency loop -> FATAL
    dfs = P.need_fn('module_dfs')
    for bid in dfs.reachable_blocks():
        for e in dfs.out[bid]:
            r = rules.edge_rel(e)
            if r and is_var(r[0]) and r[1] == '==' and const_of(r[2]) == -1:
                first = dfs.block_sites(e.dst)
                R.ob('C20.MPT.1', any(is_fatal(t) for t in first), first[0] if first else dfs, 'a dependency loop is fatal', key='fatal:loop')
    R.floor('C20.MPT.1', 6)


def post_init(P, R):
    dfs = P.need_fn('module_dfs')
    mod = dfs.params[0]
    pi = dlsym_calls(P, dfs, 'module_post_init')
    R.ob('C20.GRD.2', len(pi) == 1, pi[0] if pi else dfs, 'the DFS calls post-init at one place', key='postinit-call')
    others = [s for f in P.fns.values() if f is not dfs and not f.unit.startswith('tests/') for s in dlsym_calls(P, f, 'module_post_init')]
    R.ob('C20.GRD.2', not others, others[0] if others else dfs, 'post-init is called only by the DFS', key='postinit-elsewhere', nontrivial=False)
    rec = [s for s in dfs.calls('module_dfs')]
    for s in pi:
        # after the dependency loop: no recursive call is reachable after post-init, and every recursive call precedes it
        after = [t for t in rec if t.bid in dfs.reach([s.bid]) and not (t.bid == s.bid and t.idx < s.idx)]
        R.ob('C20.GRD.2', bool(rec) and not after, s, 'post-init runs after all dependencies have been walked (post-order)', key='postorder')
        a0 = s.ev['args'][0] if s.ev['args'] else None
        R.ob('C20.GRD.2', is_var(a0, mod), s, 'post-init is given the module itself', key='postinit-arg', nontrivial=False)
    # once-guard: a module that already finished returns before post-init
    fin = None
    for t in dfs.stores():
        if t.ev['k'] == 'store' and t.ev['lhs'].get('k') == 'mem' and is_var(t.ev['lhs']['base'], mod) and const_of(t.ev.get('rhs')) not in (None, 0) and pi and \
                (t.bid in dfs.reach([pi[0].bid])):
            fin = t
    R.ob('C20.MPT.2', fin is not None, fin or dfs, 'after post-init the module is marked (%s)' % (sx(fin.ev['lhs']) if fin else 'no mark found'), key='finished-mark')
    if fin is not None:
        fld = fin.ev['lhs']['field']
        p = dfs.path_avoiding(pi[0], lambda t: t.key == fin.key)
        R.ob('C20.MPT.2', p is None, fin, 'the finished mark is set on every path from post-init to the return', key='finished-always')
        # modules without a post-init entry point are marked too: every successful fall-through return passes the mark
        rets0 = [t for t in dfs.sites() if t.ev['k'] == 'ret' and const_of(t.ev.get('val')) == 0]
        endret = [t for t in rets0 if not any(g[0].get('k') == 'mem' and g[1] in ('!=',) for g in dfs.guards(t.bid) if isinstance(g[0], dict))]
        last = max(rets0, key=lambda t: t.line) if rets0 else None
        if last is not None:
            pp = dfs.path_avoiding(None, lambda t: t.key == fin.key, target=last.bid, from_entry=True)
            inb = any(t.key == fin.key for t in dfs.block_sites(last.bid)[:last.idx])
            R.ob('C20.MPT.2', pp is None or inb, last, 'every walk that completes marks the module finished (also modules without a post-init)', key='finished-all-paths')
        # ... and so does every other successful return that lies behind the dependency loop
        behind = set(dfs.reach([t.bid for t in rec])) if rec else set()
        for t in rets0:
            if t is last or t.bid not in behind:
                continue
            pp = dfs.path_avoiding(None, lambda u: u.key == fin.key, target=t.bid, from_entry=True)
            inb = any(u.key == fin.key for u in dfs.block_sites(t.bid)[:t.idx])
            R.ob('C20.MPT.2', pp is None or inb, t, 'a successful return after the dependency loop leaves the module marked finished (a module reached again on the same pass would otherwise look like a loop)', key='finished-early-return')
        # the on-stack test does not match a finished module
        loops = []
        for bid in dfs.reachable_blocks():
            for e in dfs.out[bid]:
                rets = [t for t in dfs.block_sites(e.dst) if t.ev['k'] == 'ret' and const_of(t.ev.get('val')) == -1]
                if rets:
                    loops.append((e, rets[0]))
        okl = False
        for e, rt in loops:
            gs = dfs.guards(rt.bid)
            if any(is_field(g[0], fld) and not is_var(g[0]['base'], mod) and g[1] == '==' and const_of(g[2]) == 0 for g in gs):
                okl = True
        R.ob('C20.MPT.2', okl, loops[0][1] if loops else dfs, 'a dependency is taken to be on the current path only if it is not finished (three-state marking)', key='onstack-excludes-finished')
        # entry guard: finished -> return 0 before anything else
        entry_ok = False
        for bid in dfs.reachable_blocks():
            for e in dfs.out[bid]:
                r = rules.edge_rel(e)
                if r and is_field(r[0], fld) and is_var(r[0]['base'], mod) and r[1] == '!=' and const_of(r[2]) == 0:
                    tgt = dfs.block_sites(e.dst)
                    if any(t.ev['k'] == 'ret' and const_of(t.ev.get('val')) == 0 for t in tgt):
                        entry_ok = True
        R.ob('C20.GRD.2', entry_ok, dfs, 'a finished module returns at once: its post-init cannot run twice', key='once-guard')
    R.floor('C20.GRD.2', 4)
    R.floor('C20.MPT.2', 3)
    # GRD.4: the stamp is never 0
    ll = P.need_fn('module_load_list')
    for s in ll.calls('module_dfs'):
        a = s.ev['args'][1]
        ok = a.get('k') == 'un' and a['op'] == '++' and not a.get('postfix')
        if ok:
            v = a['e']['name']
            inits = [t for t in ll.sites() if (t.ev['k'] == 'store' and is_var(t.ev.get('lhs'), v) and t.ev.get('op') == '=') or (t.ev['k'] == 'decl' and t.ev.get('var') == v and t.ev.get('init') is not None)]
            ok = all((const_of(t.ev.get('rhs') if t.ev['k'] == 'store' else t.ev.get('init')) or 0) >= 0 for t in inits)
        R.ob('C20.GRD.4', ok, s, 'the walk\'s stamp %s is never 0, the value that means "unvisited"' % sx(a), key='stamp-nonzero')
    R.floor('C20.GRD.4', 1)


def walk_starts(P, R):
    """MPT.4: the list loader starts a walk from every module that has not been visited yet; the only
    reason to pass over a module is that an earlier walk already reached it.  (Skipping modules that
    others depend on would leave a cycle with no outside entry unwalked and undetected.)"""
    ll = P.need_fn('module_load_list')
    calls = [s for s in ll.calls('module_dfs')]
    for s in calls:
        # edges that jump to the next module without starting a walk
        nxt = [t for t in ll.stores() if t.ev['k'] == 'store' and is_var(t.ev.get('lhs')) and is_field(t.ev.get('rhs') or {}, 'next') and t.bid in ll.reach([s.bid])]
        if not nxt:
            R.ob('C20.MPT.4', False, s, 'the walk loop does not step along the module registry', key='walk-loop')
            continue
        incb = nxt[0].bid
        live = ll.reachable_blocks()
        edges = []
        seen_e = set()
        work = [e for bid in live for e in ll.out[bid] if e.dst == incb]
        while work:
            e = work.pop()
            bid = e.src
            if (e.src, e.dst, e.label) in seen_e or bid not in live:
                continue
            seen_e.add((e.src, e.dst, e.label))
            if ll.dominates(s.bid, bid) or bid == s.bid:
                continue
            if e.label in ('true', 'false'):
                edges.append(e)
            elif not [t for t in ll.block_sites(bid) if not t.ev.get('synthetic')] or all(t.ev['k'] in ('decl',) for t in ll.block_sites(bid)):
                # empty pass-through blocks (also the residue of folded accessors): look further back
                work.extend(ll.inn[bid])
        for e in edges:
            r = rules.edge_rel(e)
            ok = bool(r) and is_field(r[0], 'visited') and r[1] == '!=' and const_of(r[2]) == 0
            R.ob('C20.MPT.4', ok, P.relloc((ll.blocks[e.src].get('term') or {}).get('loc', '?')),
                 'a module is passed over by the walk loop only because it was already visited (%s)' % e.describe(), key='walk-skip:%s' % ('visited' if ok else e.describe()))
            R.obligations[-1]['function'] = ll.name
    R.floor('C20.MPT.4', 1)


def both_directions(P, R):
    dep = P.need_fn('module_depends')
    ap = [s for s in dep.calls('const_string_vector_append')]
    fwd = [s for s in ap if on_path(s.ev['args'][0], 'depends') and root_var(s.ev['args'][0]) is not None and root_var(s.ev['args'][0])['name'] == 'loading_module']
    rev = [s for s in ap if on_path(s.ev['args'][0], 'rdepends') and on_path(s.ev['args'][1], 'name')]
    R.ob('C20.MPT.3', len(fwd) == 1 and len(rev) == 1, ap[0] if ap else dep, 'a declared dependency is recorded as a forward and a reverse edge', key='edges')
    if fwd and rev:
        p1 = dep.path_avoiding(fwd[0], lambda t: t.key == rev[0].key, target=fwd[0].bid) if False else None
        same_block = fwd[0].bid == rev[0].bid or dep.path_avoiding(fwd[0], lambda t: t.key == rev[0].key) is None or dep.path_avoiding(rev[0], lambda t: t.key == fwd[0].key) is None
        R.ob('C20.MPT.3', same_block, fwd[0], 'both edges are recorded on the same paths of the loop body', key='edges-together')
        inloop = fwd[0].bid in dep.reach([e.dst for e in dep.out[fwd[0].bid]])
        R.ob('C20.MPT.3', inloop, fwd[0], 'the recording is repeated for every name of the list', key='edges-loop', nontrivial=False)
    R.floor('C20.MPT.3', 3)


def edge_forms(P, R, rule='C20.TAB.2'):
    """What the walk and the unload rounds read must be what the declarations wrote.  (a) Every function through which a
    module declares edges records each of them in a `depends` list (the post-init walk follows nothing else), and a
    reverse entry (A in B's rdepends) is only written next to its forward entry (B in A's depends) or for an element
    read out of A's depends.  (b) The mark the walk stores on a module is the very value its on-path test compares
    against.  (c) A loop over a module's edge list does not clear or shrink that list while it runs."""
    unit = P.need_fn('module_load_list').unit
    n = 0

    def ident(f, e, find=lambda x: x):
        """which module an expression denotes: the variable a vector hangs off, the variable whose ->name is taken,
        or the module looked up by a name variable"""
        if not isinstance(e, dict):
            return None
        for x in walk(e):
            if x.get('k') == 'mem' and x.get('field') in ('depends', 'rdepends', 'name') and is_var(x.get('base')):
                return x['base']['name']
        if is_var(e):
            nm = e['name']
            for s in f.sites():
                ev = s.ev
                val = ev.get('init') if ev['k'] == 'decl' else ev.get('rhs') if ev['k'] == 'store' and ev.get('op') == '=' else None
                tgt = ev.get('var') if ev['k'] == 'decl' else (ev['lhs']['name'] if ev['k'] == 'store' and is_var(ev.get('lhs')) else None)
                if tgt and isinstance(val, dict) and val.get('k') == 'callref' and any(is_var(y) and find(y['name']) == find(nm) for a in val.get('args', []) for y in walk(a)):
                    return tgt
        return None
    for f in P.unit_fns(unit):
        aps = [s for s in f.calls('const_string_vector_append') if len(s.ev['args']) == 2 and any(on_path(s.ev['args'][0], fl) for fl in ('depends', 'rdepends'))]
        if not aps:
            continue
        # variables that are plain copies of one another (a lookup folded back from a helper hands the module over
        # through its return value) denote one module
        parent = {}

        def find(x):
            while parent.get(x, x) != x:
                x = parent[x]
            return x
        for t in f.sites():
            ev = t.ev
            tg = ev.get('var') if ev['k'] == 'decl' else (ev['lhs']['name'] if ev['k'] == 'store' and is_var(ev.get('lhs')) and ev.get('op') == '=' else None)
            vl = ev.get('init') if ev['k'] == 'decl' else ev.get('rhs') if ev['k'] == 'store' else None
            if tg and is_var(vl):
                a, b = find(tg), find(vl['name'])
                if a != b:
                    parent[a] = b

        def ident2(e):
            x = ident(f, e, find)
            return find(x) if x is not None else None
        fw = [(ident2(s.ev['args'][0]), ident2(s.ev['args'][1]), s) for s in aps if on_path(s.ev['args'][0], 'depends')]
        rv = [(ident2(s.ev['args'][0]), ident2(s.ev['args'][1]), s) for s in aps if on_path(s.ev['args'][0], 'rdepends')]
        variadic = any(p.get('t', '').startswith('const char') for p in f.param_info) and any(s.ev.get('callee') in ('__builtin_va_start', 'va_start', '__builtin_va_arg') or 'va_' in (s.ev.get('callee') or '') for s in f.calls())
        declares = variadic or f.name in ('module_depends', 'module_antidepends')
        if declares:
            n += 1
            R.ob(rule, bool(fw), aps[0], '%s records every declared edge in a depends list' % f.name, key='edge-forward:%s' % f.name)
        if declares:
            # ... and every forward entry has its reverse entry on the same paths: the unload rounds read only the
            # reverse lists, and the walk in the list loader mirrors forward entries only for the modules it starts from
            for owner, val, s in fw:
                mates = [t for o2, v2, t in rv if o2 == val and v2 == owner]
                together = bool(mates) and (mates[0].bid == s.bid or f.path_avoiding(s, lambda t: t.key == mates[0].key) is None or f.path_avoiding(mates[0], lambda t: t.key == s.key) is None)
                n += 1
                R.ob(rule, together, s, 'in %s the forward entry (%s listed in %s\'s depends) is recorded together with its reverse entry (%s in %s\'s rdepends)' % (f.name, val, owner, owner, val),
                     key='edge-both:%s' % f.name)
        for owner, val, s in rv:
            paired = any(o2 == val and v2 == owner for o2, v2, _ in fw)
            # ... or the owner was looked up from an element of val's depends list
            derived = False
            for t in f.sites():
                ev = t.ev
                v0 = ev.get('init') if ev['k'] == 'decl' else ev.get('rhs') if ev['k'] == 'store' and ev.get('op') == '=' else None
                tgt = ev.get('var') if ev['k'] == 'decl' else (ev['lhs']['name'] if ev['k'] == 'store' and is_var(ev.get('lhs')) else None)
                if tgt == owner and isinstance(v0, dict) and any(x.get('k') == 'mem' and x.get('field') == 'depends' and is_var(x.get('base'), val) for x in walk(v0)):
                    derived = True
            n += 1
            R.ob(rule, paired or derived, s, 'in %s the reverse entry (%s listed in %s\'s rdepends) stands next to its forward entry or mirrors an element of %s\'s depends' % (f.name, val, owner, val),
                 key='edge-reverse:%s' % f.name)
    # (b) stored mark == compared mark
    dfs = P.need_fn('module_dfs')
    marks = [s for s in dfs.stores() if s.ev['k'] == 'store' and is_field(s.ev.get('lhs'), 'visited') and s.ev.get('op') == '=']
    cmps = []
    for b in dfs.blocks:
        for e in dfs.out[b]:
            r = e.rel()
            if r and is_field(r[0], 'visited') and r[1] == '==' and const_of(r[2]) is None:
                cmps.append(r)
    for s in marks:
        n += 1
        R.ob(rule, bool(cmps) and all(sx(s.ev.get('rhs')) == sx(r[2]) for r in cmps), s, 'the mark stored on a module (%s) is the value the on-path test compares with (%s)' % (sx(s.ev.get('rhs')), sorted({sx(r[2]) for r in cmps})),
             key='mark-is-stamp')
    # (c) no shrinking of the list being walked
    for f in P.unit_fns(unit):
        for b in f.blocks:
            c = f.term_cond(b)
            if c is None or b not in f.reach([e.dst for e in f.out[b]]):
                continue
            r = rel(c, True)
            if not (r and isinstance(r[2], dict) and r[2].get('k') == 'mem' and r[2].get('field') == 'used' and r[1] == '<'):
                continue
            vec = sx(r[2].get('base'))
            body = set()
            for e in f.out[b]:
                if e.label == 'true':
                    body = {x for x in f.reach([e.dst], cut_blocks={b}) if b in f.reach([x])}
            bad = [t for x in body for t in f.block_sites(x) if t.ev['k'] == 'call' and any(w in (t.ev.get('callee') or '') for w in ('_clear', '_remove'))
                   and t.ev['args'] and sx(t.ev['args'][0]).lstrip('&') == vec]
            n += 1
            R.ob(rule, not bad, bad[0] if bad else P.relloc((f.blocks[b].get('term') or {}).get('loc')) if (f.blocks[b].get('term') or {}).get('loc') else f,
                 'the loop of %s over %s does not clear or shrink that list while it walks it' % (f.name, vec), key='walk-stable:%s:%s' % (f.name, vec))
    # (d) removing a name from an edge list drops exactly the matching entries: inside the compacting scan the length
    # only steps down per dropped entry; it is not set from the write index while entries are still to be read
    for f in P.fns.values():
        if not f.name.endswith('_vector_remove') or f.unit.startswith('tests/'):
            continue
        for head, body in rules.loops_of(f):
            stepped = {t.ev['lhs']['name'] for x in body for t in f.block_sites(x) if t.ev['k'] == 'store' and is_var(t.ev.get('lhs')) and t.ev.get('op') in ('++', '+=')}
            stepped |= {y['e']['name'] for x in body for t in f.block_sites(x) for ex in rules.event_exprs(t.ev) for y in walk(ex) if y.get('k') == 'un' and y.get('op') == '++' and is_var(y.get('e'))}
            for x in body:
                for t in f.block_sites(x):
                    if t.ev['k'] == 'store' and is_field(t.ev.get('lhs'), 'used'):
                        n += 1
                        ok = t.ev.get('op') in ('--', '-=') or not (vars_in(t.ev.get('rhs')) & stepped)
                        R.ob(rule, ok, t, 'in %s the length steps down once per dropped entry inside the scan (found `%s %s %s`)' % (f.name, sx(t.ev['lhs']), t.ev.get('op'), sx(t.ev.get('rhs'))), key='remove-length:%s' % f.name)
    R.floor(rule, 6, 'edge records, the walk mark, list walks')


def unload(P, R):
    ca = P.need_fn('module_close_all')
    rems = [s for s in ca.calls('set_remove')]
    guarded = []
    def flag_guards(s):
        """guards of s, with a flag local tested right where it was computed (`ok = !a && !b; if (ok) ...`) replaced by
        the relations its value stands for"""
        out = list(ca.guards(s.bid))
        for e in ca.dominating_edges(s.bid):
            r = rules.edge_rel(e)
            if not (r and is_var(r[0]) and r[1] == '!=' and const_of(r[2]) == 0):
                continue
            defs = [t for t in ca.block_sites(e.src) if t.ev['k'] == 'store' and is_var(t.ev.get('lhs'), r[0]['name']) and t.ev.get('op') == '=']
            if not defs:
                continue
            work = [defs[-1].ev.get('rhs')]
            while work:
                x = work.pop()
                if isinstance(x, dict) and x.get('k') == 'bin' and x.get('op') == '&&':
                    work += [x.get('l'), x.get('r')]
                elif isinstance(x, dict):
                    from ..model import rel as _rel
                    rr = _rel(x, True)
                    if rr:
                        out.append(rr)
        return out
    for s in rems:
        gs = flag_guards(s)
        has_r = any(is_field(g[0], 'used') and on_path(g[0], 'rdepends') and g[1] == '==' and const_of(g[2]) == 0 for g in gs)
        has_b = any(is_field(g[0], 'is_backend') and g[1] == '==' and const_of(g[2]) == 0 for g in gs)
        if has_r or has_b:
            guarded.append(s)
            # (the back-end test only postpones providers to a later round; the order among dependents and their
            # dependencies rests on the reverse-list test alone, in every round)
            R.ob('C20.GRD.3', has_r, s, 'in the unload rounds a module is removed only when no loaded module depends on it%s' % (' (and, in this round, it is not a back-end)' if has_b else ''), key='unload-guard')
            prog = [t for t in ca.stores() if t.ev['k'] == 'store' and is_var(t.ev.get('lhs')) and const_of(t.ev.get('rhs')) == 1 and t.ev.get('op') == '=']
            p = ca.path_avoiding(s, lambda t: t in prog, target=None)
            # the flag must be set before the next iteration: every path from the removal to the loop test passes it
            nextit = [t for t in ca.stores() if t.ev['k'] == 'store' and is_var(t.ev.get('lhs')) and is_var(t.ev.get('rhs')) and t.bid in ca.reach([s.bid]) and t.ev['lhs']['name'] != t.ev['rhs']['name']]
            tgt = nextit[0].bid if nextit else None
            pp = ca.path_avoiding(s, lambda t: t in prog, target=tgt) if tgt is not None else p
            # (a round that exempts back-ends is only a first pass: whatever it leaves is unloaded, still in dependency
            # order, by the round without the exemption - that one has to run to completion)
            R.ob('C20.GRD.3', (bool(prog) and pp is None) or has_b, s, 'every removal %sflags progress, so the rounds continue until nothing more can be unloaded' % ('of the complete round ' if not has_b else ''), key='unload-progress', nontrivial=not has_b)
    R.ob('C20.GRD.3', len(guarded) >= 1, rems[0] if rems else ca, 'dependency-ordered rounds come first; the unconditional sweep only handles leftovers', key='unload-shape', nontrivial=False)
    # rounds precede the sweep
    sweep = [s for s in rems if s not in guarded]
    if guarded and sweep:
        R.ob('C20.GRD.3', all(g.bid not in ca.reach([e.dst for e in ca.out[s.bid]]) for g in guarded for s in sweep), sweep[0], 'the leftover sweep cannot run before the ordered rounds finish', key='sweep-after-rounds')
    # every module that takes part in the order is offered to a round: a round that skips a kind of module (back-ends) is
    # followed by one that does not, or what those modules depend on goes out in the sweep, in name order
    if guarded:
        def skips_backends(s):
            return any(is_field(g[0], 'is_backend') and g[1] == '==' and const_of(g[2]) == 0 for g in flag_guards(s))
        full = [s for s in guarded if not skips_backends(s)]
        part = [s for s in guarded if skips_backends(s)]
        R.ob('C20.GRD.3', bool(full) and all(p.bid not in ca.reach([e.dst for e in ca.out[f.bid]]) or f.bid == p.bid for p in part for f in full[-1:]), (part or guarded)[0],
             'back-end providers and what they depend on are unloaded in dependency order too: a round without the back-end exemption follows the rounds that have it', key='unload-backends')
    # the do-while continues while progress
    cl = P.need_fn('module_cleanup')
    rm = [s for s in cl.calls('const_string_vector_remove') if on_path(s.ev['args'][0], 'rdepends') and on_path(s.ev['args'][1], 'name')]
    inloop = bool(rm) and rm[0].bid in cl.reach([e.dst for e in cl.out[rm[0].bid]])
    R.ob('C20.GRD.3', bool(rm) and inloop, rm[0] if rm else cl, 'unloading a module removes it from the reverse list of each of its dependencies', key='cleanup-rdepends')
    # ... its OWN name: the entry removed from a dependency's reverse list is the module being unloaded, not the dependency
    for s in rm:
        own = [x['base']['name'] for x in walk(s.ev['args'][0]) if x.get('k') == 'mem' and x.get('field') == 'rdepends' and is_var(x.get('base'))]
        nm = [x['base']['name'] for x in walk(s.ev['args'][1]) if x.get('k') == 'mem' and x.get('field') == 'name' and is_var(x.get('base'))]
        R.ob('C20.GRD.3', bool(own) and bool(nm) and own[0] != nm[0], s, 'the name taken out of %s\'s reverse list is the unloading module\'s (%s), not %s\'s own' % (own[0] if own else '?', nm[0] if nm else '?', own[0] if own else '?'),
             key='cleanup-own-name')
    dt = dlsym_calls(P, cl, 'module_destructor')
    R.ob('C20.GRD.3', len(dt) == 1, dt[0] if dt else cl, 'the per-module cleanup calls the destructor', key='dtor-called', nontrivial=False)
    if dt and rm:
        R.ob('C20.GRD.3', cl.before(rm[0], dt[0]) or rm[0].bid not in cl.reach([dt[0].bid]), dt[0], 'the reverse edges are dropped before the destructor runs', key='dtor-order', nontrivial=False)
    R.floor('C20.GRD.3', 5)


def loading_context(P, R, rule='C20.MPT.5'):
    """Dependencies are booked on "the module being constructed".  module_load sets that context for the constructor
    call and puts the previous one back on every (non-fatal) way out - a module without a constructor included -
    otherwise the next module's declarations are booked on the wrong module."""
    ld = core.module_loader(P)
    ctx = None
    for s in ld.stores():
        if s.ev['k'] == 'store' and is_var(s.ev.get('lhs')) and s.ev['lhs'].get('sc') in ('file_static', 'global') and s.ev['lhs'].get('t', '').replace('const ', '').startswith('struct module'):
            ctx = s.ev['lhs']['name']
    if ctx is None:
        R.note('%s: module_load keeps no loading context; nothing to pair' % rule)
        return
    saves = {s.ev['lhs']['name'] if s.ev['k'] == 'store' else s.ev.get('var') for s in ld.sites()
             if ((s.ev['k'] == 'store' and is_var(s.ev.get('lhs')) and s.ev['lhs'].get('sc') == 'local' and is_var(s.ev.get('rhs'), ctx)) or (s.ev['k'] == 'decl' and is_var(s.ev.get('init') or {}, ctx)))}

    def final(e):
        while isinstance(e, dict) and e.get('k') == 'bin' and e.get('op') == '=':
            e = e['r']
        return e

    def on_event(st, t):
        if is_fatal(t):
            return None
        ev = t.ev
        if ev['k'] == 'store' and is_var(ev.get('lhs'), ctx) and ev.get('op') == '=':
            v = final(ev.get('rhs'))
            if is_var(v) and v['name'] in saves:
                return 'restored'
            return 'set'
        return st
    before, at_exit, _, _ = ld.forward('untouched', on_event, None)
    sets = [t for t in ld.stores() if t.ev['k'] == 'store' and is_var(t.ev.get('lhs'), ctx)]
    R.ob(rule, bool(saves) and 'set' not in at_exit, sets[0] if sets else ld, 'module_load restores the previous loading context on every non-fatal exit (exit states: %s)' % sorted(at_exit), key='context-restored')
    R.floor(rule, 1)


def one_key(P, R, rule='C20.MPT.7'):
    """"Constructed once" rests on the test "is a module of this name already loaded?" being asked about the very name
    that is then loaded: between the lookup that answers it and the call that makes (or finds) the module's record, the
    name is not replaced by another spelling - otherwise the record of a module that is already constructed comes back
    and its constructor runs again."""
    ld = core.module_loader(P)
    key = ld.params[0]
    looks = [s for s in ld.calls('set_find') if any(is_var(x, key) for a in s.ev['args'] for x in walk(a))]
    gets = [s for s in ld.calls('module_get') if s.ev['args'] and any(is_var(x, key) for x in walk(s.ev['args'][0]))]
    if not looks or not gets:
        raise AnalysisBroken('module_load no longer checks for and creates the record by the same parameter')
    writes = [t for t in ld.stores() if t.ev['k'] == 'store' and is_var(t.ev.get('lhs'), key)]
    R.ob(rule, not writes, writes[0] if writes else looks[0], 'the name looked up as "already loaded" is the name the record is created under (the parameter is not re-assigned in module_load)', key='one-key',
         detail=[t.loc for t in writes] or None)
    R.floor(rule, 1)


def no_dependent_loaded_from_constructor(P, R, rule='C20.MPT.8'):
    """"Its dependencies are fully constructed before it finishes constructing": a constructor may cause other modules to
    be loaded - but only modules it depends ON (module_depends: they finish first, then it goes on).  Loading a module
    that depends on the caller while the caller's constructor is still on the stack (module_antidepends on a module not
    loaded yet) lets that module, and whatever it pulls in that depends on the caller too, finish constructing before
    the caller has."""
    ld = core.module_loader(P)
    n = 0
    for c in P.callers(ld, may=True):
        f = c.fn
        if f.unit.startswith('tests/'):
            continue
        # does f record the loaded module as depending on the loading one?  (other->depends gets loading_module's name)
        makes_dependent = any(t.ev['k'] == 'call' and (t.ev.get('callee') or '').endswith('_append') and t.ev['args'] and
                              any(x.get('k') == 'mem' and x.get('field') == 'depends' for x in walk(t.ev['args'][0])) and
                              not any(is_var(x, 'loading_module') for x in walk(t.ev['args'][0])) for t in f.calls())
        n += 1
        R.ob(rule, not makes_dependent, c, '%s loads a module only to depend on it, never to make it a dependent of the module whose constructor is running' % f.name, key='load-from:%s' % f.name)
    R.floor(rule, 2, 'callers of the module loader')


def one_object_one_module(P, R, rule='C20.GRD.7'):
    """"Constructed once": modules are kept by the name they were asked for, but one shared object can be asked for under
    several names ("iauth", "./iauth", its full path) - dlopen() then hands back the handle it already gave out, and a
    second look-up of module_constructor in it runs the constructor again.  Between opening an object and looking up its
    constructor the loader compares the new handle with the handles of the modules it already has."""
    ld = core.module_loader(P)
    opens = [t for t in ld.stores() if t.ev['k'] == 'store' and is_field(t.ev.get('lhs'), 'handle') and any(x.get('k') == 'callref' for x in walk(t.ev.get('rhs') or {}))]
    ctor = [t for t in ld.calls('dlsym') if len(t.ev['args']) > 1 and t.ev['args'][1].get('k') == 'str' and t.ev['args'][1].get('v') == 'module_constructor']
    if not opens or not ctor:
        raise AnalysisBroken('module_load no longer opens the object and looks up its constructor')

    def compares_handles(bid):
        c = ld.term_cond(bid)
        if c is None:
            return False
        for x in walk(c):
            if isinstance(x, dict) and x.get('k') == 'bin' and x.get('op') in ('==', '!='):
                l, r_ = x.get('l'), x.get('r')
                if is_field(l, 'handle') and is_field(r_, 'handle') and sx(l) != sx(r_):
                    return True
        return False
    cmp_blocks = {b for b in ld.reachable_blocks() if compares_handles(b)}
    # the comparison sits in a walk over the modules already there: every path from the open to the look-up passes the
    # head of that walk (which may find nothing to compare with)
    heads = {h for h, body in rules.loops_of(ld) if (set(body) | {h}) & cmp_blocks}
    for o in opens:
        seen = ld.reach([e.dst for e in ld.out[o.bid]], cut_blocks=heads)
        through = ctor[0].bid in seen and ctor[0].bid not in heads
        R.ob(rule, bool(heads) and not through, o, 'between opening an object and looking up its constructor the loader compares its handle with those of the modules already loaded', key='same-object')
    R.floor(rule, 1, 'objects opened by the module loader')


def loader_details(P, R):
    """Three facts the order of construction and post-initialisation rests on."""
    # (TAB.3) a module is opened with lazy binding and global symbols: what it calls in the modules it depends on is
    # resolved when first used - those modules are loaded by its constructor, after the dlopen() - and what it exports is
    # visible to the modules that depend on it
    n = 0
    for f in P.unit_fns(core.module_loader(P).unit):
        for s in f.calls('dlopen'):
            a = s.ev['args']
            if len(a) < 2 or const_of(a[0]) == 0:
                continue
            fl = const_of(a[1])
            if fl is None and is_var(a[1]):
                sd = f.single_def(a[1]['name'])
                fl = const_of(sd[1]) if sd else None
            n += 1
            R.ob('C20.TAB.3', isinstance(fl, int) and (fl & 1) and not (fl & 2) and (fl & 0x100), s,
                 'modules are opened with lazy binding and global symbols (flags %s; RTLD_LAZY=1, RTLD_NOW=2, RTLD_GLOBAL=0x100)' % (hex(fl) if isinstance(fl, int) else sx(a[1])), key='dlopen-flags:%s' % f.name)
    R.floor('C20.TAB.3', 2, 'dlopen calls of the loader')
    # (WIRE.4) the configured list is handed to the loader as a whole, once: the post-initialisation walk that follows the
    # loading sees every module and every edge - also the edges a module listed later declares against one listed earlier
    ll = P.need_fn('module_load_list')
    calls = [c for c in P.callers(ll, may=True) if not c.fn.unit.startswith('tests/')]
    for c in calls:
        f = c.fn
        in_loop = c.bid in f.reach([e.dst for e in f.out[c.bid]])
        a = c.ev['args'][0] if c.ev['args'] else None
        rv = root_var(a) if a is not None else None
        if rv is not None and rv.get('sc') == 'local' and is_var(a):
            sd = f.single_def(a['name'])        # `list = &conf.modules->value; ... module_load_list(list)`
            rv = root_var(sd[1]) if sd and isinstance(sd[1], dict) else rv
        whole = rv is not None and rv.get('sc') not in ('local', 'param')
        R.ob('C20.WIRE.4', len(calls) == 1 and not in_loop and whole, c, 'the configured module list is handed to the loader once, as a whole (%s%s)' % (sx(a), ', inside a loop' if in_loop else ''), key='load-list-once')
    R.floor('C20.WIRE.4', 1, 'calls of the list loader')
    # (GRD.6) "is a back-end" is a count of declarations, used as a truth value: it is only ever tested against zero
    m = 0
    for f in P.unit_fns(core.module_loader(P).unit):
        for bid in f.reachable_blocks():
            for e in f.out[bid]:
                r = rules.edge_rel(e)
                if r and e.label == 'true' and any(isinstance(x, dict) and x.get('k') == 'mem' and x.get('field') == 'is_backend' for side in (r[0], r[2]) if isinstance(side, dict) for x in walk(side)):
                    m += 1
                    ok = is_field(r[0], 'is_backend') and const_of(r[2]) == 0 and r[1] in ('==', '!=', '>')
                    R.ob('C20.GRD.6', ok, P.relloc((f.blocks[bid].get('term') or {}).get('loc', '?')), 'the back-end count is tested as a truth value (%s)' % rel_str_((r[0], r[1], r[2])), key='backend-truth:%s' % f.name)
                    R.obligations[-1]['function'] = f.name
    R.floor('C20.GRD.6', 1, 'tests of the back-end count')


def rel_str_(r):
    return '%s %s %s' % (sx(r[0]), r[1], sx(r[2]))


def names_nonempty(P, R, rule='C20.GRD.5'):
    """"Constructed once": the loader falls back to handing the bare module name to dlopen(), and dlopen("") is not a
    failure - it returns the main program, whose global scope already holds the constructors of every loaded module,
    so one of them runs a second time.  Wherever a name that is not part of a formatted path reaches dlopen(), it is
    known to be non-empty: by a test in the same function, or at every call of that function."""
    un = core.module_loader(P).unit
    n = 0

    def nonempty_known(f, site, a):
        return any(rules.guard_says_nonempty(g, a) for g in f.guards(site.bid))
    for f in P.unit_fns(un):
        for s in f.calls('dlopen'):
            a = s.ev['args'][0] if s.ev['args'] else None
            if not (is_var(a) and a['name'] in f.params):
                continue            # a formatted path (never empty), or the program itself (NULL)
            ok = nonempty_known(f, s, a)
            if not ok:
                pi = f.params.index(a['name'])
                callers = P.callers(f, may=True)
                ok = bool(callers) and all(pi < len(c.ev['args']) and (nonempty_known(c.fn, c, c.ev['args'][pi]) or (isinstance(c.ev['args'][pi], dict) and c.ev['args'][pi].get('k') == 'str' and c.ev['args'][pi].get('v'))) for c in callers)
            n += 1
            R.ob(rule, ok, s, 'the bare name handed to dlopen() in %s is known to be non-empty' % f.name, key='dlopen-name:%s' % f.name)
    R.floor(rule, 1, 'dlopen calls on a bare name')


def reverse_list_removal(P, R, rule='C20.TAB.1'):
    """Unloading removes the module from each dependency's reverse list with an in-place filter: the entry that is
    tested against the name is the entry that is read and kept (same index as the source of the copy), not the slot
    being written - otherwise entries after the first match are dropped and a dependency unloads too early."""
    mc = P.need_fn('module_cleanup')
    n = 0
    for c in mc.calls():
        if not any(on_path(a, 'rdepends') for a in c.ev['args']):
            continue
        for g in P.callees(c, False):
            for s in g.stores():
                ev = s.ev
                lhs, rhs = ev.get('lhs') or {}, ev.get('rhs') or {}
                if ev['k'] != 'store' or lhs.get('k') != 'idx' or rhs.get('k') != 'idx' or not same(lhs['base'], rhs['base']):
                    continue
                wv, rv_ = set(vars_in(lhs['index'])), set(vars_in(rhs['index']))
                if len(wv) != 1 or len(rv_) != 1 or wv == rv_:
                    continue
                r = list(rv_)[0]
                loop = {b for b in g.reach([s.bid]) if s.bid in g.reach([b])}
                for t in g.sites():
                    if t.bid not in loop or t.key == s.key:
                        continue
                    for ex in rules.event_exprs(t.ev):
                        for x in walk(ex):
                            if x.get('k') == 'idx' and same(x['base'], rhs['base']) and t.ev['k'] == 'call':
                                n += 1
                                R.ob(rule, set(vars_in(x['index'])) == {r}, t, '%s: the entry compared with the name to remove (%s) is the one being read (%s), not the write slot' % (g.name, sx(x), sx(rhs)), key='filter-index:%s' % g.name)
    # every entry equal to the name goes (a dependency recorded twice - by the declaration and again by the walk that
    # starts at its dependent - is otherwise still "depended on" after its last dependent is gone): the scan that compares
    # entries with the name is left only at the end of the list, whatever way the entries are then closed up
    for c in mc.calls():
        if not any(on_path(a, 'rdepends') for a in c.ev['args']):
            continue
        for g in P.callees(c, False):
            def head(cnd):
                from ..model import rel as _rel
                r = _rel(cnd, True) if cnd is not None else None
                return bool(r) and r[1] == '<' and (on_path(r[2], 'used') or is_var(r[2]))
            cmp_loops = 0
            for hd, body in rules.loops_of(g):
                if not head(g.term_cond(hd)):
                    continue
                compares = any(t.ev['k'] == 'call' and t.ev.get('callee') in ('strcasecmp', 'strcmp') for x in body for t in g.block_sites(x)) or \
                    any(isinstance(y, dict) and y.get('k') == 'callref' and y.get('callee') in ('strcasecmp', 'strcmp') for x in body | {hd} for y in (walk(g.term_cond(x)) if g.term_cond(x) is not None else ()))
                if not compares:
                    continue
                cmp_loops += 1
                exits = [e for x in body for e in g.out[x] if e.dst not in body and e.dst != hd]
                n += 1
                R.ob(rule, not exits, g, '%s compares every entry of the list with the name: the scan is left only at the end of the list%s' % (g.name, '' if not exits else ' (it stops at %s)' % exits[0].describe()), key='remove-all:%s' % g.name)
    R.floor(rule, 1, 'reverse-dependency removal filter')


def run(P, R, tier):
    ld = construct_once(P, R)
    failures(P, R, ld)
    post_init(P, R)
    walk_starts(P, R)
    both_directions(P, R)
    unload(P, R)
    reverse_list_removal(P, R)
    names_nonempty(P, R)
    loader_details(P, R)
    one_object_one_module(P, R)
    no_dependent_loaded_from_constructor(P, R)
    one_key(P, R)
    loading_context(P, R)
    edge_forms(P, R)
    # every module of the registry is looked at when the walks are started: one that is already visited is skipped
    ll = P.need_fn('module_load_list')
    nt = rules.full_traversal(P, R, 'C20.MPT.6', ll, lambda c: any(is_var(x) and x.get('t', '').startswith('struct set_node') for x in walk(c)), 'walk over the module registry', error_returns=True)
    R.floor('C20.MPT.6', 2, 'registry walks of the list loader')
    # the walk stamp stored on a module is not truncated (a 2-bit field aliases pass 5 with pass 1)
    rules.narrowing_fields(P, R, 'C20.WID.1', ('src/module.c',))
    rules.counter_widths(P, R, 'C20.WID.2', recs=('module',))
    # a module is found again (and unloaded in order) by its name: the registry keeps its own copy of it
    rules.param_string_escapes(P, R, 'C20.OWN.9', ('src/module.c',))
    return EXPLANATION, ASSUMPTIONS
