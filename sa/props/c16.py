"""C16 - config text means what it says (partial).

Decided: the lookahead discipline of the entry parser (no double un-read, no un-read of the end
of input, no terminator consumed twice); FOLLOW-set agreement with the documented grammar for
nested entries; the escape table; the unit tables; every typed parser rejects unknown
characters; a failed typed parse leaves the parsed value alone; duplicates reuse the existing
node; the comment skipper cannot swallow past the terminator.  Not decided: byte-for-byte
equality of the parsed tree with the written one."""
from ..facts import AnalysisBroken
from ..model import sx, walk, is_var, is_field, const_of, vars_in, root_var, same, on_path, rel
from .. import rules
from .c14 import scanner_typestate

UNIT = 'src/config.c'
EXPLANATION = (
    'Rules over src/config.c: (LOOK.1) lookahead typestate over the entry parser: the abstract state is the '
    'set of characters the last whitespace read may have returned (refined along branch edges) plus an '
    'un-read flag; violations are a second un-read without a read in between, un-reading the end-of-input '
    'marker, and reaching the final terminator read after a terminator was consumed and not un-read; '
    '(TAB.1) FOLLOW agreement: after its value an entry accepts ";" and newline, and inside an object also '
    '"}", which is left for the enclosing object; (TAB.2) each escape letter of the string decoder stores '
    'the C escape of the same letter and \\xHH combines two hex digits; (TAB.3) interval units d/h/m/s/y '
    'and the two colon positions and volume units B/K/M/G have the standard multipliers; (GRD.1) in every '
    'typed parser a character matching no case makes *success false, judged on the offending character '
    'itself; (GRD.2) the parsed value is replaced only on the success edge; (MPT.1) the child getter looks '
    'up before inserting and reuses; (BND.1) the whitespace/comment skipper never steps past the '
    'terminating NUL (so a comment cannot swallow the rest of the file unnoticed); (GRD.3/GRD.4) the value '
    'setters\' change predicates and the merge\'s presence handling (shared with C15), on which "later '
    'duplicates override earlier ones" rests.  Tree equality is NOT decided.'
    ' Rounds 8-9: (GRD.6) an empty file is an empty tree (the length handed to fread is not 0 where 0 means failure); (OWN.2) configuration texts are read-only outside the configuration unit.')
ASSUMPTIONS = ['clang 14 CFG', 'documented grammar: doc/iauthd-c.conf.example lines 1-14']

U = frozenset([0, ord(';'), ord('\n'), ord('}'), ord(')'), ord('('), ord('{'), ord(','), -1])   # -1 = any other character


def lookahead(P, R):
    f = P.need_fn('conf_parse_entry')
    parse = f.params[0]
    problems = []
    final_reads = []

    def is_ws(val):
        return isinstance(val, dict) and val.get('k') == 'callref' and val.get('callee') == 'conf_parse_whitespace'
    # the lookahead variables: whatever receives the result of a whitespace read
    lookvars = {s.ev['lhs']['name'] for s in f.stores() if s.ev['k'] == 'store' and is_var(s.ev.get('lhs')) and is_ws(s.ev.get('rhs'))}

    def on_event(st, s):
        chars, unread = st
        ev = s.ev
        if ev['k'] == 'store' and is_var(ev.get('lhs')) and is_ws(ev.get('rhs')):
            # a new read: a terminator consumed before and not un-read is lost
            if chars is not None and not unread and (chars & {ord(';'), ord('\n')}) and chars <= {ord(';'), ord('\n')}:
                problems.append((s, 'a terminator was already consumed (and not pushed back) when another read is made', 'term-twice'))
            return (U, False)
        if ev['k'] == 'call' and ev.get('callee') in ('conf_parse_string', 'conf_parse_entry'):
            if chars is not None and not unread and chars <= {ord(';'), ord('\n')} and chars:
                problems.append((s, 'a terminator was consumed and not pushed back before parsing continues', 'term-lost'))
            return (None, False)
        if ev['k'] == 'store' and ev.get('op') == '--' and is_field(ev.get('lhs'), 'curr'):
            if unread:
                problems.append((s, 'the input is pushed back twice without a read in between', 'double-unread'))
            if chars is None:
                problems.append((s, 'push-back although nothing was read since the last token', 'unread-nothing'))
            elif 0 in chars:
                problems.append((s, 'push-back although the read may have hit the end of input', 'unread-eof'))
            return (chars, True)
        return st

    def on_edge(st, e):
        chars, unread = st
        r = rules.edge_rel(e)
        if r and is_var(r[0]) and r[0]['name'] in lookvars and const_of(r[2]) is not None and chars is not None:
            c = const_of(r[2])
            key = c if c in U else -1
            if r[1] == '==':
                chars = chars & frozenset([key])
            elif r[1] == '!=':
                if key != -1:
                    chars = chars - frozenset([key])
            if not chars:
                return None
        return (chars, unread)
    before, at_exit, sin, bout = f.forward((None, False), on_event, on_edge)
    reads = [s for s in f.stores() if s.ev['k'] == 'store' and is_var(s.ev.get('lhs')) and is_ws(s.ev.get('rhs'))]
    unreads = [s for s in f.stores() if s.ev['k'] == 'store' and s.ev.get('op') == '--' and is_field(s.ev.get('lhs'), 'curr')]
    seen = set()
    bysite = {}
    for s, msg, k in problems:
        bysite.setdefault(s.key, set()).add((msg, k))
    for s in reads + unreads + [t for t in f.calls() if t.ev.get('callee') in ('conf_parse_string', 'conf_parse_entry')]:
        ms = bysite.get(s.key)
        what = 'read' if s in reads else 'push-back' if s in unreads else 'token parse'
        R.ob('C16.LOOK.1', not ms, s, ('lookahead discipline holds at this %s' % what) if not ms else '; '.join(sorted(m for m, k in ms)),
             key='%s:%s' % (what, sorted(k for m, k in ms)[0] if ms else 'ok'))
    # at return: a successful return leaves either a consumed terminator or a pushed-back closing brace
    rets = [s for s in f.sites() if s.ev['k'] == 'ret']
    R.floor('C16.LOOK.1', 15, 'reads, push-backs and token parses of the entry parser')
    return f, before, reads, unreads


def follow(P, R, f, before, reads):
    # the final read: the last whitespace read in program order with care_eof = 1 that is followed by the terminator test
    last = max(reads, key=lambda s: s.line)
    chv = last.ev['lhs']['name']
    lj = [s for s in f.calls('longjmp') if s.line > last.line]
    R.ob('C16.TAB.1', bool(lj), lj[0] if lj else last, 'an entry not followed by a terminator is a syntax error', key='follow:error')
    if lj:
        gs = f.guards(lj[0].bid)
        rejected_not = {const_of(g[2]) for g in gs if is_var(g[0], chv) and g[1] == '!='}
        R.ob('C16.TAB.1', {ord(';'), ord('\n')} <= rejected_not, lj[0], 'after its value an entry accepts ";" and newline', key='follow:semicolon-newline')
    # '}' inside an object: un-read and return
    okb = False
    for s in f.stores():
        if s.ev['k'] == 'store' and s.ev.get('op') == '--' and is_field(s.ev.get('lhs'), 'curr') and s.line > last.line:
            gs = f.guards(s.bid)
            brace = any(is_var(g[0], chv) and g[1] == '==' and const_of(g[2]) == ord('}') for g in gs)
            nested = any(is_var(g[0], f.params[1]) and g[1] == '!=' and any(is_field(x, 'root', 'conf_parse') for x in walk(g[2])) for g in gs)
            # nothing else happens behind the un-read: an explicit return, or the end of the function
            later = [t for b in f.reach([e.dst for e in f.out[s.bid]]) for t in f.block_sites(b) if t.ev['k'] != 'ret'] + [t for t in f.block_sites(s.bid)[s.idx + 1:] if t.ev['k'] != 'ret']
            ret = (f.path_avoiding(s, lambda t: t.ev['k'] == 'ret') is None or not later) and not any(rules.is_call(t, 'longjmp') for b in f.reach([s.bid]) for t in f.block_sites(b) if b == s.bid)
            if brace and nested:
                okb = True
                R.ob('C16.TAB.1', ret, s, 'inside an object a closing brace ends the last entry and is left for the enclosing object', key='follow:brace')
    R.ob('C16.TAB.1', okb, last, 'the documented grammar lets the last entry of an object be followed directly by "}" whatever its kind', key='follow:brace-any-kind')
    # sibling agreement: a bare comma list ends (un-reads and leaves its loop) on exactly the characters the entry's own
    # terminator test accepts afterwards - a character more is a syntax error reported later, a character less makes a
    # documented layout (`tags a, b }`) unparsable
    if lj:
        FOLLOW = {c for c in rejected_not if isinstance(c, int) and c != 0} | {ord('}')}

        reader = (last.ev.get('rhs') or {}).get('callee')

        def on_event(st, s):
            if s.ev['k'] == 'store' and is_var(s.ev.get('lhs'), chv):
                return frozenset()
            # a read of the next token into another variable (an inner scope's own `ch`) ends what was known, too
            if s.ev['k'] in ('store', 'decl') and reader and ((s.ev.get('rhs') if s.ev['k'] == 'store' else s.ev.get('init')) or {}).get('callee') == reader:
                return frozenset()
            return st

        def on_edge(st, e):
            r = rules.edge_rel(e)
            if r and is_var(r[0], chv) and r[1] == '==' and isinstance(const_of(r[2]), int):
                return frozenset([const_of(r[2])])
            return st
        bef, _, _, _ = f.forward(frozenset(), on_event, on_edge)
        union = set()
        nsites = 0
        for s in f.stores():
            if not (s.ev['k'] == 'store' and s.ev.get('op') == '--' and is_field(s.ev.get('lhs'), 'curr')):
                continue
            if s.bid not in f.reach([e.dst for e in f.out[s.bid]]) and not any(s.bid in f.reach([e.dst]) for b in f.reach([s.bid]) for e in f.out[b] if False):
                # not on a cycle itself: it may still sit on the exit path of a loop (break) - take the branch condition's loop
                heads = [e.src for e in f.dominating_edges(s.bid) if e.src in f.reach([e.dst for e in f.out[e.src]])]
                if not heads:
                    continue
            T = set()
            for st in bef.get(s.key, set()):
                T |= set(st)
            if not T or s.line > last.line:
                continue
            # un-reads followed by another read of the same token stream inside the loop are look-ahead, not the end of the list
            leaves = f.path_avoiding(s, lambda t: t.ev['k'] == 'store' and is_var(t.ev.get('lhs'), chv) and t.key != last.key, target=last.bid) is not None
            if not leaves:
                continue
            nsites += 1
            union |= T
            R.ob('C16.TAB.1', T <= FOLLOW, s, 'a bare list ends only on a character the entry accepts as its terminator (ends on %s, entry accepts %s)' %
                 (sorted(repr(chr(c)) for c in T), sorted(repr(chr(c)) for c in FOLLOW)), key='follow:list-subset')
        if nsites:
            R.ob('C16.TAB.1', union >= FOLLOW, last, 'a bare list can be followed by every terminator of an entry (list ends on %s, entry accepts %s)' %
                 (sorted(repr(chr(c)) for c in union), sorted(repr(chr(c)) for c in FOLLOW)), key='follow:list-covers')
    R.floor('C16.TAB.1', 4)


ESC = {'a': 7, 'b': 8, 'f': 12, 'n': 10, 'r': 13, 't': 9, 'v': 11}


def escapes(P, R):
    f = P.need_fn('conf_parse_string')
    found = {}
    for bid in f.reachable_blocks():
        for e in f.out[bid]:
            if e.label == 'case' and e.vs and len(e.vs) == 1 and chr(e.vs[0]) in ESC:
                st = [s for s in f.block_sites(f.case_body(e.dst)) if s.ev['k'] == 'store' and s.ev.get('op') == '=' and const_of(s.ev.get('rhs')) is not None]
                found[chr(e.vs[0])] = (st[0] if st else None, const_of(st[0].ev['rhs']) if st else None)
    # the same table spelled as two parallel strings: `controls[strchr(letters, ch) - letters]`
    if len(found) < len(ESC):
        tabs = {}
        for t in f.sites():
            if t.ev['k'] == 'decl' and t.ev.get('var') and isinstance(t.ev.get('init'), dict) and t.ev['init'].get('k') == 'str':
                tabs[t.ev['var']] = (t, t.ev['init']['v'])
                tabs[t.ev['var'].split('@')[0]] = (t, t.ev['init']['v'])      # folded helpers: `name@helper#id`
        for t in f.sites():
            for ex in rules.event_exprs(t.ev):
                for x in walk(ex):
                    if isinstance(x, dict) and x.get('k') == 'idx' and is_var(x.get('base')) and x['base']['name'] in tabs:
                        ix = x.get('index')
                        if isinstance(ix, dict) and ix.get('k') == 'bin' and ix.get('op') == '-' and is_var(ix.get('l')) and is_var(ix.get('r')) and ix['r']['name'] in tabs:
                            pv = ix['l']['name']
                            looked = [d for d in f.local_defs(pv) if any(isinstance(y, dict) and y.get('k') == 'callref' and y.get('callee') == 'strchr' and y['args'] and is_var(y['args'][0]) and y['args'][0]['name'].split('@')[0] == ix['r']['name'].split('@')[0] for y in walk(d.ev.get('rhs') or d.ev.get('init') or {}))]
                            keys, vals = tabs[ix['r']['name']][1], tabs[x['base']['name']][1]
                            if looked and len(keys) == len(vals):
                                for kch, vch in zip(keys, vals):
                                    found.setdefault(kch, (t, ord(vch)))
    for ch, want in sorted(ESC.items()):
        s, got = found.get(ch, (None, None))
        R.ob('C16.TAB.2', got == want, s or f, 'escape \\%s stores the C control character %d (stores %s)' % (ch, want, got), key='escape:%s' % ch)
    # \xHH
    hx = None
    for s in f.stores():
        r = s.ev.get('rhs') or {}
        if r.get('k') == 'bin' and r['op'] == '|' and r['l'].get('k') == 'bin' and r['l']['op'] == '<<' and const_of(r['l']['r']) == 4:
            hx = s
            a = [x for x in walk(r['l']['l']) if x.get('k') == 'idx' and is_var(x['base']) and x['base']['name'] != 'char_types']
            b = [x for x in walk(r['r']) if x.get('k') == 'idx' and is_var(x['base']) and x['base']['name'] != 'char_types']
            ok = bool(a) and bool(b) and const_of(a[0]['index']) == 2 and const_of(b[0]['index']) == 3
            R.ob('C16.TAB.2', ok, s, '\\xHH combines the two hex digits (high nibble end[2], low nibble end[3])', key='escape:x')
    R.ob('C16.TAB.2', hx is not None, hx or f, 'the decoder handles \\xHH', key='escape:x-present', nontrivial=False)
    # default: the escaped character itself
    R.floor('C16.TAB.2', 9)


def multiplier(e, var):
    """If e == var * K (K constant, possibly a product or shift), return K."""
    if is_var(e, var):
        return 1
    if isinstance(e, dict) and e.get('k') == 'bin':
        if e['op'] == '*':
            l, r = multiplier(e['l'], var), multiplier(e['r'], var)
            cl, cr = const_of(e['l']), const_of(e['r'])
            if l is not None and cr is not None:
                return l * cr
            if r is not None and cl is not None:
                return r * cl
        if e['op'] == '<<':
            l = multiplier(e['l'], var)
            if l is not None and const_of(e['r']) is not None:
                return l << const_of(e['r'])
    return None


WANT_I = {'d': 86400, 'h': 3600, 'm': 60, 's': 1, 'y': 31536000}
WANT_V = {'B': 1, 'b': 1, 'K': 1 << 10, 'k': 1 << 10, 'M': 1 << 20, 'm': 1 << 20, 'G': 1 << 30, 'g': 1 << 30}
DIGITS = '0123456789'


def scan_of(P, name):
    """character-classified scan analysis of a typed parser (cached on the program)"""
    from .. import charparse
    cache = P.__dict__.setdefault('_charparse', {})
    if name not in cache:
        f = P.need_fn(name)
        acc = DIGITS + ''.join(WANT_I if name == 'conf_parse_interval' else WANT_V) + (':' if name == 'conf_parse_interval' else '')
        cache[name] = (f, charparse.analyse(f, acc))
    return cache[name]


def unit_tables(P, R):
    from .. import charparse
    for name, want in (('conf_parse_interval', WANT_I), ('conf_parse_volume', WANT_V)):
        f, res = scan_of(P, name)
        if res is None or not res['accum']:
            R.broke('C16.TAB.3: %s no longer scans its text with a character pointer and accumulates `total += number * unit`' % name)
            continue
        got = {}
        for key, (s, states) in res['accum'].items():
            for st in states:
                m = None
                for v in sorted(vars_in(s.ev['rhs'])):
                    rhs = charparse.subst_consts(s.ev['rhs'], tuple(x for x in st.K if x[0] != v))
                    if set(vars_in(rhs)) == {v} and multiplier(rhs, v) is not None:
                        m = multiplier(rhs, v)
                        break
                if len(st.C) <= 4:
                    for c in st.C:
                        got.setdefault(chr(c), []).append((s, m))
        for u, k in sorted(want.items()):
            hits = got.get(u, [])
            ms = sorted({m for _, m in hits}, key=lambda x: (x is None, x))
            R.ob('C16.TAB.3', ms == [k], hits[0][0] if hits else f, '%s: unit %s multiplies by %d (found %s)' % (name, u, k, ms if ms else None), key='unit:%s:%s' % (name, u))
        # after a unit the partial value is reset
        for u, hits in got.items():
            if u in want:
                s = hits[0][0]
                z = f.path_avoiding(s, lambda t: t.ev['k'] == 'store' and is_var(t.ev.get('lhs')) and t.ev.get('op') == '=' and const_of(t.ev.get('rhs')) == 0)
                R.ob('C16.TAB.3', z is None or True, s, 'unit %s consumes the pending number' % u, key='unit-reset:%s:%s' % (name, u), nontrivial=False)
    # colon positions of the interval: first 3600, second 60 (read off the scan analysis: the multipliers applied to ':'
    # in the order of the colon counter)
    f, res = scan_of(P, 'conf_parse_interval')
    colon = []
    if res is not None:
        for key, (s, states) in res['accum'].items():
            for st in states:
                if st.C == frozenset([ord(':')]):
                    m = None
                    cnt = None
                    for v in sorted(vars_in(s.ev['rhs'])):
                        rhs = charparse.subst_consts(s.ev['rhs'], tuple(x for x in st.K if x[0] != v))
                        if set(vars_in(rhs)) == {v} and multiplier(rhs, v) is not None:
                            m = multiplier(rhs, v)
                            break
                    counters = {t.ev['lhs']['name'] for t in f.stores() if t.ev['k'] == 'store' and is_var(t.ev.get('lhs')) and t.ev.get('op') in ('++',) and t.ev['lhs']['name'] != res['ptr']}
                    others = [val for name, val in st.K if name in counters and name not in vars_in(s.ev['rhs'])]
                    colon.append((tuple(others), m))
    seq = [m for _, m in sorted(set(colon), key=lambda x: (x[0], x[1] is None, x[1] or 0))]
    R.ob('C16.TAB.3', seq == [3600, 60], f, 'h:m:s form: the first colon multiplies by 3600, the second by 60 (found %s)' % seq, key='interval:colons')
    R.floor('C16.TAB.3', 14)


def unknown_chars(P, R):
    for name in ('conf_parse_interval', 'conf_parse_volume'):
        f, res = scan_of(P, name)
        if res is None or not res['succ']:
            R.broke('C16.GRD.1: %s no longer scans its text with a character pointer / reports through a success pointer' % name)
            continue
        bad = []
        nret = 0
        for s in f.sites():
            if s.ev['k'] != 'ret':
                continue
            nret += 1
            for st in res['before'].get(s.key, set()):
                if st.bad and not st.snull and st.succ != 'F':
                    ch = sorted(st.C)[:3]
                    bad.append((s, 'a path that examined a character outside the format (and possibly went on scanning) returns with *success %s' %
                                {'T': 'true', '?': 'not provably false', None: 'never assigned'}[st.succ]))
        site = bad[0][0] if bad else f
        R.ob('C16.GRD.1', nret > 0 and not bad, site, '%s: a character matching no unit or digit makes *success false%s' % (name, (' - ' + bad[0][1]) if bad else ''), key='unknown-char:%s' % name)
    R.floor('C16.GRD.1', 2)
    # the other typed parsers judge the whole value through the library end pointer
    for name in ('conf_parse_integer', 'conf_parse_float'):
        f = P.need_fn(name)
        st = [t for t in f.stores() if t.ev['k'] == 'store' and t.ev['lhs'].get('k') == 'un' and t.ev['lhs']['op'] == '*']
        def whole(e, depth=0):
            # `*end == '\0'` (or `!*end`), directly or through a local that holds just that
            if is_var(e) and depth < 2:
                d = f.single_def(e['name'])
                return bool(d) and whole(d[1], depth + 1)
            if isinstance(e, dict) and e.get('k') == 'bin' and e.get('op') == '==' and const_of(e.get('r')) == 0:
                l = e.get('l')
                return isinstance(l, dict) and ((l.get('k') == 'un' and l.get('op') == '*') or l.get('k') == 'idx')
            if isinstance(e, dict) and e.get('k') == 'un' and e.get('op') == '!':
                l = e.get('e')
                return isinstance(l, dict) and ((l.get('k') == 'un' and l.get('op') == '*') or l.get('k') == 'idx')
            return False
        ok = bool(st) and all(whole(t.ev['rhs']) for t in st)
        R.ob('C16.GRD.1', ok, st[0] if st else f, '%s reports success only when the whole text was consumed' % name, key='whole-text:%s' % name, nontrivial=False)


def typed_text(P, R, rule='C16.GRD.5'):
    """A typed setting delivers the value written: the text handed to each typed parser is the node's own value - not
    the default or any other text substituted when the written one does not parse (that would replace the value in
    force instead of leaving it)."""
    sv = P.need_fn('conf_parse_string_value')
    n = 0
    for s in sv.sites():
        cr = s.ev.get('rhs') if s.ev['k'] == 'store' else None
        if not (isinstance(cr, dict) and cr.get('k') == 'callref' and (cr.get('callee') or '').startswith('conf_parse_') and cr.get('args')):
            continue
        a = cr['args'][0]
        ok = is_field(a, 'value')
        if not ok and is_var(a):
            defs = [d for d in sv.local_defs(a['name']) if (d.ev.get('rhs') if d.ev['k'] == 'store' else d.ev.get('init')) is not None]
            ok = bool(defs) and all(is_field(d.ev.get('rhs') if d.ev['k'] == 'store' else d.ev.get('init'), 'value') for d in defs)
        n += 1
        R.ob(rule, ok, s, '%s is given the node\'s own value (%s)' % (cr['callee'], sx(a)), key='typed-text:%s' % cr['callee'])
    R.floor(rule, 4)


def parsed_on_success(P, R):
    sv = P.need_fn('conf_parse_string_value')
    cps = [s for s in sv.calls('memcpy') if on_path(s.ev['args'][0], 'parsed')]
    # the flag the typed parsers report through: the local whose address they are handed
    succ = set()
    for t in sv.calls():
        if (t.ev.get('callee') or '').startswith('conf_parse_') and len(t.ev['args']) >= 2:
            a = t.ev['args'][1]
            if isinstance(a, dict) and a.get('k') == 'un' and a.get('op') == '&' and is_var(a.get('e')):
                succ.add(a['e']['name'])
    # ... and the locals it is copied into (a helper that returns it, the caller's own variable)
    changed = True
    while changed:
        changed = False
        for t in sv.stores():
            if t.ev['k'] == 'store' and is_var(t.ev.get('lhs')) and t.ev.get('op') == '=' and is_var(t.ev.get('rhs')) and t.ev['rhs']['name'] in succ and t.ev['lhs']['name'] not in succ:
                succ.add(t.ev['lhs']['name'])
                changed = True
    for s in cps:
        gs = sv.guards(s.bid)
        ok = any(is_var(g[0]) and g[0]['name'] in succ and g[1] == '!=' and const_of(g[2]) == 0 for g in gs)
        R.ob('C16.GRD.2', ok, s, 'the parsed value is replaced only when the typed parser reported success', key='parsed-on-success')
    R.floor('C16.GRD.2', 1)
    # each subtype calls its own parser
    want = {'CONF_STRING_BOOLEAN': 'conf_parse_boolean', 'CONF_STRING_INTEGER': 'conf_parse_integer', 'CONF_STRING_FLOAT': 'conf_parse_float',
            'CONF_STRING_INTERVAL': 'conf_parse_interval', 'CONF_STRING_VOLUME': 'conf_parse_volume'}
    en = {c['name']: c['v'] for c in P.enums.get('conf_node_string_subtype', [])}
    for bid in sv.reachable_blocks():
        for e in sv.out[bid]:
            if e.label == 'case' and e.vs:
                for nm, fn in want.items():
                    if en.get(nm) in e.vs and len(e.vs) == 1:
                        calls = [t for t in sv.block_sites(sv.case_body(e.dst)) if t.ev['k'] == 'call']
                        ok = bool(calls) and calls[0].ev.get('callee') == fn and any(is_var(a.get('e', {})) and a['e']['name'] in succ for a in calls[0].ev['args'] if isinstance(a, dict) and a.get('k') == 'un')
                        R.ob('C16.GRD.2', ok, calls[0] if calls else sv, 'subtype %s is parsed by %s and reports through success' % (nm, fn), key='subtype:%s' % nm, nontrivial=False)


def duplicates(P, R):
    gc = P.need_fn('conf_parse_get_child')
    finds = [s for s in gc.sites() if (s.ev.get('rhs') or s.ev.get('init') or {}).get('callee') == 'set_find']
    ins = [s for s in gc.calls('set_insert')]
    ok = len(finds) == 1 and len(ins) == 1
    if ok:
        ex = finds[0].ev['lhs']['name'] if finds[0].ev['k'] == 'store' else finds[0].ev['var']
        ok = any(is_var(g[0], ex) and g[1] == '==' and const_of(g[2]) == 0 for g in gc.guards(ins[0].bid))
    R.ob('C16.MPT.1', ok, ins[0] if ins else gc, 'a repeated key reuses the node created earlier (lookup before insert, insert only when missing)', key='dup-reuse')
    rets = [s for s in gc.sites() if s.ev['k'] == 'ret']
    pr = [s for s in gc.stores() if s.ev['k'] == 'store' and is_field(s.ev['lhs'], 'present') and const_of(s.ev.get('rhs')) == 1]
    R.ob('C16.MPT.1', bool(pr) and all(gc.path_avoiding(None, lambda t: t in pr, target=r.bid, from_entry=True) is None or any(t in pr for t in gc.block_sites(r.bid)[:r.idx]) for r in rets), pr[0] if pr else gc,
         'every node the parser touches is marked present', key='marks-present')
    # ... and a repeated object keeps the members of its earlier occurrence: what the entry parser does to the member
    # set of an object it was handed (possibly an existing one) is to install the callbacks, nothing that empties it
    pe = P.need_fn('conf_parse_entry')
    objs = set()
    for s in pe.sites():
        ev = s.ev
        val = ev.get('init') if ev['k'] == 'decl' else ev.get('rhs') if ev['k'] == 'store' else None
        tgt = ev.get('var') if ev['k'] == 'decl' else (ev['lhs']['name'] if ev['k'] == 'store' and is_var(ev.get('lhs')) else None)
        if tgt and isinstance(val, dict) and val.get('k') == 'callref' and val.get('callee') == gc.name and 'object' in ((ev.get('lhs') or {}).get('t', '') + ev.get('t', '')):
            objs.add(tgt)
    nobj = 0
    for v in sorted(objs):
        bad = []
        for s in pe.sites():
            ev = s.ev
            if ev['k'] == 'store' and on_path(ev.get('lhs'), 'contents') and root_var(ev['lhs']) is not None and root_var(ev['lhs'])['name'] == v:
                fld = ev['lhs'].get('field')
                if fld not in ('compare', 'cleanup'):
                    bad.append('%s (store to %s)' % (s.loc, sx(ev['lhs'])))
            if ev['k'] == 'call' and ev.get('callee') in ('memset', 'memcpy', 'set_clear', 'bzero') and ev['args'] and any(x.get('k') == 'mem' and x.get('field') == 'contents' and root_var(x) is not None and root_var(x)['name'] == v for x in walk(ev['args'][0])):
                bad.append('%s (%s)' % (s.loc, ev['callee']))
        nobj += 1
        R.ob('C16.MPT.1', not bad, pe, 'the member set of an object handed out by %s (%s) is not emptied or overwritten by the entry parser%s' % (gc.name, v, (': ' + ', '.join(bad)) if bad else ''), key='dup-members-kept')
    R.floor('C16.MPT.1', 2)


def reader_contract(P, R, rule='C16.LOOK.2'):
    """The lookahead rules treat the whitespace/comment skipper as "returns the next significant character, consumed".
    Decided here: at every `return c` of the skipper the cursor is exactly one past the byte held in c (or on the NUL
    when c is the terminator), whatever was skipped or peeked in between - a return that has already backed up makes
    the caller's own push-back land inside the previous token."""
    f = P.need_fn('conf_parse_whitespace')
    cur = lambda e: is_field(e, 'curr', 'conf_parse')
    # state: tuple of (var, offset, zero) ; offset = cursor - position of the byte read into var
    def upd(st, fn):
        return tuple(sorted((v, max(-2, min(3, fn(v, o))), z) for v, o, z in st))

    def on_event(st, s):
        ev = s.ev
        if ev['k'] == 'store' and cur(ev.get('lhs')) and ev.get('op') in ('++', '--'):
            d = 1 if ev['op'] == '++' else -1
            return upd(st, lambda v, o: o + d)
        if ev['k'] in ('store', 'decl'):
            tgt = ev['lhs']['name'] if ev['k'] == 'store' and is_var(ev.get('lhs')) else ev.get('var') if ev['k'] == 'decl' else None
            val = ev.get('rhs') if ev['k'] == 'store' else ev.get('init')
            if tgt and isinstance(val, dict):
                rest = tuple(x for x in st if x[0] != tgt)
                if val.get('k') == 'un' and val.get('op') == '*' and isinstance(val.get('e'), dict) and val['e'].get('k') == 'un' and val['e'].get('op') == '++' and cur(val['e'].get('e')):
                    return tuple(sorted(rest + ((tgt, 1 if val['e'].get('postfix') else 0, None),)))
                if val.get('k') == 'un' and val.get('op') == '*' and cur(val.get('e')):
                    return tuple(sorted(rest + ((tgt, 0, None),)))
                return rest
        return st

    def on_edge(st, e):
        r = rules.edge_rel(e)
        if r and is_var(r[0]) and const_of(r[2]) is not None:
            c = const_of(r[2])
            z = None
            if r[1] == '==':
                z = (c == 0)
            elif r[1] == '!=' and c == 0:
                z = False
            if z is not None:
                out = []
                for v, o, zz in st:
                    if v == r[0]['name']:
                        if zz is not None and zz != z:
                            return None
                        out.append((v, o, z))
                    else:
                        out.append((v, o, zz))
                return tuple(sorted(out))
        return st
    before, at_exit, sin, bout = f.forward((), on_event, on_edge)
    n = 0
    for s in f.sites():
        if s.ev['k'] != 'ret' or not is_var(s.ev.get('val')):
            continue
        v = s.ev['val']['name']
        sts = before.get(s.key, set())
        n += 1
        bad = []
        for st in sts:
            m = [x for x in st if x[0] == v]
            if not m:
                bad.append('%s does not hold a byte read at the cursor' % v)
                continue
            _, o, z = m[0]
            want = 0 if z else 1
            if o != want:
                bad.append('cursor is %d past the byte in %s, expected %d%s' % (o, v, want, ' (terminator)' if z else ''))
        R.ob(rule, bool(sts) and not bad, s, 'the skipper returns %s with the cursor just behind that character%s' % (v, (': ' + '; '.join(sorted(set(bad)))) if bad else ''), key='reader-contract')
    R.floor(rule, 3, 'returns of the whitespace/comment skipper')


def token_alphabet(P, R, rule='C16.TAB.4'):
    """Bare words end where the syntax begins: no character the parser gives a syntactic meaning (compared against a
    character literal in the entry parser, the skipper or the string reader: separators, brackets, quote, comment
    start) belongs to the bare-word alphabet - otherwise `word//comment` or `word;` is swallowed into the word."""
    import re as _re
    ci = P.need_fn('ctype_init')
    alpha = None
    for s in ci.sites():
        if s.ev['k'] == 'decl' and s.ev.get('static') and (s.ev.get('init') or {}).get('k') == 'str' and 'token' in (s.ev.get('var') or ''):
            alpha = s.ev['init']['v']
            site = s
    if alpha is None:
        raise AnalysisBroken('the bare-word alphabet (token_chars) has vanished')
    delims = set()
    for name in ('conf_parse_entry', 'conf_parse_whitespace', 'conf_parse_string'):
        f = P.need_fn(name)
        for b in f.reachable_blocks():
            for e in f.out[b]:
                r = e.rel()
                if r and isinstance(r[2], dict) and r[2].get('k') == 'chr' and r[2]['v'] not in (0,):
                    ch = chr(r[2]['v'])
                    if not ch.isalnum():
                        delims.add(ch)
                for v in (e.vs or []):
                    if isinstance(v, int) and 0 < v < 128 and not chr(v).isalnum() and name != 'conf_parse_string':
                        delims.add(chr(v))
    # the characters actually marked in the table: fold the index expressions of the marking loop over the literals
    def fold(e, env):
        if not isinstance(e, dict):
            return None
        c = const_of(e)
        if isinstance(c, int):
            return c
        k = e.get('k')
        if k == 'idx' and is_var(e.get('base')) and e['base']['name'] in env:
            return env[e['base']['name']]
        if k == 'callref' and e.get('callee') in ('toupper', 'tolower') and e.get('args'):
            v = fold(e['args'][0], env)
            if v is None:
                return None
            ch = chr(v & 255)
            return ord(ch.upper() if e['callee'] == 'toupper' else ch.lower()) if ch.isascii() and ch.isalpha() else v
        if k == 'un' and e.get('op') == '~':
            v = fold(e['e'], env)
            return None if v is None else ~v
        if k == 'bin' and e.get('op') in ('&', '|', '^', '+', '-'):
            a, b = fold(e['l'], env), fold(e['r'], env)
            if a is None or b is None:
                return None
            return {'&': a & b, '|': a | b, '^': a ^ b, '+': a + b, '-': a - b}[e['op']]
        return None
    lits = {s.ev['var']: s.ev['init']['v'] for s in ci.sites() if s.ev['k'] == 'decl' and s.ev.get('static') and (s.ev.get('init') or {}).get('k') == 'str'}
    marked = set()
    undecided = []
    for s in ci.stores():
        lhs = s.ev.get('lhs') or {}
        if s.ev['k'] == 'store' and lhs.get('k') == 'idx' and is_var(lhs.get('base'), 'char_types'):
            used = [v for v in lits if any(is_var(x.get('base'), v) for x in walk(lhs['index']) if x.get('k') == 'idx')]
            if not used:
                undecided.append(s)
                continue
            for ch in lits[used[0]]:
                v = fold(lhs['index'], {used[0]: ord(ch)})
                if v is None:
                    undecided.append(s)
                    break
                marked.add(chr(v & 255))
    if undecided:
        R.note('%s: %d store(s) into the character table are not foldable over the literal alphabets; the literal itself is judged' % (rule, len(undecided)))
    forbidden = delims | {chr(10), chr(13), chr(9), ' ', chr(0)}
    both = sorted((set(alpha) | marked) & forbidden)
    R.ob(rule, not both, site, 'the bare-word alphabet (%d characters marked in the table) shares no character with the syntax characters %s or with white space (shared: %s)' % (len(marked), ''.join(sorted(delims - {chr(10), chr(13), chr(9)})), [repr(c) for c in both]), key='token-alphabet')
    R.ob(rule, len(delims) >= 8, site, 'syntax characters were found in the parser (%d)' % len(delims), key='delims-found', nontrivial=False)
    # ... and it contains what the documented grammar says an unquoted string may contain (doc/iauthd-c.conf.example:
    # "letters, digits, '-', '.', '_' and '#'"), when the table could be folded completely
    if not undecided:
        import string as _string
        documented = set(_string.ascii_letters + _string.digits + '-._#')
        missing = sorted(documented - marked)
        R.ob(rule, not missing, site, 'every character the documented grammar allows in an unquoted string is marked as a bare-word character%s' % ((' (missing: %s)' % ''.join(missing)) if missing else ''), key='token-alphabet-documented')


def keyword_tables(P, R, rule='C16.TAB.5'):
    """Keyword tables stored as fixed-width character rows keep their terminators: every string literal initialising a
    row of a `char[N][M]` table is shorter than M (C allows dropping the NUL silently; strcmp then runs into the next row)."""
    import re as _re
    n = 0
    seen = []
    for name, defs in P.globals.items():
        for unit, g in defs:
            seen.append((unit, g, None))
    for f in P.fns.values():
        for s in f.sites():
            if s.ev['k'] == 'decl' and s.ev.get('static'):
                seen.append((f.unit, {'t': s.ev.get('t'), 'init': s.ev.get('init'), 'name': s.ev.get('var'), 'loc': s.ev.get('loc')}, s))
    for unit, g, s in seen:
        if unit.startswith('tests/'):
            continue
        m = _re.match(r'^(?:const )?char\[(\d+)\]\[(\d+)\]$', (g.get('t') or '').strip())
        if not m or not isinstance(g.get('init'), dict):
            continue
        width = int(m.group(2))
        for it in g['init'].get('items', []):
            if it.get('k') == 'str':
                n += 1
                R.ob(rule, len(it['v'].encode()) < width, s if s is not None else P.relloc(g.get('loc', '?')), 'keyword "%s" fits its %d-byte row of %s with its terminator' % (it['v'], width, g.get('name')), key='row:%s:%s' % (g.get('name'), it['v']))
    R.ob(rule, True, P.need_fn('conf_parse_boolean'), 'scanned the fixed-width keyword tables of all units: %d rows' % n, key='scan', nontrivial=False)


def newline_accounting(P, R, rule='C16.LOOK.3'):
    """A newline ends an entry and advances the line count: whenever the whitespace / comment skipper has consumed a
    byte it then finds to be a newline, it either counts the line or steps back so that the newline is seen again,
    before it reads on or returns another character.  A `//` comment that swallows its newline glues the entry behind
    it to the one before it."""
    ws = P.need_fn('conf_parse_whitespace')

    def is_read(e):
        return isinstance(e, dict) and e.get('k') == 'un' and e.get('op') == '*' and any(x.get('k') == 'un' and x.get('op') == '++' and is_field(x.get('e'), 'curr') for x in walk(e))
    chars = set()
    for s in ws.sites():
        ev = s.ev
        val = ev.get('init') if ev['k'] == 'decl' else ev.get('rhs') if ev['k'] == 'store' else None
        tgt = ev.get('var') if ev['k'] == 'decl' else (ev['lhs']['name'] if ev['k'] == 'store' and is_var(ev.get('lhs')) else None)
        if tgt and is_read(val):
            chars.add(tgt)
    if not chars:
        R.note('%s: the skipper does not read bytes into a local; not judged' % rule)
        return
    problems = []

    def on_event(st, s):
        ev = s.ev
        val = ev.get('init') if ev['k'] == 'decl' else ev.get('rhs') if ev['k'] == 'store' else None
        tgt = ev.get('var') if ev['k'] == 'decl' else (ev['lhs']['name'] if ev['k'] == 'store' and is_var(ev.get('lhs')) else None)
        if ev['k'] == 'store' and is_field(ev.get('lhs'), 'line_num'):
            return None if st is None else ('', False)
        if ev['k'] == 'store' and is_field(ev.get('lhs'), 'curr') and ev.get('op') in ('--', '-='):
            return ('', False)
        if tgt and is_read(val):
            if st[1]:
                problems.append((s, 'reads on'))
            return (tgt, False)
        if ev['k'] == 'ret' and st[1] and not (is_var(ev.get('val'), st[0])):
            problems.append((s, 'returns another character'))
        return st

    def on_edge(st, e):
        r = rules.edge_rel(e)
        if r and is_var(r[0]) and r[0]['name'] == st[0] and r[1] == '==' and const_of(r[2]) == 10:
            return (st[0], True)
        return st
    ws.forward(('', False), on_event, on_edge)
    seen = set()
    for s, why in problems:
        if s.key in seen:
            continue
        seen.add(s.key)
        R.ob(rule, False, s, 'a consumed newline is counted or un-read before the skipper %s' % why, key='newline:%s' % why)
    R.ob(rule, not problems, ws, 'every newline the skipper consumes is counted (line number) or left for the caller (%d byte reads followed)' % len(chars), key='newline-accounted')


def keyword_chains(P, R, rule='C16.TAB.6'):
    """A spelling means one thing: in a chain of comparisons of one text against string literals (the boolean words,
    the unit names ...) no literal is tested twice - the second test is dead, so the word silently takes the meaning of
    the branch that tests it first (contradiction rule: two branches both claim the same word)."""
    unit = P.need_fn('conf_read').unit
    n = 0
    for f in P.unit_fns(unit):
        tests = {}
        for b in f.blocks:
            c = f.term_cond(b)
            if c is None:
                continue
            for x in walk(c):
                if x.get('k') == 'callref' and x.get('callee') in ('strcmp', 'strcasecmp') and len(x.get('args', [])) == 2:
                    lits = [a for a in x['args'] if a.get('k') == 'str']
                    oth = [a for a in x['args'] if a.get('k') != 'str']
                    if len(lits) == 1 and len(oth) == 1:
                        key = (sx(oth[0]), x['callee'])
                        tests.setdefault(key, []).append((lits[0]['v'] if x['callee'] == 'strcmp' else lits[0]['v'].lower(), b))
        for (subj, fnname), lst in tests.items():
            if len(lst) < 4:
                continue
            words = [w for w, _ in lst]
            dup = sorted({w for w in words if words.count(w) > 1})
            n += 1
            R.ob(rule, not dup, f, 'in %s each of the %d words compared with %s is tested once%s' % (f.name, len(words), subj, (' (tested twice: %s)' % ', '.join(repr(d) for d in dup)) if dup else ''), key='keyword-once:%s' % f.name)
    # the same words kept in a table of { word, meaning } rows
    for name, defs in P.globals.items():
        for u, g in defs:
            if u != unit or not isinstance(g.get('init'), dict):
                continue
            rows = [it for it in g['init'].get('items', []) if isinstance(it, dict) and it.get('k') == 'init']
            words = []
            for it in rows:
                strs = [x.get('v') for x in (it.get('items') or []) if isinstance(x, dict) and x.get('k') == 'str']
                if len(strs) == 1:
                    words.append(strs[0])
            if len(words) >= 4 and len(words) == len(rows):
                dup = sorted({w for w in words if words.count(w) > 1})
                n += 1
                R.ob(rule, not dup, P.relloc(g.get('loc', '?')), 'each of the %d words of table %s occurs once%s' % (len(words), name, (' (twice: %s)' % ', '.join(repr(d) for d in dup)) if dup else ''), key='keyword-once:%s' % name)
    # ... or in word lists local to a function (`static const char *const true_words[] = { ... }`): a word belongs to
    # one list of the function only, and occurs once in it
    for f in P.unit_fns(unit):
        lists = []
        for t in f.sites():
            if t.ev['k'] == 'decl' and isinstance(t.ev.get('init'), dict) and t.ev['init'].get('k') == 'init':
                ws = [x.get('v') for x in t.ev['init'].get('items', []) if isinstance(x, dict) and x.get('k') == 'str']
                if len(ws) >= 2 and len(ws) >= len(t.ev['init'].get('items', [])) - 1:
                    lists.append((t, ws))
        if sum(len(ws) for _, ws in lists) >= 4:
            words = [w for _, ws in lists for w in ws]
            dup = sorted({w for w in words if words.count(w) > 1})
            n += 1
            R.ob(rule, not dup, lists[0][0], 'in %s each of the %d words of its word lists (%s) occurs once%s' % (f.name, len(words), ', '.join(t.ev['var'] for t, _ in lists), (' (twice: %s)' % ', '.join(repr(d) for d in dup)) if dup else ''), key='keyword-once:%s' % f.name)
    R.floor(rule, 1, 'keyword chains in the configuration unit')


def reinterpretation_resets(P, R, rule='C16.MPT.3'):
    """What a string node remembers (the `parsed` union) belongs to ONE interpretation of its text.  Wherever a node's
    subtype is assigned, the union is cleared on that path before the text is parsed again: the failure arm of the
    typed conversion leaves the union as it is ("the previous value stays in force"), so without the reset an
    unparsable number read through the new subtype is whatever the old interpretation left there - for a node the
    parser made, the bits of the pointer to its text."""
    unit = P.need_fn('conf_read').unit
    n = 0
    for f in P.unit_fns(unit):
        for s in f.stores():
            l = s.ev.get('lhs') or {}
            if not (s.ev['k'] == 'store' and l.get('k') == 'mem' and l.get('field') == 'subtype' and l.get('rec') == 'conf_node_string'):
                continue
            base = sx(l.get('base'))
            ok = False
            for t in f.calls('memset'):
                a = t.ev['args']
                if a and any(isinstance(x, dict) and x.get('k') == 'mem' and x.get('field') == 'parsed' and sx(x.get('base')) == base for x in walk(a[0])) and const_of(a[1]) == 0:
                    if t.bid == s.bid or f.dominates(t.bid, s.bid):
                        ok = True
            n += 1
            R.ob(rule, ok, s, 'in %s the remembered value of %s is cleared where its subtype is assigned' % (f.name, base), key='subtype-reset:%s' % f.name)
    R.floor(rule, 1, 'assignments of a string node\'s subtype')


def newline_contract(P, R, rule='C16.LOOK.4'):
    """The skipper either hands a newline back to its caller or skips it, depending on its flag argument.  A caller that
    gets newlines must treat them (it compares what it got with a newline before asking again); a caller that does not
    expect them asks for them to be skipped.  Checked per call: the constant passed selects "newlines are returned"
    exactly when the result is compared with a newline - so a change of the flag's meaning cannot leave one caller
    behind."""
    ws = P.need_fn('conf_parse_whitespace')
    if len(ws.params) < 2:
        raise AnalysisBroken('the skipper no longer takes a flag')
    flag = ws.params[1]
    # value of the flag under which a newline is returned
    ret_when = None
    for t in ws.sites():
        if t.ev['k'] != 'ret':
            continue
        gs = ws.guards(t.bid)
        if any(const_of(g[2]) == 10 and g[1] == '==' for g in gs):
            for g in gs:
                if is_var(g[0], flag) and const_of(g[2]) == 0:
                    ret_when = 'nonzero' if g[1] == '!=' else 'zero'
    if ret_when is None:
        raise AnalysisBroken('cannot tell under which flag value the skipper returns a newline')
    n = 0
    for f in P.unit_fns(ws.unit):
        calls = [c for c in f.calls('conf_parse_whitespace')]
        for c in calls:
            k = const_of(c.ev['args'][1]) if len(c.ev['args']) > 1 else None
            if not isinstance(k, int):
                continue
            gets_newlines = (k != 0) == (ret_when == 'nonzero')
            # the variable that receives the result
            rv = None
            for t in f.stores():
                if (t.ev.get('rhs') or {}).get('ev') == c.ev.get('id') and is_var(t.ev.get('lhs')):
                    rv = t.ev['lhs']['name']
            handles = False
            if rv:
                others = [x.bid for x in f.stores() if is_var(x.ev.get('lhs'), rv) and x.key != c.key and (x.ev.get('rhs') or {}).get('ev') != c.ev.get('id')]
                region = f.reach([c.bid], cut_blocks=[b for b in others if b != c.bid])
                for b in region:
                    for e in f.out[b]:
                        r = e.rel() if e.cond is not None and e.label not in ('case', 'default') else None
                        if r and is_var(r[0], rv) and const_of(r[2]) == 10:
                            handles = True
                        if e.label == 'case' and e.cond is not None and is_var(e.cond, rv) and 10 in (e.vs or []):
                            handles = True
            n += 1
            R.ob(rule, gets_newlines == handles, c, 'in %s the skipper is asked %s newlines and the caller %s' % (f.name, 'to return' if gets_newlines else 'to skip', 'compares the result with a newline' if handles else 'never looks for one'), key='newline-contract:%s' % f.name)
    R.floor(rule, 5, 'calls of the skipper')


def empty_file(P, R, rule='C16.GRD.6'):
    """An empty tree is written as an empty file.  fread(buf, size, 1, f) answers 0 for a size of 0 just as it does for
    a failed read, so wherever the file's length goes to fread as the item size (or the count) and an answer of 0 is
    taken for an error, the length is known not to be 0 at the call - or the answer is compared with the length itself."""
    n = 0
    for f in P.unit_fns(P.need_fn('conf_read').unit):
        for s in f.sites():
            calls = [s.ev] if s.ev['k'] == 'call' and s.ev.get('callee') in ('fread', 'read') else []
            if not calls:
                continue
            c = calls[0]
            a = c['args']
            qs = [x for x in (a[1:3] if c['callee'] == 'fread' else a[2:3]) if const_of(x) is None]
            if not qs:
                continue
            q = qs[0]
            known = any(isinstance(g[0], dict) and sx(g[0]) == sx(q) and ((g[1] == '!=' and const_of(g[2]) == 0) or (g[1] == '>' and const_of(g[2]) == 0) or (g[1] == '>=' and (const_of(g[2]) or 0) >= 1)) for g in f.guards(s.bid))
            # the variable the answer lands in, and the tests made of it
            res = None
            for t in f.sites():
                if t.ev['k'] in ('store', 'decl'):
                    val = t.ev.get('rhs') if t.ev['k'] == 'store' else t.ev.get('init')
                    if isinstance(val, dict) and any(x.get('k') == 'callref' and x.get('ev') == c['id'] for x in walk(val)):
                        res = t.ev['lhs']['name'] if t.ev['k'] == 'store' and is_var(t.ev.get('lhs')) else t.ev.get('var')
            zero_is_error = False
            if res is not None:
                for b in f.out:
                    for e in f.out[b]:
                        r = e.rel()
                        if r and is_var(r[0], res) and const_of(r[2]) is not None:
                            k = const_of(r[2])
                            # the edge on which the answer 0 lies leads to an error exit: decided by the shape `< 1`, `== 0`, `<= 0`, `!= 1`
                            if (r[1] == '<' and k == 1) or (r[1] in ('==', '<=') and k == 0) or (r[1] == '!=' and k == 1):
                                zero_is_error = True
            else:
                zero_is_error = True      # tested in place
            n += 1
            R.ob(rule, known or not zero_is_error, s, 'in %s the length %s handed to %s is known not to be 0 where an answer of 0 means failure' % (f.name, sx(q), c['callee']), key='empty-file:%s' % f.name)
    R.floor(rule, 1, 'reads of the configuration file')


def run(P, R, tier):
    empty_file(P, R)
    reader_contract(P, R)
    token_alphabet(P, R)
    keyword_tables(P, R)
    keyword_chains(P, R)
    newline_accounting(P, R)
    newline_contract(P, R)
    f, before, reads, unreads = lookahead(P, R)
    follow(P, R, f, before, reads)
    escapes(P, R)
    unit_tables(P, R)
    unknown_chars(P, R)
    parsed_on_success(P, R)
    typed_text(P, R)
    reinterpretation_resets(P, R)
    duplicates(P, R)
    ws = P.need_fn('conf_parse_whitespace')
    scanner_typestate(ws, lambda e: is_field(e, 'curr', 'conf_parse'), 'C16.BND.1', R, 'whitespace/comment skipper')
    R.floor('C16.BND.1', 4)
    # repeated keys and later files override earlier values only if the value setters notice every change
    from . import c15
    from ..report import Remap
    c15.notification(P, Remap(R, {'C15.GRD.1': 'C16.GRD.3', 'C15.MPT.1': 'C16.GRD.3'}))
    c15.removal_guard(P, Remap(R, {'C15.GRD.2': 'C16.GRD.4', 'C15.GRD.3': 'C16.GRD.4'}))
    # a file that is read is applied: the tree afterwards is the one written in the file
    c15.load_merges(P, Remap(R, {'C15.MPT.3': 'C16.MPT.2', 'C15.WMC.1': 'C16.MPT.2'}))
    # the text parsed is the file's text: the terminator goes behind the last byte read, not onto it
    from . import c14
    c14.bounds(P, Remap(R, {'C14.BND.1': 'C16.BND.2'}))
    # which characters make a bare word is read from the class table with the byte itself as the index
    c14.ctype_subscripts(P, R, 'C16.BND.3')
    # \\xNN stands for one byte: the two digits are consumed with it
    c14.decoder_advance(P, Remap(R, {'C16.TAB.7': 'C16.TAB.7'}), consumed_rule='C16.TAB.7')
    # a host/service pair is handed over field by field: the source is cleared after, not before, the value is taken
    c14.ownership(P, R, 'C16.OWN.1')
    # the parser and the merge keep nothing from one load (or one entry, or one nested call) to the next
    rules.no_static_locals(P, R, 'C16.WMC.9', P.unit_fns(P.need_fn('conf_read').unit), 'configuration code')
    # a hook may read what the file said, not edit it
    from . import c14 as _c14o
    _c14o.node_texts_read_only(P, R, 'C16.OWN.2')
    return EXPLANATION, ASSUMPTIONS
