"""C05 - verdict content is faithful to what the services said.

Decided: the wiring from reply kind to emitter and text slice, who may write the account,
the account copy's stop conditions, the accept line's forms and +x on the vouched path.
Not decided: string contents at run time."""
import re

from ..facts import AnalysisBroken
from ..model import sx, walk, is_var, is_field, const_of, vars_in, root_var, same, on_path, rel
from .. import rules, core, holds
from .c04 import slot_impls
from ..report import Remap

EXPLANATION = (
    'Rules: (TAB.1) in the reply handlers every text slice reply+k handed to an emitter is dominated by '
    'tests that fix the first k bytes of the reply (a strncmp against a k-byte literal with n == k, or '
    'byte tests on every index below k), and the literal selects the emitter (NO -> rejecting verdict, '
    'AGAIN/MORE -> challenge, OK+space -> account setter); (WMC.1) the account field (including pointers '
    'derived from it) is written by exactly one function, whose calls are reached only for a login-type '
    'service; (BND.1) the account copy stops at the first space, at the NUL and at the length limit and '
    'is NUL-terminated on every path; (FMT.1) the accept line has exactly the forms R acct class / R acct '
    '/ D class / D under the matching emptiness tests, bound to the request\'s account and class; challenge '
    'and kill lines are bound to their text parameter; (FMT.2) the class rules cut the account stamp at its '
    'first colon by an exact prefix copy and choose rule->class or else the rule name; (GRD.1) after an account is stamped, every path '
    'on which +x or +! is requested sends user mode +x.  String contents are not decided.'
    ' Rounds 8-9: (TAB.5/MPT.4) shared: name-order comparator, protocol re-assigned on every pass; (TAB.1) slices follow choices and byte-tested words.')
ASSUMPTIONS = ['clang 14 CFG', 'strncmp(s, lit, n)==0 with n == len(lit) fixes the first n bytes of s']

LOGIN_TYPES = {'LOGIN', 'LOGIN_IPR', 'COMBINED'}


def reply_closure(P):
    cl = {}
    for f in slot_impls(P).values():
        for k, g in P.closure([f], may=False).items():
            if g.unit == f.unit:
                cl[k] = g
    return cl


def slices(P, R):
    V = core.verdict_fns(P)
    n = 0
    for f in reply_closure(P).values():
        textp = [p['name'] for p in f.param_info if p['t'].startswith('const char')]
        for s in f.calls():
            for j, a0 in enumerate(s.ev['args']):
                # `text + k`, or a choice between such slices (`text[2] == ' ' ? text + 3 : text + 2`): each alternative is
                # judged under the branch condition that selects it
                alts = []

                def collect(a, extra):
                    if isinstance(a, dict) and a.get('k') == 'cond':
                        rt, rf = rel(a.get('c'), True), rel(a.get('c'), False)
                        collect(a.get('t'), extra + ([rt] if rt else []))
                        collect(a.get('f'), extra + ([rf] if rf else []))
                    elif isinstance(a, dict) and a.get('k') == 'bin' and a['op'] == '+' and is_var(a['l']) and a['l']['name'] in textp and const_of(a['r']) is not None:
                        alts.append((a, extra))
                collect(a0, [])
                for a, extra in alts:
                    k = const_of(a['r'])
                    v = a['l']['name']
                    gs = list(f.guards(s.bid)) + extra
                    lit = None
                    for g in gs:
                        l, op, rr = g
                        if isinstance(l, dict) and l.get('k') == 'callref' and l.get('callee') == 'strncmp' and op == '==' and const_of(rr) == 0:
                            aa = l['args']
                            if is_var(aa[0], v) and aa[1].get('k') == 'str':
                                lit = (aa[1]['v'], const_of(aa[2]))
                    bytes_fixed = set()
                    for g in gs:
                        l, op, rr = g
                        if isinstance(l, dict) and l.get('k') == 'idx' and is_var(l['base'], v) and const_of(l['index']) is not None and op == '==' and const_of(rr) is not None:
                            bytes_fixed.add((const_of(l['index']), const_of(rr)))
                    n += 1
                    callee = s.ev.get('callee')
                    ts = P.callees(s, False)

                    def emitter_ok(word):
                        if word.startswith('NO'):
                            return bool(ts) and ts[0].key in V, 'reject'
                        if word.startswith('AGAIN') or word.startswith('MORE'):
                            return callee == 'iauth_challenge', 'challenge'
                        if word.startswith('OK'):
                            wr_keys = set(account_writers(P, Remap(R, {})))
                            return (bool(holds.FieldWrites(P).fields(ts[0]) & {'account'} or ts[0].key in wr_keys) if ts else False), 'the account setter'
                        return False, 'a known reply kind'
                    if lit is not None:
                        # the keyword compared whole, and the slice starts right after it - or one further on where the byte
                        # after the keyword is known to be the blank (`AGAIN`, then `text[5] == ' ' ? text + 6 : text + 5`)
                        okn = lit[1] == len(lit[0]) and (k == lit[1] or (k == lit[1] + 1 and (lit[1], 32) in bytes_fixed))
                        R.ob('C05.TAB.1', okn, s, 'text slice %s follows a %d-byte prefix test against %r with n=%s' % (sx(a), len(lit[0]), lit[0], lit[1]), key='slice:%s' % lit[0].strip())
                        ok, want = emitter_ok(lit[0])
                        R.ob('C05.TAB.1', ok, s, 'reply kind %r is relayed by %s (expected: %s)' % (lit[0], callee, want), key='emitter:%s' % lit[0].strip())
                    else:
                        # the bytes in front of the slice are all known, and none of them is the terminator
                        fixed = dict(bytes_fixed)
                        ok = set(fixed) >= set(range(k)) and all(fixed[i] != 0 for i in range(k))
                        R.ob('C05.TAB.1', ok, s, 'text slice %s follows byte tests fixing indices 0..%d (found %s)' % (sx(a), k - 1, sorted(bytes_fixed)), key='slice:bytes:%s:%d' % (callee, k))
                        if ok:
                            word = ''.join(chr(fixed[i]) for i in range(k))
                            oke, want = emitter_ok(word)
                            R.ob('C05.TAB.1', oke and word.strip() in ('OK', 'NO', 'AGAIN', 'MORE'), s,
                                 'the slice after %r goes to %s (callee %s)' % (word, want, callee), key='emitter:%s' % word.strip() if word.strip() != 'OK' else 'emitter:OK')
    R.floor('C05.TAB.1', 7, 'text slices of replies')


def account_aliases(f):
    """Local pointers derived from a request's account field."""
    al = set()
    for s in f.sites():
        ev = s.ev
        val = ev.get('rhs') if ev['k'] == 'store' else ev.get('init') if ev['k'] == 'decl' else None
        tgt = ev.get('lhs') if ev['k'] == 'store' else ({'k': 'var', 'name': ev.get('var')} if ev['k'] == 'decl' else None)
        if val is None or not is_var(tgt):
            continue
        derived = False
        if val.get('k') == 'callref' and val.get('callee') in ('strchr', 'strrchr', 'strstr', 'strpbrk', 'memchr') and any(is_field(x, 'account', core.REQ_REC) for x in walk(val['args'][0])):
            derived = True
        if val.get('k') in ('mem', 'bin', 'un') and any(is_field(x, 'account', core.REQ_REC) for x in walk(val)) and val.get('k') != 'idx' \
                and not (val.get('k') == 'bin' and val['op'] in ('==', '!=', '<', '>')):
            derived = True
        if derived:
            al.add(tgt['name'])
    return al


def account_writers(P, R):
    writers = {}
    for f in P.fns.values():
        al = account_aliases(f)
        for s in f.sites():
            hit = False
            for lv in P.written_lvalues(s):
                if on_path(lv, 'account', core.REQ_REC):
                    hit = True
                rv = root_var(lv)
                if rv is not None and rv['name'] in al and not is_var(lv):
                    # assignment *through* the alias (not re-pointing it)
                    hit = True
                if lv.get('k') == 'un' and lv['op'] == '*' and is_var(lv['e']) and lv['e']['name'] in al:
                    hit = True
                # *p++ = ... through an alias
                if lv.get('k') == 'un' and lv['op'] == '*' and isinstance(lv.get('e'), dict) and lv['e'].get('k') == 'un' and lv['e'].get('op') in ('++', '--') and is_var(lv['e'].get('e')) and lv['e']['e']['name'] in al:
                    hit = True
            if hit:
                writers.setdefault(f.key, []).append(s)
    R.ob('C05.WMC.1', len(writers) == 1, P.fns[sorted(writers)[0]] if writers else core.sender(P),
         'the account stamp is written by exactly one function (writers: %s)' % {k: [t.loc for t in v][:3] for k, v in writers.items()}, key='account-writer')
    for k in writers:
        setter = P.fns[k]
        calls = P.callers(setter, may=True)
        for s in calls:
            f = s.fn

            tnames = {c['v']: c['name'] for c in P.enums.get('iauth_xquery_type', [])}

            def is_type(x, f=f):
                # the service's protocol, or a local / folded parameter that holds a copy of it
                while isinstance(x, dict) and x.get('k') == 'cast':
                    x = x.get('e')
                if is_field(x, 'type'):
                    return True
                if is_var(x) and x.get('sc') == 'local':
                    ds = f.local_defs(x['name'])
                    vals = [(d.ev.get('rhs') if d.ev['k'] == 'store' else d.ev.get('init')) for d in ds]
                    return bool(vals) and all(isinstance(v, dict) and is_field(v, 'type') for v in vals)
                return False

            def on_edge(st, e):
                if e.label in ('case', 'default') and e.cond is not None and is_type(e.cond) and tnames:
                    if e.label == 'case':
                        names = {tnames.get(v) for v in (e.vs or [])}
                    else:
                        names = set(tnames.values()) - {tnames.get(v) for v in (e.notin or [])}
                    names.discard(None)
                    if names:
                        return 'login' if names <= set(LOGIN_TYPES) else 'other'
                    return st
                r = rules.edge_rel(e)
                if r and is_type(r[0]) and isinstance(r[2], dict) and r[2].get('k') == 'enum':
                    if r[1] == '==':
                        return 'login' if r[2]['name'] in LOGIN_TYPES else 'other'
                    if r[1] == '!=' and r[2]['name'] == 'DRONECHECK':
                        return 'login'
                return st

            def on_event(st, t):
                if t.ev['k'] == 'store' and is_var(t.ev.get('lhs')) and t.ev['lhs'].get('t', '').replace('const ', '').startswith('struct iauth_xquery_service'):
                    return 'unknown'
                return st
            before, _, sin, bout = f.forward('unknown', on_event, on_edge)
            sts = before.get(s.key, set())
            R.ob('C05.WMC.1', bool(sts) and sts <= {'login'}, s, 'the account setter is reached only for a login-type service (type states: %s)' % sorted(sts), key='setter-call:type')
    R.floor('C05.WMC.1', 2)
    return writers


def account_nonempty(P, R, writers, rule='C05.GRD.7'):
    """An account stamp, once given, is never wiped by a later reply: the setter copies the text up to its first
    terminator (the characters its copy loop stops at), so every call hands it a text whose FIRST character is known
    not to be one of those.  ("OK " followed by nothing, or by a second blank, is an OK without an account.)  Otherwise
    a second login service's empty answer erases the stamp the first one gave - after the account-only (+!) hold was
    already released - and the client is accepted bare."""
    n = 0
    for k in writers:
        setter = P.fns[k]
        if len(setter.params) < 2:
            continue
        src = setter.params[1]
        terms = set()
        for b in setter.blocks.values():
            c = (b.get('term') or {}).get('cond')
            for x in walk(c) if c is not None else ():
                if isinstance(x, dict) and x.get('k') == 'bin' and x.get('op') in ('!=', '=='):
                    for a, o in ((x.get('l'), x.get('r')), (x.get('r'), x.get('l'))):
                        rv_ = root_var(a) if isinstance(a, dict) and a.get('k') in ('idx', 'un') else None
                        # the text parameter itself, or a cursor that starts at it (`const char *src = account;`)
                        from_text = rv_ is not None and (is_var(rv_, src) or (rv_.get('sc') == 'local' and any(
                            is_var((d_.ev.get('rhs') if d_.ev['k'] == 'store' else d_.ev.get('init')) or {}, src) for d_ in setter.local_defs(rv_['name']))))
                        if from_text and isinstance(const_of(o), int):
                            terms.add(const_of(o))
        if not terms:
            raise AnalysisBroken('the account setter %s has no recognisable terminator test' % setter.name)
        # ... nor with a colon: the stamp is sent on as a word of the verdict line, and a word that starts with ':' begins
        # the trailing parameter there (it would swallow the class that follows)
        terms.add(ord(':'))
        for s in P.callers(setter, may=True):
            f = s.fn
            a = s.ev['args'][1] if len(s.ev['args']) > 1 else None
            if a is None:
                continue
            # the first character of the argument: base[K] for `base + K`, base[0] for `base`
            if a.get('k') == 'bin' and a.get('op') == '+' and is_var(a.get('l')) and isinstance(const_of(a.get('r')), int):
                base, off = a['l']['name'], const_of(a['r'])
            elif is_var(a):
                base, off = a['name'], 0
            else:
                base, off = None, None

            def first_char(e):
                if not isinstance(e, dict):
                    return False
                if e.get('k') == 'idx' and is_var(e.get('base'), base) and const_of(e.get('index')) == off:
                    return True
                if e.get('k') == 'un' and e.get('op') == '*' and off == 0 and is_var(e.get('e'), base):
                    return True
                return False
            gs = f.guards(s.bid)
            missing = []
            for c in sorted(terms):
                known = any(first_char(g[0]) and ((g[1] == '!=' and const_of(g[2]) == c) or (g[1] == '==' and isinstance(const_of(g[2]), int) and const_of(g[2]) != c)) for g in gs)
                if not known:
                    missing.append(c)
            n += 1
            R.ob(rule, base is not None and not missing, s, 'the text handed to the account setter is known to start with a character the setter keeps (not %s)%s' % (
                ', '.join(repr(chr(c)) for c in sorted(terms)), '' if not missing else ': nothing rules out %s' % ', '.join(repr(chr(c)) for c in missing)), key='setter-call:nonempty')
    R.floor(rule, 1, 'calls of the account setter')


def account_copy(P, R, writers):
    for k in writers:
        f = P.fns[k]
        srcp = [p['name'] for p in f.param_info if p['t'].startswith('const char')]
        ext = (P.record_field(core.REQ_REC, 'account') or {}).get('array')
        copies = [s for s in f.stores() if s.ev['k'] == 'store' and s.ev['lhs'].get('k') == 'idx' and is_field(s.ev['lhs']['base'], 'account')
                  and any(is_var(x) and x['name'] in srcp for x in walk(s.ev.get('rhs')))]
        for s in copies:
            gs = f.guards(s.bid)
            src = s.ev['rhs']
            stop_sp = any(same(g[0], src) and g[1] == '!=' and const_of(g[2]) == 32 for g in gs)
            stop_nul = any(same(g[0], src) and g[1] == '!=' and const_of(g[2]) == 0 for g in gs)
            m = rules.max_index_at_store(f, s, s.ev['lhs']['index'], {})
            R.ob('C05.BND.1', stop_sp, s, 'the account copy stops at the first space', key='copy:space')
            R.ob('C05.BND.1', stop_nul, s, 'the account copy stops at the end of the text', key='copy:nul')
            R.ob('C05.BND.1', m is not None and ext is not None and m <= ext - 1, s, 'the account copy stops at the length limit (index < %s, extent %s)' % (m, ext), key='copy:limit')
        # NUL termination on every path: a zero store into account at an index the copy cannot have passed
        iv = None
        for s in copies:
            vs = vars_in(s.ev['lhs']['index'])
            iv = sorted(vs)[0] if vs else None
        if iv is None and not [c for c in f.calls('memcpy') if is_field(c.ev['args'][0], 'account')]:
            # pointer form: dst = account; limit = account + K; while (*src != ' ' && *src && dst < limit) *dst++ = *src++;
            # then either *dst = 0 or a zero fill from dst to the end of the field
            al = account_aliases(f)

            def ptr_of(lhs):
                e = (lhs or {}).get('e') if (lhs or {}).get('k') == 'un' and lhs.get('op') == '*' else None
                if isinstance(e, dict) and e.get('k') == 'un' and e.get('op') == '++':
                    e = e.get('e')
                return e['name'] if is_var(e) else None
            pcs = [s for s in f.stores() if s.ev['k'] == 'store' and ptr_of(s.ev.get('lhs')) in al and const_of(s.ev.get('rhs')) is None]
            if pcs:
                s = pcs[0]
                dstv = ptr_of(s.ev['lhs'])
                gs = f.guards(s.bid)

                def from_src(name):
                    if name in srcp:
                        return True
                    for d in f.local_defs(name):
                        val = d.ev.get('init') if d.ev['k'] == 'decl' else (d.ev.get('rhs') if d.ev.get('op') == '=' else None)
                        if isinstance(val, dict) and any(is_var(y) and y['name'] in srcp for y in walk(val)):
                            return True
                    return False

                def src_byte(e):
                    return isinstance(e, dict) and e.get('k') in ('un', 'idx') and any(is_var(x) and from_src(x['name']) for x in walk(e))
                stop_sp = any(src_byte(g[0]) and g[1] == '!=' and const_of(g[2]) == 32 for g in gs)
                stop_nul = any(src_byte(g[0]) and g[1] == '!=' and const_of(g[2]) == 0 for g in gs)
                K = None
                limv = None
                for g in gs:
                    if is_var(g[0], dstv) and g[1] == '<' and is_var(g[2]) and f.single_def(g[2]['name']):
                        d = f.single_def(g[2]['name'])[1]
                        if isinstance(d, dict) and d.get('k') == 'bin' and d.get('op') == '+' and is_field(d.get('l'), 'account') and isinstance(const_of(d.get('r')), int):
                            K, limv = const_of(d['r']), g[2]['name']
                R.ob('C05.BND.1', stop_sp, s, 'the account copy stops at the first space', key='copy:space')
                R.ob('C05.BND.1', stop_nul, s, 'the account copy stops at the end of the text', key='copy:nul')
                R.ob('C05.BND.1', K is not None and ext is not None and K <= ext - 1, s, 'the account copy stops at the length limit (pointer < field + %s, extent %s)' % (K, ext), key='copy:limit')
                # the destination pointer starts at the field and only moves in the guarded copy
                d0 = f.single_def(dstv) if f.single_def(dstv) else None
                moves = [t for t in f.sites() if any(x.get('k') == 'un' and x.get('op') in ('++', '--') and is_var(x.get('e'), dstv) for ex in rules.event_exprs(t.ev) for x in walk(ex)) or
                         (t.ev['k'] == 'store' and is_var(t.ev.get('lhs'), dstv))]
                starts_ok = all(t.bid == s.bid or (t.ev['k'] in ('decl', 'store') and is_field((t.ev.get('init') if t.ev['k'] == 'decl' else t.ev.get('rhs')) or {}, 'account')) for t in moves)

                def terminates(t):
                    ev = t.ev
                    if ev['k'] == 'store' and ptr_of(ev.get('lhs')) == dstv and const_of(ev.get('rhs')) == 0 and (ev['lhs'].get('e') or {}).get('k') == 'var':
                        return True
                    if ev['k'] == 'call' and ev.get('callee') == 'memset' and len(ev['args']) == 3 and is_var(ev['args'][0], dstv) and const_of(ev['args'][1]) == 0:
                        n = ev['args'][2]
                        # (limit + J) - dst with K + J <= extent
                        if isinstance(n, dict) and n.get('k') == 'bin' and n.get('op') == '-' and is_var(n.get('r'), dstv):
                            a = n['l']
                            J = 0
                            if isinstance(a, dict) and a.get('k') == 'bin' and a.get('op') == '+' and isinstance(const_of(a.get('r')), int):
                                J, a = const_of(a['r']), a['l']
                            if is_var(a, limv) and K is not None and ext is not None and K + J <= ext and J >= 1:
                                return True
                    return False
                p = f.path_avoiding(None, terminates, from_entry=True)
                R.ob('C05.BND.1', starts_ok and p is None, f, 'the stored account is NUL-terminated where the copy stopped (or the field is cleared to its end from there) on every path', key='copy:terminated')
                continue
        if iv is None:
            # measure-then-copy form: a counter stepped only while the text goes on, memcpy of that many bytes, zero fill
            # of the rest of the field
            cps = [c for c in f.calls('memcpy') if is_field(c.ev['args'][0], 'account') and is_var(c.ev['args'][2]) and any(is_var(x) and x['name'] in srcp for x in walk(c.ev['args'][1]))]
            fills = [c for c in f.calls('memset') if any(is_field(x, 'account') for x in walk(c.ev['args'][0])) and const_of(c.ev['args'][1]) == 0]
            if not cps:
                R.ob('C05.BND.1', False, f, 'account copy loop not found', key='copy:shape')
                continue
            L = cps[0].ev['args'][2]['name']
            incs = [t for t in f.stores() if t.ev['k'] == 'store' and is_var(t.ev.get('lhs'), L) and t.ev.get('op') == '++']
            okm = bool(incs)
            for t in incs:
                gs = f.guards(t.bid)
                def stop(c):
                    return any(isinstance(g[0], dict) and g[0].get('k') == 'idx' and is_var(g[0]['base']) and g[0]['base']['name'] in srcp and is_var(g[0]['index'], L) and g[1] == '!=' and const_of(g[2]) == c for g in gs)
                lim = [const_of(g[2]) for g in gs if is_var(g[0], L) and g[1] == '<' and isinstance(const_of(g[2]), int)]
                R.ob('C05.BND.1', stop(32), t, 'the account length stops at the first space', key='copy:space')
                R.ob('C05.BND.1', stop(0), t, 'the account length stops at the end of the text', key='copy:nul')
                R.ob('C05.BND.1', bool(lim) and ext is not None and min(lim) <= ext - 1, t, 'the account length stops at the length limit (%s, extent %s)' % (lim, ext), key='copy:limit')
            okf = bool(fills) and f.path_avoiding(cps[0], lambda t: t in fills) is None and any(x.get('k') == 'bin' and x.get('op') == '+' and is_var(x.get('r'), L) for x in walk(fills[0].ev['args'][0])) \
                and sx(fills[0].ev['args'][2]).replace(' ', '') == '(%d-%s)' % (ext or -1, L)
            R.ob('C05.BND.1', okm and okf, cps[0], 'the account is NUL-terminated whatever the text was (zero fill from the copied length to the end of the field)', key='copy:terminated')
            continue
        before, bout, INF = rules.index_bound_states(f, iv)

        def on_edge(st, e):
            ub, done = st
            r = rules.edge_rel(e)
            if r:
                n = rules.upper_bound_from_rel(r, iv)
                if n is not None and n < ub:
                    ub = n
                if is_var(r[0], iv) and r[1] in ('>=', '>') and const_of(r[2]) is not None:
                    lo = const_of(r[2]) + (1 if r[1] == '>' else 0)
                    if ub <= lo:
                        return None
            return (ub, done)

        def on_event(st, s):
            ub, done = st
            ev = s.ev
            if ev['k'] == 'store' and is_var(ev.get('lhs'), iv):
                if ev.get('op') == '++':
                    ub = ub + 1 if ub < 10 ** 6 else ub
                elif ev.get('op') == '=' and const_of(ev.get('rhs')) is not None:
                    ub = const_of(ev['rhs']) + 1
                else:
                    ub = 10 ** 9
            # the terminator goes where the copy stopped (the copy index itself), or the whole field was cleared first:
            # a NUL at a fixed position leaves the tail of an earlier, longer stamp behind a shorter one
            if ev['k'] == 'store' and ev['lhs'].get('k') == 'idx' and is_field(ev['lhs']['base'], 'account') and const_of(ev.get('rhs')) == 0 and is_var(ev['lhs']['index'], iv):
                done = True
            if ev['k'] == 'call' and ev.get('callee') == 'memset' and ev['args'] and is_field(ev['args'][0], 'account') and const_of(ev['args'][1]) == 0 \
                    and const_of(ev['args'][2]) == ext:
                done = True
            return (min(ub, 10 ** 9), done)
        _, at_exit, _, _ = f.forward((10 ** 9, False), on_event, on_edge)
        R.ob('C05.BND.1', bool(at_exit) and all(d for _, d in at_exit), f, 'the stored account is NUL-terminated where the copy stopped (or the field is cleared first) on every path', key='copy:terminated')
    R.floor('C05.BND.1', 4)


def accept_forms(P, R):
    acc = P.need_fn('iauth_accept')

    def classify(r):
        l, op, rr = r
        out = []
        for field in ('account', 'class'):
            if isinstance(l, dict) and l.get('k') == 'idx' and is_field(l['base'], field, core.REQ_REC) and const_of(l['index']) == 0 and const_of(rr) == 0 and op in ('==', '!='):
                out.append((field, op == '!='))
        return out

    def kill(t):
        # a module callback may fill in the account or the class: what was tested before it is stale
        if t.ev['k'] == 'call' and not t.ev.get('callee'):
            return ('account', 'class')
        return ()
    before = rules.atom_forward(acc, classify, kill)
    forms = {}
    for s in acc.calls('iauth_send'):
        fmt = rules.fmt_literal(s.ev, 1)
        w = core.first_word(fmt)
        if w not in ('R', 'D'):
            continue
        args = s.ev['args'][2:]
        sts = [rules.facts_of(st) for st in before.get(s.key, set())]

        def nonempty(field):
            vals = {d.get(field) for d in sts}
            return vals.pop() if len(vals) == 1 else None
        names = [a['field'] if a.get('k') == 'mem' else sx(a) for a in args]
        forms[fmt] = (names, nonempty('account'), nonempty('class'))
        if w == 'R':
            ok = names[:1] == ['account'] and nonempty('account') is True
            if len(names) == 2:
                ok = ok and names[1] == 'class' and nonempty('class') is True and fmt == 'R %s %s'
            else:
                ok = ok and fmt == 'R %s'
        else:
            ok = nonempty('account') is False
            if names:
                ok = ok and names == ['class'] and nonempty('class') is True and fmt == 'D %s'
            else:
                ok = ok and nonempty('class') is False and fmt == 'D'
        R.ob('C05.FMT.1', ok, s, 'accept form %r bound to %s under account non-empty=%s, class non-empty=%s' % (fmt, names, nonempty('account'), nonempty('class')), key='accept-form:%s' % fmt)
    R.ob('C05.FMT.1', set(forms) == {'R %s %s', 'R %s', 'D %s', 'D'}, acc, 'the accept line has exactly its four forms (found %s)' % sorted(forms), key='accept-forms')
    for name, word in (('iauth_challenge', 'C'), ('iauth_kill', 'k'), ('iauth_quietly_kill', 'k'), ('iauth_user_mode', 'M')):
        f = P.need_fn(name)
        for s in f.calls('iauth_send'):
            fmt = rules.fmt_literal(s.ev, 1)
            a = s.ev['args']
            ok = fmt == '%s :%%s' % word and len(a) == 3 and is_var(a[0], f.params[0]) and is_var(a[2], f.params[1])
            R.ob('C05.FMT.1', ok, s, '%s relays its text parameter verbatim to its own client (format %r)' % (name, fmt), key='relay:%s' % name)
    R.floor('C05.FMT.1', 9)


def plus_x(P, R, writers):
    n = 0
    for k in writers:
        setter = P.fns[k]
        for s0 in P.callers(setter, may=True):
            f = s0.fn

            def on_event(st, s, s0=s0):
                started, hh, ho, sent = st
                if s.key == s0.key:
                    return (True, hh, ho, False)
                ev = s.ev
                if rules.is_call(s, 'iauth_user_mode') and len(ev['args']) > 1 and ev['args'][1].get('k') == 'str' and ev['args'][1]['v'].startswith('+x'):
                    return (started, hh, ho, True)
                if ev['k'] == 'call' and holds.FieldWrites(P).site_writes(s, 'modes'):
                    return (started, None, None, sent)
                return st

            def on_edge(st, e):
                started, hh, ho, sent = st
                r = rules.edge_rel(e)
                if r and isinstance(r[0], dict) and r[0].get('k') == 'bittest' and const_of(r[2]) == 0 and is_field(r[0].get('set'), 'modes'):
                    v = r[1] == '!='
                    if r[0].get('bit') == 'IAUTH_XQUERY_HIDDEN_HOST':
                        if hh is not None and hh != v:
                            return None
                        hh = v
                    if r[0].get('bit') == 'IAUTH_XQUERY_HIDDEN_ONLY':
                        if ho is not None and ho != v:
                            return None
                        ho = v
                return (started, hh, ho, sent)
            _, at_exit, _, _ = f.forward((False, None, None, False), on_event, on_edge)
            bad = [st for st in at_exit if st[0] and not st[3] and not (st[1] is False and st[2] is False)]
            n += 1
            R.ob('C05.GRD.1', not bad, s0, 'after the account is stamped, every path on which +x or +! may be requested sends user mode +x'
                 + ('' if not bad else ' (a path returns without it with hidden-host=%s hidden-only=%s)' % (bad[0][1], bad[0][2])), key='plus-x')
    R.floor('C05.GRD.1', 1)


def mode_update(P, R, rule='C05.MPT.2'):
    """"+x is sent when such a client asked for host hiding": the PASS prefix is folded into the client's modes so
    that the last mention of a mode wins.  Either the two scratch sets (to set / to clear) are kept disjoint at every
    step, or at least every "clear" step removes the mode from the to-set set and the to-clear set is applied before
    the to-set set."""
    f = None
    for g in P.fns.values():
        if any(c.ev.get('callee') == 'bitset_andnot' and any(on_path(a, 'modes') for a in c.ev['args'][:1]) for c in g.calls()):
            f = g
    if f is None:
        raise AnalysisBroken('no function folds a to-clear set into the client modes')
    ornot = [c for c in f.calls('bitset_andnot') if on_path(c.ev['args'][0], 'modes')]
    ors = [c for c in f.calls('bitset_or') if on_path(c.ev['args'][0], 'modes')]
    if not ornot or not ors:
        raise AnalysisBroken('mode update no longer uses the bulk and-not / or')
    C = root_var(ornot[0].ev['args'][2])
    S = root_var(ors[0].ev['args'][2])
    if C is None or S is None:
        raise AnalysisBroken('mode update operands are not local sets')
    C, S = C['name'], S['name']

    def partner(s, other, kind):
        return any(t.ev['k'] == kind and root_var(t.ev.get('set')) is not None and root_var(t.ev['set'])['name'] == other and t.ev.get('bit') == s.ev.get('bit') for t in f.block_sites(s.bid))
    sets_S = [s for s in f.sites() if s.ev['k'] == 'bitset' and root_var(s.ev.get('set')) is not None and root_var(s.ev['set'])['name'] == S]
    sets_C = [s for s in f.sites() if s.ev['k'] == 'bitset' and root_var(s.ev.get('set')) is not None and root_var(s.ev['set'])['name'] == C]
    full = all(partner(s, C, 'bitclear') for s in sets_S) and all(partner(s, S, 'bitclear') for s in sets_C)
    half = all(partner(s, S, 'bitclear') for s in sets_C)
    order = f.before(ornot[0], ors[0]) if hasattr(f, 'before') else False
    R.ob(rule, bool(sets_S) and bool(sets_C) and (full or (half and order)), ors[0],
         'the last mention of a mode in the PASS prefix wins: to-set and to-clear are kept disjoint (%s), or clears drop the mode from to-set (%s) and to-clear is applied first (%s)' % (full, half, order), key='mode-update')
    # the modes asked for are the client's own: the scratch sets are only written while the PASS prefix is scanned, i.e.
    # under a test of one of its characters (a later "correction" of the demand - dropping +! because it looks
    # unsatisfiable, say - makes the daemon accept a client that demanded account-only visibility without an account)
    for s in f.sites():
        if s.ev['k'] not in ('bitset', 'bitclear') or root_var(s.ev.get('set')) is None or root_var(s.ev['set'])['name'] not in (S, C):
            continue
        by_char = False
        for e in f.dominating_edges(s.bid):
            if e.label == 'case' and any(v in (ord('x'), ord('!'), ord('+'), ord('-')) for v in (e.vs or [])):
                by_char = True
            r = rules.edge_rel(e)
            if r and isinstance(r[0], dict) and (r[0].get('k') in ('idx',) or (r[0].get('k') == 'un' and r[0].get('op') == '*')) and isinstance(const_of(r[2]), int) and const_of(r[2]) in (ord('x'), ord('!'), ord('+'), ord('-')):
                by_char = True
            if r and is_var(r[0]) and isinstance(const_of(r[2]), int) and const_of(r[2]) in (ord('x'), ord('!')):
                by_char = True
        R.ob(rule, by_char, s, 'the %s mode asked for is changed only under a test of a character of the PASS prefix' % s.ev.get('bit'), key='mode-from-text:%s' % s.ev.get('bit'))
    R.floor(rule, 1)


IRCD_LINE = 512     # ircd's line buffer: the longest XREPLY / server line that can arrive


def relay_capacity(P, R, rule='C05.BND.2'):
    """Texts are relayed verbatim only if the outgoing line has room for them: a client-directed line is the text
    that arrived (at most an ircd line) plus the " <id> <address> <port>" insertion, so the sender's buffer holds
    at least an ircd line plus the widest insertion."""
    from .. import bnd
    snd = core.sender(P)
    bufs = [s for s in snd.sites() if s.ev['k'] == 'decl' and s.ev.get('array') and s.ev.get('t', '').startswith('char[')]
    ins = [s for s in snd.calls('snprintf')]
    if not bufs or not ins:
        raise AnalysisBroken('the sender has no local message buffer / insertion')
    fmt = rules.fmt_literal(ins[0].ev, 2)
    w = bnd.fmt_width(P, snd, fmt, ins[0].ev['args'][3:]) if fmt else None
    ext = max(s.ev['array'] for s in bufs)
    R.ob(rule, w is not None and ext >= IRCD_LINE + w, bufs[0], 'the sender\'s buffer (%d bytes) holds an ircd line (%d) plus the widest " <id> <address> <port>" insertion (%s)' % (ext, IRCD_LINE, w), key='relay-capacity')


def run(P, R, tier):
    mode_update(P, R)
    rules.bitset_primitives(P, R, 'C05.TAB.3')
    relay_capacity(P, R)
    # an account stamp "for this instance": instances are told apart by a serial that must not repeat
    from . import c04
    c04.serial_writers(P, Remap(R, {'C04.WMC.2': 'C05.WMC.3'}), c04.reader_is_canonical(P))
    # the class reported with the verdict depends on how the class rules read the account stamp
    from . import c11
    c11.matcher(P, Remap(R, {'C11.FMT.1': 'C05.FMT.2', 'C11.GRD.2': 'C05.GRD.2', 'C11.GRD.3': 'C05.GRD.2'}))
    slices(P, R)
    # an account is stamped for `OK <account>`, not for a text that begins with the two letters
    from . import c02 as _c02d
    _c02d.decoys_unrecognised(P, R, 'C05.TAB.6')
    w = account_writers(P, R)
    account_copy(P, R, w)
    account_nonempty(P, R, w)
    accept_forms(P, R)
    plus_x(P, R, w)
    # the login-type test may be written by exclusion only if a service's protocol is always a valid enumerator
    from . import c06
    c06.type_range(P, R, 'C05.TAB.2')
    # texts are relayed verbatim only if the line is not edited on the way
    from . import c08
    c08.line_buffer_writes(P, R, 'C05.WMC.2')
    # what a service said counts once, while it is awaited: a repeated reply must not stamp an account or refuse
    # an approved client, and a pending service's refusal must not be lost
    from . import c04 as _c04
    R4 = Remap(R, {'C04.GRD.2': 'C05.GRD.3', 'C04.GRD.3': 'C05.GRD.3'})
    cl4 = _c04.lookup_discipline(P, R4)
    _c04.effects_guarded(P, R4, cl4)
    _c04.lookup_skips(P, R4, cl4)
    from .. import holds
    holds.soft_hold_typestate(P, R, 'C05.GRD.4')
    # "OK from a named service" is read from the bit of that service's slot
    c11.ok_query(P, R, 'C05.GRD.5')
    c11.ok_recorded(P, Remap(R, {'C11.MPT.2': 'C05.GRD.6'}))
    # a client's new credentials (and their +x prefix) are parsed as such once the challenge has been answered
    from . import c06 as _c06
    xq6, b6 = _c06.builder(P)
    _c06.more_answered_once(P, R, xq6, 'C05.MPT.3')
    # relayed texts end where the line ends: CR LF is one terminator
    c08.line_splitting(P, R, 'C05.TAB.4')
    # the account a class rule sees is this client's stamp, not a copy kept from an earlier client
    from . import c07
    c07.storage_audit(P, Remap(R, {'C07.WMC.1': 'C05.WMC.4', 'C07.WMC.2': 'C05.WMC.4'}))
    # shared (round 9): the class in the verdict is the first matching rule's in name order, and an account is only
    # taken from a service whose protocol is the configured one
    from ..report import Remap as _Remap
    from . import c11 as _c11, c17 as _c17
    _c11.comparator(P, _Remap(R, {'C11.TAB.1': 'C05.TAB.5'}))
    _c17.slot_insertion(P, _Remap(R, {'C17.MPT.2': 'C05.MPT.4'}))
    return EXPLANATION, ASSUMPTIONS
