"""C13 - netmask parsing and matching (partial: the memory clause only).

Decided: "every other string is ... parsed without touching memory outside its arguments" - for the
address parser, its dotted-quad helper and the mask test: every subscript of the 8-group array stays
inside it, the 4-byte copy of an embedded IPv4 address fits, shift counts are below the operand
width and left shifts do not reach the sign bit, and the input cursor never moves past the
terminating NUL nor reads beyond it.  NOT decided: everything that is about values - that the mask
test compares exactly the leading n bits, the prefix lengths and network bits of CIDR / wildcard
forms, agreement with inet_pton."""
from ..facts import AnalysisBroken
from ..model import sx, walk, is_var, const_of, on_path
from .. import numeric, cursor, rules
from ..rules import event_exprs as _event_exprs

EXPLANATION = (
    'Memory clause of C13, decided by abstract interpretation of the address code in modules/iauth_misc.c '
    '(irc_pton, irc_pton_ip4, irc_check_mask and any static helper of that unit they call): (IDX.1) a relational '
    'numeric analysis (octagons: constraints +-x +-y <= c over the integer locals, partitioned on the constants a '
    'variable is compared with, widening with thresholds; unsigned wrap-around honoured) proves every subscript '
    'of an array of known extent - the eight 16-bit groups - inside the array, including the "::" shift and '
    'zero-fill loops whose safety rests on cpos <= ii <= 8; (IDX.2) memcpy/memset into `array + k` stays inside '
    'the array; (SHF.1) every shift count lies in [0, width) and no left shift computed in int reaches the sign '
    'bit; (CUR.1) index-cursor typestate over the NUL-terminated input: a byte is only read at an offset up to '
    'the number of bytes known non-NUL from the cursor on, the cursor only advances over bytes known non-NUL, '
    'and a computed jump is accepted only as "helper returned 0 or its own valid cursor" (summary computed by '
    'the same analysis on the helper).  These are necessary conditions of "parsed without touching memory '
    'outside its arguments".  NOT decided: that the mask test succeeds exactly when the leading prefix-length '
    'bits are equal, the prefix length / network bits produced for CIDR and wildcard texts, agreement with the '
    'standard parser - all statements about values.  One table clause of the value part is decided: (TAB.1) the '
    'prefix offset of an embedded dotted quad is the same constant 8*(16-4) at both sites that add it.'
    ' Rounds 8-9: (TAB.8) where the parser reports 128 bits and succeeds it has seen that no /n follows; (INIT.3) the rule table starts out zeroed.')
ASSUMPTIONS = [
    'clang 14 front end / CFG; integer types as on the build host (LP64)',
    'callers pass a valid NUL-terminated string and a valid irc_inaddr (checked for the daemon\'s own call sites by C06/C08 bounded-copy rules)',
    'no signed overflow in int arithmetic other than the shifts that are checked (C semantics: undefined, assumed absent)',
    'ctype class tests other than iscntrl are false for NUL; entry 0 of the project\'s char_types table is 0',
]

ROOTS = ('irc_pton', 'irc_check_mask')


def scope(P):
    roots = [P.need_fn(n) for n in ROOTS]
    unit = roots[0].unit
    seen, work = {}, list(roots)
    while work:
        f = work.pop()
        if f.key in seen:
            continue
        seen[f.key] = f
        for s in f.calls():
            g = P.direct_target(f, s.ev.get('callee')) if s.ev.get('callee') else None
            if g is not None and g.unit == unit and g.key not in seen:
                work.append(g)
    return sorted(seen.values(), key=lambda f: f.name)


def site_of(P, f, where):
    if hasattr(where, 'loc'):
        return where
    if isinstance(where, tuple) and where[2]:
        return P.relloc(where[2])
    return f


def numeric_rules(P, R, fns, prefix='C13'):
    n_idx = n_cp = n_sh = 0
    for f in fns:
        an = numeric.Analysis(f)
        if an.notes:
            raise AnalysisBroken('numeric analysis of %s did not converge: %s' % (f.name, an.notes))
        for o in numeric.obligations(an):
            w = site_of(P, f, o['where'])
            rng = '[%s, %s]' % (o['lo'], o['hi'])
            if o['kind'] == 'subscript':
                n_idx += 1
                R.ob(prefix + '.IDX.1', o['ok'], w, 'in %s the subscript of %s stays inside the array: inferred range %s, extent %d' % (f.name, o['expr'], rng, o['extent']),
                     key='idx:%s:%s' % (f.name, o['expr']))
            elif o['kind'] == 'blockcopy':
                n_cp += 1
                R.ob(prefix + '.IDX.2', o['ok'], w, 'in %s the block copy %s stays inside %s (%d bytes): last byte offset at most %s' % (f.name, o['expr'], o['array'], o['extent'], o['hi']),
                     key='copy:%s:%s' % (f.name, o['expr']))
            elif o['kind'] == 'shift':
                n_sh += 1
                R.ob(prefix + '.SHF.1', o['ok'], w, 'in %s the shift count of %s lies in [0, %d): inferred range %s' % (f.name, o['expr'], o['extent'], rng),
                     key='shift:%s:%s' % (f.name, o['expr']))
            elif o['kind'] == 'signed-shift':
                n_sh += 1
                if '>>' in o['expr'] and '<<' not in o['expr']:
                    R.ob(prefix + '.SHF.1', o['ok'], w, 'in %s the right shift %s has a signed left operand that is never negative: inferred range [%s, %s]' % (f.name, o['expr'], o['lo'], o['hi']),
                         key='sshift:%s:%s' % (f.name, o['expr']))
                else:
                    R.ob(prefix + '.SHF.1', o['ok'], w, 'in %s the left shift %s is computed in int and stays below the sign bit: largest result %s' % (f.name, o['expr'], o['hi']),
                         key='sshift:%s:%s' % (f.name, o['expr']))
    return n_idx, n_cp, n_sh


def cursor_rules(P, R, fns, rule='C13.CUR.1'):
    n = 0
    summaries = {}
    for f in fns:
        cs = cursor.find_cursors(f)
        for S, vs in sorted(cs.items()):
            for pv in sorted(vs):
                r = cursor.analyse(P, f, S, pv, summaries)
                if not r.reads:
                    continue
                n += 1
                for s, m in r.problems:
                    R.ob(rule, False, site_of(P, f, s) if s is not None else f, '%s scanning %s with cursor %s: %s' % (f.name, S, pv, m), key='cursor:%s:%s' % (f.name, m[:50]))
                if not r.problems:
                    R.ob(rule, True, f, '%s scans %s with cursor %s: %d reads stay within the bytes known non-NUL, %d advances only over bytes known non-NUL%s'
                         % (f.name, S, pv, r.reads, r.advances, ('; ' + '; '.join(r.jumps)) if r.jumps else ''), key='cursor-ok:%s:%s' % (f.name, pv))
    return n


def prefix_offsets(P, R, rule='C13.TAB.1'):
    """Prefix lengths, table part: an embedded dotted quad occupies the last 32 of the 128 bits, so wherever the
    parser adds an offset to the prefix length reported by the dotted-quad helper the offset is 8 * (sizeof
    address - 4), at every site (sibling agreement between the pure IPv4 branch and the IPv6-embedded branch)."""
    pf = P.need_fn('irc_pton')
    bitsp = [p['name'] for p in pf.param_info if p.get('t', '').replace('const ', '') == 'unsigned int *']
    want = None
    for x in (e for s in pf.sites() for ex in __import__('sa.rules', fromlist=['x']).event_exprs(s.ev) for e in walk(ex)):
        if x.get('k') == 'mem' and isinstance(x.get('arr'), int) and x.get('elsz'):
            want = 8 * (x['arr'] * x['elsz'] - 4)
            break
    n = 0
    for s in pf.stores():
        ev = s.ev
        lhs = ev.get('lhs') or {}
        if ev['k'] == 'store' and lhs.get('k') == 'un' and lhs.get('op') == '*' and is_var(lhs.get('e')) and lhs['e']['name'] in bitsp and ev.get('op') == '+=':
            n += 1
            R.ob(rule, want is not None and const_of(ev.get('rhs')) == want, s, 'the prefix length of an embedded dotted quad is offset by %s bits (found %s)' % (want, sx(ev.get('rhs'))), key='prefix-offset')
    R.floor(rule, 2, 'IPv4 branch and IPv6-embedded branch')


def prefix_width(P, R, rule='C13.TAB.2'):
    """A prefix length runs from 0 to 128: whatever holds the length handed to the mask test (a rule's field, a
    local) can represent 128 - a narrower bit-field silently turns /128 (every plain host address) into /0."""
    n = 0
    for f in P.fns.values():
        if f.unit.startswith('tests/'):
            continue
        for s in f.calls('irc_check_mask'):
            if len(s.ev['args']) < 3:
                continue
            x = s.ev['args'][2]
            n += 1
            if isinstance(x, dict) and x.get('k') == 'mem':
                fd = P.record_field(x.get('rec'), x['field']) or {}
                ok = not fd.get('bitfield') or fd.get('bitwidth', 0) >= 8
                R.ob(rule, ok, s, 'the prefix length %s can hold 128 (%s)' % (sx(x), 'bit-field of %s bits' % fd.get('bitwidth') if fd.get('bitfield') else fd.get('t')), key='prefix-width:%s' % x['field'])
            else:
                R.ob(rule, True, s, 'the prefix length %s is a full-width value' % sx(x), key='prefix-width:expr', nontrivial=False)
    if n == 0:
        R.note('%s: no caller of irc_check_mask outside the tests' % rule)


def fold_const(e, env):
    """constant folding of an integer expression under known values of variables / `literal[index]` reads"""
    if not isinstance(e, dict):
        return None
    c = const_of(e)
    if isinstance(c, int):
        return c
    k = e.get('k')
    if k == 'var' and e['name'] in env:
        v = env[e['name']]
        return v if isinstance(v, int) else None
    if k == 'idx' and is_var(e.get('base')) and isinstance(env.get(e['base']['name']), str):
        i = fold_const(e['index'], env)
        lit = env[e['base']['name']]
        if i is None or not (0 <= i <= len(lit)):
            return None
        return ord(lit[i]) if i < len(lit) else 0
    if k == 'callref' and e.get('callee') in ('toupper', 'tolower') and e.get('args'):
        v = fold_const(e['args'][0], env)
        if v is None:
            return None
        ch = chr(v & 255)
        return ord(ch.upper() if e['callee'] == 'toupper' else ch.lower()) if ch.isascii() and ch.isalpha() else v
    if k == 'un' and e.get('op') == '~':
        v = fold_const(e['e'], env)
        return None if v is None else ~v
    if k == 'bin' and e.get('op') in ('&', '|', '^', '+', '-', '<<', '>>'):
        a, b = fold_const(e['l'], env), fold_const(e['r'], env)
        if a is None or b is None:
            return None
        return {'&': a & b, '|': a | b, '^': a ^ b, '+': a + b, '-': a - b, '<<': a << b, '>>': a >> b}[e['op']]
    return None


def prefix_honoured(P, R, rule='C13.TAB.8'):
    """"x:y::/n yields the documented prefix length": wherever the IPv6 branch of the parser decides that the text is a
    plain address (it reports the full length, 128) and goes on to succeed, it knows that no prefix length follows at
    the place it stopped - the character there is not '/', or what follows the '/' is not a digit.  A way out of the
    group loop that reports 128 without having looked (all eight groups ended by ':', the last one by the second ':' of
    a trailing "::") drops the "/n" of "1:2:3:4:5:6:7::/112" - or refuses the text."""
    f = P.need_fn('irc_pton')
    outb = [p_['name'] for p_ in f.param_info if p_.get('t', '').replace(' ', '') in ('unsignedint*',)]
    if not outb:
        raise AnalysisBroken('irc_pton no longer reports the prefix length through a parameter')
    bp = outb[0]
    textp = [p_['name'] for p_ in f.param_info if p_.get('t', '').replace(' ', '') == 'constchar*']
    posv = set()
    for t in f.sites():
        for ex in rules.event_exprs(t.ev):
            for x in walk(ex):
                if x.get('k') == 'idx' and is_var(x.get('base')) and x['base']['name'] in textp:
                    posv |= {v for v in (y.get('name') for y in walk(x.get('index')) if y.get('k') == 'var') if v}
    for b_ in f.blocks:
        for x in walk(f.term_cond(b_) or {}):
            if x.get('k') == 'idx' and is_var(x.get('base')) and x['base']['name'] in textp:
                posv |= {v for v in (y.get('name') for y in walk(x.get('index')) if y.get('k') == 'var') if v}

    def at_pos(e, depth=0):
        """e is input[pos] for one of the cursor variables - or a local that holds a copy of it (`ch = input[pos]`)"""
        while isinstance(e, dict) and e.get('k') == 'cast':
            e = e.get('e')
        if isinstance(e, dict) and e.get('k') == 'idx' and is_var(e.get('index')) and e['index']['name'] in posv:
            return True
        if is_var(e) and e.get('sc') == 'local' and depth < 2:
            defs = f.local_defs(e['name'])
            vals = [d.ev.get('rhs') if d.ev['k'] == 'store' else d.ev.get('init') for d in defs]
            return bool(vals) and all(isinstance(v, dict) and at_pos(v, depth + 1) for v in vals)
        return False

    def on_event(st, t):
        last, free, nul = st
        ev = t.ev
        if ev['k'] == 'store' and is_var(ev.get('lhs')) and ev['lhs']['name'] in posv:
            return (last, False, nul)
        lhs = ev.get('lhs') or {}
        if ev['k'] == 'store' and lhs.get('k') == 'un' and lhs.get('op') == '*' and is_var(lhs.get('e'), bp):
            if ev.get('op') == '=' and const_of(ev.get('rhs')) == 128:
                return ('full', free, nul)
            return ('other', free, nul)
        return st

    def on_edge(st, e):
        last, free, nul = st
        r0 = rules.edge_rel(e)
        if r0 and is_var(r0[0], bp) and const_of(r0[2]) == 0 and r0[1] in ('==', '!='):
            isnull = r0[1] == '=='
            if nul is not None and nul != isnull:
                return None        # the same pointer cannot be NULL at one test and non-NULL at the next
            return (last, free, isnull)
        if e.label == 'default' and at_pos(e.cond) and ord('/') in (e.notin or ()):
            return (last, True, nul)
        if e.label == 'case' and at_pos(e.cond) and ord('/') not in (e.vs or ()):
            return (last, True, nul)
        r = rules.edge_rel(e)
        if r:
            if at_pos(r[0]) and isinstance(const_of(r[2]), int):
                c = const_of(r[2])
                if (r[1] == '!=' and c == ord('/')) or (r[1] == '==' and c != ord('/')):
                    return (last, True, nul)
            # isdigit(input[pos + 1]) == 0: what follows is not a prefix length
            l = r[0]
            if isinstance(l, dict) and l.get('k') in ('callref',) and l.get('callee') in ('isdigit', 'ct_isdigit') and const_of(r[2]) == 0 and r[1] == '==':
                return (last, True, nul)
            if isinstance(l, dict) and l.get('k') == 'bin' and l.get('op') == '&' and any(x.get('k') == 'callref' and x.get('callee') == '__ctype_b_loc' for x in walk(l)) and const_of(r[2]) == 0 and r[1] == '==':
                return (last, True, nul)
        return st
    before, _, _, _ = f.forward((None, False, None), on_event, on_edge)
    n = 0
    for t in f.sites():
        if t.ev['k'] != 'ret' or const_of(t.ev.get('val')) == 0:
            continue
        sts = before.get(t.key, set())
        bad = [st for st in sts if st[0] == 'full' and not st[1]]
        n += 1
        R.ob(rule, not bad, t, 'where irc_pton succeeds after reporting the full length 128, it has seen that no "/n" follows the place it stopped (%d path state(s), %d without that knowledge)' % (len(sts), len(bad)), key='prefix-honoured')
    R.floor(rule, 1, 'successful returns of irc_pton')


def hex_table(P, R, rule='C13.TAB.3'):
    """Group values and hex escapes are read through the character table: folding the table's initialiser over its
    literal digit string, every hexadecimal digit - in both letter cases - carries the hex-digit class and its value."""
    ci = P.fn('ctype_init')
    if ci is None:
        raise AnalysisBroken('ctype_init has vanished')
    lits = {s.ev['var']: s.ev['init']['v'] for s in ci.sites() if s.ev['k'] == 'decl' and s.ev.get('static') and (s.ev.get('init') or {}).get('k') == 'str'}
    hexlit = [v for v, t in lits.items() if t.lower().startswith('0123456789abcdef')]
    if not hexlit:
        # the table is filled some other way (ranges, arithmetic on the character): this rule folds the initialiser over
        # its literal digit string and cannot judge that - neither a pass nor a violation
        raise AnalysisBroken('%s: ctype_init no longer fills the hex digits from a literal digit string; the table cannot be folded' % rule)
    hv = hexlit[0]
    table = {}
    undecided = 0
    for s in ci.stores():
        lhs = s.ev.get('lhs') or {}
        if not (s.ev['k'] == 'store' and lhs.get('k') == 'idx' and is_var(lhs.get('base'), 'char_types')):
            continue
        if not any(is_var(x.get('base'), hv) for x in walk(lhs['index']) if x.get('k') == 'idx'):
            continue
        ivs = sorted({x['index']['name'] for x in walk(lhs['index']) if x.get('k') == 'idx' and is_var(x.get('base'), hv) and is_var(x.get('index'))})
        if len(ivs) != 1:
            undecided += 1
            continue
        iv = ivs[0]
        for i in range(len(lits[hv])):
            env = {hv: lits[hv], iv: i}
            # guards on the index that hold at this store
            feasible = True
            for g in ci.guards(s.bid):
                a, b = fold_const(g[0], env), fold_const(g[2], env)
                if a is None or b is None:
                    continue
                if not {'==': a == b, '!=': a != b, '<': a < b, '<=': a <= b, '>': a > b, '>=': a >= b}.get(g[1], True):
                    feasible = False
            if not feasible:
                continue
            val = s.ev.get('rhs')
            if is_var(val) and ci.single_def(val['name']):
                val = ci.single_def(val['name'])[1]
            idx = fold_const(lhs['index'], env)
            v = fold_const(val, env)
            if idx is None or v is None:
                undecided += 1
                continue
            table[idx & 255] = v
    if undecided or not table:
        R.note('%s: the table initialiser could not be folded over its digit string (%d undecided stores); not judged' % (rule, undecided))
        return
    xd = 32
    for t in ci.sites():
        pass
    bad = []
    for ch in '0123456789abcdefABCDEF':
        v = table.get(ord(ch))
        if v is None or (v & 15) != int(ch, 16):
            bad.append('%r -> %s' % (ch, v))
    cls = {table.get(ord(ch), 0) & ~15 for ch in '0123456789abcdefABCDEF'}
    R.ob(rule, not bad and len(cls) == 1, ci, 'every hexadecimal digit carries its value in the character table, with one common class%s' % ((' (wrong: %s)' % ', '.join(bad)) if bad else ''), key='hex-table')


def helper_cursor(P, R, fns, rule='C13.CUR.2'):
    """The text handed to a scanning helper is a pointer into the input: on every path to the call the local was
    assigned (from the input), or - the one reasoned premise - the branch was entered knowing that the first
    separator found by strchr lies before the first one of the helper's kind (`dot == NULL || dot > colon`), which
    implies that the assignment behind that separator has run.  Dropping the premise leaves a NULL start."""
    keys = {f.key for f in fns}
    n = 0
    for f in fns:
        for s in f.calls():
            g = P.direct_target(f, s.ev.get('callee')) if s.ev.get('callee') else None
            if g is None or g.key not in keys or g.key == f.key or not s.ev['args']:
                continue
            a0 = s.ev['args'][0]
            if not (is_var(a0) and a0.get('sc') == 'local' and a0.get('t', '').endswith('*')):
                continue
            v = a0['name']
            finders = {}
            for t in f.sites():
                ev = t.ev
                val = ev.get('init') if ev['k'] == 'decl' else ev.get('rhs') if ev['k'] == 'store' and ev.get('op') == '=' else None
                name = ev.get('var') if ev['k'] == 'decl' else (ev['lhs']['name'] if ev['k'] == 'store' and is_var(ev.get('lhs')) else None)
                if name and isinstance(val, dict) and val.get('k') == 'callref' and val.get('callee') in ('strchr', 'memchr', 'strrchr'):
                    finders[name] = val

            def on_event(st, t):
                ev = t.ev
                if ev['k'] == 'decl' and ev.get('var') == v:
                    c = const_of(ev.get('init')) if ev.get('init') is not None else 0
                    return (ev.get('init') is not None and c != 0, st[1])
                if ev['k'] == 'store' and is_var(ev.get('lhs'), v) and ev.get('op') == '=':
                    return (const_of(ev.get('rhs')) != 0, st[1])
                return st

            def on_edge(st, e):
                r = e.rel()
                if not r or st[1]:
                    return st
                l, op, rr = r
                if is_var(l) and l['name'] in finders and const_of(rr) == 0 and op == '==':
                    return (st[0], True)
                if is_var(l) and is_var(rr) and l['name'] in finders and rr['name'] in finders and op in ('>', '<'):
                    return (st[0], True)
                return st
            before, _, _, _ = f.forward((False, False), on_event, on_edge)
            sts = before.get(s.key, set())
            n += 1
            bad = [st for st in sts if not (st[0] or st[1])]
            R.ob(rule, bool(sts) and not bad, s, 'the start handed to %s is assigned on every path to the call (or the branch is entered under the separator-order premise)' % g.name,
                 key='helper-start:%s' % g.name)
    return n

def mask_forms(P, R, fns, rule='C13.TAB.5'):
    """Three agreements inside the address code that the value clauses rest on:
      view     the mask test walks the address in the unit it counts in: the element it compares per step is as many
               bits wide as the step takes off the prefix length (16-bit groups <-> `bits -= 16`);
      output   every place where the dotted-quad helper hands back the address stores it in the same form (sibling
               stores through the output parameter are the same expression, e.g. all `htonl(ip)`);
      pending  a group's digits that have been accumulated are stored into the address before the accumulator is
               re-used for something else (the prefix length) or the parse ends successfully - unless the text is
               re-read from the saved start of the group by the dotted-quad helper."""
    n = 0
    for f in fns:
        # ---- view
        for head, body in __import__('sa.rules', fromlist=['x']).loops_of(f):
            steps = [t for x in body for t in f.block_sites(x) if t.ev['k'] == 'store' and t.ev.get('op') == '-=' and is_var(t.ev.get('lhs')) and isinstance(const_of(t.ev.get('rhs')), int)
                     and t.ev['lhs'].get('sc') == 'param']
            if not steps:
                continue
            cmps = []
            for x in list(body) + [head]:
                c = f.term_cond(x)
                for y in walk(c) if c is not None else ():
                    if y.get('k') == 'bin' and y.get('op') in ('!=', '==', '^') and all(isinstance(z, dict) and z.get('k') == 'idx' and (z.get('base') or {}).get('k') == 'mem' for z in (y.get('l'), y.get('r'))):
                        cmps.append(y)
            for y in cmps:
                elsz = (y['l']['base'] or {}).get('elsz')
                n += 1
                R.ob(rule, elsz is not None and 8 * elsz == const_of(steps[0].ev['rhs']), steps[0], 'in %s a step compares %s (%s bits) and takes %s off the prefix length' % (f.name, sx(y['l']), 8 * elsz if elsz else '?', sx(steps[0].ev['rhs'])),
                     key='view:%s' % f.name)
        # ---- output
        for j, p in enumerate(f.param_info):
            if not p.get('t', '').endswith('*') or p['t'].startswith('const'):
                continue
            st = [t for t in f.stores() if t.ev['k'] == 'store' and t.ev.get('op') == '=' and (t.ev.get('lhs') or {}).get('k') == 'un' and t.ev['lhs'].get('op') == '*' and is_var(t.ev['lhs'].get('e'), p['name'])]
            forms = {}
            for t in st:
                rhs = t.ev.get('rhs')
                if isinstance(rhs, dict) and rhs.get('k') in ('callref', 'var') and not isinstance(const_of(rhs), int):
                    import re as _re
                    # the copies of a local made by folding a helper back in are the same form
                    forms.setdefault(_re.sub(r'(@[A-Za-z0-9_]+)?#\d+', '', sx(rhs)), []).append(t)
            if sum(len(v) for v in forms.values()) >= 2 and any((t.ev.get('rhs') or {}).get('k') == 'callref' for v in forms.values() for t in v):
                major = max(forms, key=lambda k: len(forms[k]))
                for k, v in forms.items():
                    for t in v:
                        n += 1
                        R.ob(rule, k == major, t, 'in %s every store through %s hands the result back in the same form (%s; here %s)' % (f.name, p['name'], major, k), key='output-form:%s' % f.name)
        # ---- pending
        accs = {}
        for t in f.stores():
            ev = t.ev
            rhs = ev.get('rhs') or {}
            if ev['k'] == 'store' and ev.get('op') == '=' and is_var(ev.get('lhs')) and rhs.get('k') == 'bin' and rhs.get('op') == '|' and any(y.get('k') == 'bin' and y.get('op') == '<<' and is_var(y.get('l'), ev['lhs']['name']) for y in walk(rhs)):
                accs.setdefault(ev['lhs']['name'], []).append(t)
        for acc, sites in accs.items():
            keys = {f2.key for f2 in fns}

            def on_event(st, t, acc=acc):
                ev = t.ev
                if ev['k'] == 'store' and is_var(ev.get('lhs'), acc):
                    rhs = ev.get('rhs') or {}
                    if any(y.get('k') == 'bin' and y.get('op') == '<<' and is_var(y.get('l'), acc) for y in walk(rhs)):
                        return 'pending'
                    if st == 'pending':
                        return 'lost'
                    return st
                if ev['k'] == 'store' and (ev.get('lhs') or {}).get('k') == 'idx' and any(is_var(y, acc) for y in walk(ev.get('rhs'))):
                    return 'stored' if st != 'lost' else st
                if ev['k'] in ('call', 'store', 'decl'):
                    for y in walk(ev.get('rhs') if ev['k'] == 'store' else ev.get('init') if ev['k'] == 'decl' else ev):
                        if isinstance(y, dict) and y.get('k') in ('callref', 'call') and y.get('callee'):
                            g = P.direct_target(f, y['callee'])
                            if g is not None and g.key in keys and g.key != f.key and st == 'pending':
                                return 'reread'
                return st
            before, _, _, _ = f.forward('none', on_event, None)
            lost = [t for t in f.stores() if t.ev['k'] == 'store' and is_var(t.ev.get('lhs'), acc) and 'pending' in before.get(t.key, set())
                    and not any(y.get('k') == 'bin' and y.get('op') == '<<' and is_var(y.get('l'), acc) for y in walk(t.ev.get('rhs') or {}))]
            n += 1
            R.ob(rule, not lost, lost[0] if lost else sites[0], 'in %s the digits accumulated in %s are stored into the address before %s is re-used' % (f.name, acc, acc), key='pending:%s' % f.name)
    return n

def prefix_reported(P, R, fns, rule='C13.INIT.2'):
    """Whenever the parser has stored address bits and returns success, it has also reported a prefix length (if the
    caller asked for one): on every path to a non-zero return on which a group, a dotted quad or a wildcard was
    consumed, a store through the optional prefix-length parameter has happened - directly or in the dotted-quad
    helper, which is summarised by the same analysis.  A plain address without `/n` must come out as /128 (or /32),
    not with the caller's stale value."""
    from ..model import rel as _rel
    keys = {f.key: f for f in fns}
    summary = {}
    full = {}

    def analyse(f, depth=0):
        if f.key in summary:
            return summary[f.key]
        summary[f.key] = None
        full[f.key] = None
        outs = [p['name'] for p in f.param_info if p.get('t', '').replace(' ', '') in ('unsignedint*', 'unsigned*')]
        nulltested = set()
        for b in f.blocks:
            c = f.term_cond(b)
            r = _rel(c, True) if c is not None else None
            if r and is_var(r[0]) and r[0]['name'] in outs and const_of(r[2]) == 0:
                nulltested.add(r[0]['name'])
        pfx = [p for p in outs if p in nulltested]
        if not pfx:
            return None
        bp = pfx[0]

        def on_event(st, t):
            parsed, written = st
            ev = t.ev
            l = ev.get('lhs') or {}
            if ev['k'] == 'store' and l.get('k') == 'un' and l.get('op') == '*' and is_var(l.get('e'), bp):
                written = True
            if ev['k'] == 'store' and (l.get('k') == 'idx' and any(x.get('k') == 'mem' and x.get('field', '').startswith('in6') for x in walk(l))):
                parsed = True
            if ev['k'] == 'store' and l.get('k') == 'un' and l.get('op') == '*' and is_var(l.get('e')) and l['e']['name'] != bp and l['e'].get('sc') == 'param':
                parsed = True           # the helper's own output
            calls = [ev] if ev['k'] == 'call' else [x for ex in _event_exprs(ev) for x in walk(ex) if x.get('k') == 'callref']
            for c in calls:
                g = P.direct_target(f, c.get('callee')) if c.get('callee') else None
                if g is not None and g.key in keys and g.key != f.key and depth < 2:
                    sub = analyse(g, depth + 1)
                    if any(is_var(a, bp) for a in c.get('args', [])) and sub:
                        written = True
                    parsed = True
            return (parsed, written)

        def on_edge(st, e):
            r = e.rel()
            if r and is_var(r[0], bp) and const_of(r[2]) == 0 and r[1] == '==':
                return (st[0], True)        # the caller did not ask for it
            return st
        before, _, _, _ = f.forward((False, False), on_event, on_edge)
        bad = []
        for t in f.sites():
            if t.ev['k'] == 'ret' and t.ev.get('val') is not None and const_of(t.ev['val']) != 0:
                if any(p and not w for p, w in before.get(t.key, set())):
                    bad.append(t)
        summary[f.key] = not bad
        full[f.key] = (f, bp, bad)
        return summary[f.key]
    n = 0
    for f in fns:
        analyse(f)
        res = full.get(f.key)
        if isinstance(res, tuple):
            f2, bp, bad = res
            n += 1
            R.ob(rule, not bad, bad[0] if bad else f2, 'in %s every successful return that stored address bits has reported a prefix length through %s' % (f2.name, bp), key='prefix-reported:%s' % f2.name)
    return n

def optional_outputs(P, R, fns, rule='C13.NULL.1'):
    """A pointer parameter that the function itself compares with NULL somewhere is optional (the daemon passes NULL for
    the prefix-length output when it parses a client's address): every dereference of it, here or in a helper it is
    handed to, is dominated by a non-null test.  (Contradiction rule: one path checks, another must not assume.)"""
    from .. import rules as _rules
    from ..model import rel as _rel
    d = _rules.Deref(P)
    n = 0
    for f in fns:
        for i, p in enumerate(f.param_info):
            if not p.get('t', '').endswith('*'):
                continue
            tested = False
            for b in f.blocks:
                c = f.term_cond(b)
                r = _rel(c, True) if c is not None else None
                if r and is_var(r[0], p['name']) and const_of(r[2]) == 0:
                    # an assertion is a precondition, not optionality
                    if any(f.blocks[e.dst].get('noreturn') and any(t.ev.get('callee') == '__assert_fail' for t in f.block_sites(e.dst)) for e in f.out[b]):
                        continue
                    tested = True
            if not tested:
                continue
            bad = d.deref(f, i)
            n += 1
            w = d.witness.get((f.key, i))
            R.ob(rule, not bad, (w[0] if isinstance(w, tuple) and hasattr(w[0], 'loc') else f), 'in %s the optional output %s is dereferenced only where it is known to be non-NULL%s' % (f.name, p['name'], (' (%s)' % (w[1] if isinstance(w, tuple) else w)) if bad and w else ''),
                 key='optional:%s:%s' % (f.name, p['name']))
    return n

def helper_outputs(P, R, fns, rule='C13.INIT.1'):
    """A result the helper hands back through a pointer is read only when the helper has produced it: where the helper
    has returning paths that never store through the parameter (all of them return 0), every later use of the local
    whose address was passed is dominated by the test that the helper's return value is non-zero.  Testing something
    else (a cursor the return value was added to) lets a failed parse be used as an address."""
    keys = {f.key: f for f in fns}
    n = 0
    for f in fns:
        for s in f.sites():
            ev = s.ev
            call = None
            if ev['k'] == 'call':
                call, tgt = ev, None
                # the same call seen again as the value of the statement that follows: judged there
                nxt = f.block_sites(s.bid)[s.idx + 1:s.idx + 2]
                if nxt and nxt[0].ev['k'] in ('store', 'decl') and any(x.get('k') == 'callref' and x.get('callee') == ev.get('callee') and [sx(a) for a in x.get('args', [])] == [sx(a) for a in ev.get('args', [])]
                                                                         for x in walk(nxt[0].ev.get('init') if nxt[0].ev['k'] == 'decl' else nxt[0].ev.get('rhs'))):
                    continue
            else:
                val = ev.get('init') if ev['k'] == 'decl' else ev.get('rhs') if ev['k'] == 'store' else None
                for x in walk(val) if isinstance(val, dict) else ():
                    if x.get('k') == 'callref':
                        call = x
                tgt = ev.get('var') if ev['k'] == 'decl' else (ev['lhs']['name'] if ev['k'] == 'store' and is_var(ev.get('lhs')) else None)
                plain = isinstance(val, dict) and val.get('k') == 'callref' and (ev['k'] == 'decl' or ev.get('op') == '=')
            if call is None or not call.get('callee'):
                continue
            g = P.direct_target(f, call['callee'])
            if g is None or g.key not in keys or g.key == f.key:
                continue
            for j, a in enumerate(call.get('args', [])):
                if not (isinstance(a, dict) and a.get('k') == 'un' and a.get('op') == '&' and is_var(a.get('e')) and a['e'].get('sc') == 'local') or j >= len(g.params):
                    continue
                v, pj = a['e']['name'], g.params[j]

                def g_event(st, t, pj=pj):
                    e2 = t.ev
                    l2 = e2.get('lhs') or {}
                    if e2['k'] == 'store' and l2.get('k') == 'un' and l2.get('op') == '*' and is_var(l2.get('e'), pj):
                        return True
                    return st
                gb, _, _, _ = g.forward(False, g_event, None)
                silent = [t for t in g.sites() if t.ev['k'] == 'ret' and False in gb.get(t.key, set())]
                if not silent:
                    continue
                if not all(const_of(t.ev.get('val')) == 0 for t in silent):
                    R.note('%s: %s has a path that neither stores through %s nor returns 0; not judged' % (rule, g.name, pj))
                    continue
                # uses of v behind the call
                uses = []
                after = f.reach([e.dst for e in f.out[s.bid]])
                for t in f.sites():
                    if (t.bid == s.bid and t.idx > s.idx) or (t.bid in after and t.key != s.key and t.bid != s.bid):
                        if any(is_var(x, v) for ex in _event_exprs(t.ev) for x in walk(ex)):
                            # handing the address to the same helper again is not a use of the value
                            again = t.ev['k'] == 'call' and t.ev.get('callee') == call['callee'] or any(x.get('k') == 'callref' and x.get('callee') == call['callee'] for ex in _event_exprs(t.ev) for x in walk(ex))
                            if not again:
                                uses.append(t)
                ok_all = True
                for t in uses:
                    gs = f.guards(t.bid)
                    ok = False
                    for gr in gs:
                        l, op, rr = gr
                        if const_of(rr) == 0 and op in ('!=', '>'):
                            if ev['k'] != 'call' and plain and tgt and is_var(l, tgt):
                                ok = True
                            if isinstance(l, dict) and l.get('k') == 'callref' and l.get('callee') == call['callee']:
                                ok = True
                    n += 1
                    R.ob(rule, ok, t, 'in %s the value %s filled in by %s is used only behind the test that %s succeeded (returned non-zero)' % (f.name, v, g.name, g.name),
                         key='helper-output:%s:%s' % (f.name, v))
    return n

def _ret0_block(f, bid):
    """the block only returns the constant 0"""
    ss = f.block_sites(bid)
    return bool(ss) and ss[-1].ev['k'] == 'ret' and const_of(ss[-1].ev.get('val')) == 0 and all(t.ev['k'] in ('ret',) for t in ss)


def full_range(P, R, fns, rule='C13.TAB.4', parts=('copy', 'prefix', 'residue', 'fullform')):
    """Necessary conditions of "every valid text is accepted / every prefix bit is compared", read off the same
    numeric analysis: an inferred range is an over-approximation, so when its upper end falls short of what the format
    needs, the full-length case is provably refused or skipped.
      copy     the embedded dotted quad can land in the last two groups: the block copy's upper end is the array's extent;
      prefix   a parsed prefix length is refused exactly above the width of the address the function fills (8 * its size);
      residue  the mask test's partial-group shift reaches 15, i.e. a residue of one bit is still compared."""
    n = 0
    for f in fns:
        an = None
        # -- copy ------------------------------------------------------------------------------------
        if 'copy' in parts:
            for s in f.calls('memcpy'):
                a0 = s.ev['args'][0]
                if not any(x.get('k') == 'mem' and x.get('field') == 'in6' for x in walk(a0)):
                    continue
                an = an or numeric.Analysis(f)
                for o in numeric.obligations(an):
                    if o['kind'] == 'blockcopy' and hasattr(o['where'], 'key') and o['where'].key == s.key:
                        n += 1
                        R.ob(rule, o['hi'] is not None and o['hi'] >= o['extent'], s,
                             'the embedded dotted quad may fill the last two groups: the copy reaches byte %s of %s' % (o['hi'], o['extent']), key='reach:copy:%s' % f.name)
        # -- prefix ----------------------------------------------------------------------------------
        if 'prefix' in parts:
            nulltested = set()
            for b in f.blocks:
                c = f.term_cond(b)
                if c is None:
                    continue
                for x in walk(c):
                    pass
                from ..model import rel as _rel
                r = _rel(c, True)
                if r and is_var(r[0]) and const_of(r[2]) == 0 and r[0].get('sc') == 'param' and r[0].get('t', '').endswith('*'):
                    nulltested.add(r[0]['name'])
            outs = [p for p in f.param_info if p.get('t', '').endswith('*') and not p['t'].startswith('const') and p['name'] not in nulltested and 'char' not in p['t']]
            pfx = [p['name'] for p in f.param_info if p['name'] in nulltested and p.get('t', '').replace(' ', '') in ('unsignedint*', 'unsigned*')]
            psz = None
            for s in f.sites():
                for ex in _event_exprs(s.ev):
                    for x in walk(ex):
                        if x.get('k') == 'var' and outs and x.get('name') == outs[0]['name'] and x.get('psz'):
                            psz = x['psz']
            if pfx and psz:
                width = 8 * psz
                for s in f.stores():
                    ev = s.ev
                    lhs = ev.get('lhs') or {}
                    if not (ev['k'] == 'store' and ev.get('op') == '=' and lhs.get('k') == 'un' and lhs.get('op') == '*' and is_var(lhs.get('e')) and lhs['e']['name'] in pfx and is_var(ev.get('rhs'))):
                        continue
                    v = ev['rhs']['name']
                    writers = {t.bid for t in f.stores() if t.ev['k'] == 'store' and is_var(t.ev.get('lhs'), v)}
                    for b in f.blocks:
                        c = f.term_cond(b)
                        if c is None:
                            continue
                        for e in f.out[b]:
                            r = e.rel()
                            if not (r and is_var(r[0], v) and r[1] in ('>', '>=') and isinstance(const_of(r[2]), int) and _ret0_block(f, e.dst)):
                                continue
                            cont = [x.dst for x in f.out[b] if x is not e]
                            if s.bid not in f.reach(cont, cut_blocks=writers - {s.bid}):
                                continue
                            cmax = const_of(r[2]) - (1 if r[1] == '>=' else 0)
                            n += 1
                            R.ob(rule, cmax == width, P.relloc(f.blocks[b]['term'].get('loc')) if f.blocks[b].get('term', {}).get('loc') else f,
                                 'in %s a parsed prefix length is refused exactly above %d, the width of the %d-byte address it fills (refused above %d)' % (f.name, width, psz, cmax),
                                 key='reach:prefix:%s' % f.name)
        # -- fullform --------------------------------------------------------------------------------
        # the text with all groups written out (no "::") is accepted: where the arm for "the address ends here" reports
        # the full prefix length, the state "no gap was seen" (the gap marker still at its initial value, the array
        # extent) is feasible.  Refusing it there refuses every address the printer writes without "::".
        if 'fullform' in parts:
            gapv = None
            ext = None
            for s in f.sites():
                if s.ev['k'] == 'decl' and isinstance(const_of(s.ev.get('init')), int):
                    for x in (y for t in f.sites() for ex in _event_exprs(t.ev) for y in walk(ex)):
                        if x.get('k') == 'mem' and x.get('field') == 'in6' and isinstance(x.get('arr'), int) and x['arr'] == const_of(s.ev['init']):
                            gapv, ext = s.ev['var'], x['arr']
                            break
                if gapv:
                    break
            if gapv:
                an = an or numeric.Analysis(f)
                for s in f.stores():
                    l = s.ev.get('lhs') or {}
                    if s.ev['k'] == 'store' and s.ev.get('op') == '=' and l.get('k') == 'un' and l.get('op') == '*' and isinstance(const_of(s.ev.get('rhs')), int) and const_of(s.ev['rhs']) == 16 * ext:
                        # only the arm that stores a group right before (the terminator arm), not the trailing-text arms
                        if not any(t.ev['k'] == 'store' and (t.ev.get('lhs') or {}).get('k') == 'idx' for t in f.block_sites(s.bid)[:s.idx] + [u for e in f.inn[s.bid] for u in f.block_sites(e.src)] +
                                   [u for e in f.inn[s.bid] for e2 in f.inn[e.src] for u in f.block_sites(e2.src)]):
                            continue
                        sts = an.at(s)
                        feas = any(o.bounds(gapv)[0] == ext for o in sts)
                        n += 1
                        R.ob(rule, feas, s, 'where %s reports the full prefix length after the last group, "no gap seen" (%s == %d) is a feasible state: the fully written form is accepted' % (f.name, gapv, ext),
                             key='reach:fullform:%s' % f.name)
        # -- residue ---------------------------------------------------------------------------------
        if 'residue' in parts:
            ins = [p for p in f.param_info if p.get('t', '').startswith('const') and 'inaddr' in p.get('t', '')]
            cnt = [p['name'] for p in f.param_info if p.get('t') in ('unsigned int', 'unsigned', 'int')]
            if len(ins) == 2 and cnt:
                an = an or numeric.Analysis(f)
                for o in numeric.obligations(an):
                    if o['kind'] == 'shift' and '>>' in o['expr'] and any(c in o['expr'] for c in cnt):
                        n += 1
                        R.ob(rule, o['hi'] is not None and o['hi'] >= 15, site_of(P, f, o['where']),
                             'the partial-group comparison of %s covers a residue of a single bit: shift count range [%s, %s] reaches 15' % (f.name, o['lo'], o['hi']), key='reach:residue:%s' % f.name)
    return n


def mask_walk_from_start(P, R, rule='C13.TAB.7'):
    """"The mask test succeeds exactly when the leading prefix-length bits are equal": the comparison walks the groups
    from the first one with the prefix length it was given - the walk's index enters the loop as 0 and nothing takes
    bits off the length before the walk (a shortcut that starts further in trusts a classification of the operands
    - "both IPv4" - that the skipped groups do not all take part in)."""
    f = P.need_fn('irc_check_mask')
    from ..model import rel as _rel
    n = 0
    def addr_idx(x):
        # an element of the address through any view of the union (in6, in6_8, in6_32): which view is right is TAB.5's matter
        return isinstance(x, dict) and x.get('k') == 'idx' and any(isinstance(y, dict) and y.get('k') == 'mem' and str(y.get('field', '')).startswith('in6') for y in walk(x.get('base')))
    cmp_blocks = [b for b in f.reachable_blocks() if f.term_cond(b) is not None and sum(1 for x in walk(f.term_cond(b)) if addr_idx(x)) >= 2]
    if not cmp_blocks:
        raise AnalysisBroken('the mask test no longer compares group by group')
    cyc = [b for b in cmp_blocks if b in f.reach([e.dst for e in f.out[b]])]
    if not cyc:
        # no loop: the whole groups compared in one go, from the start of both arrays
        mc = [ex for t in f.sites() for ex in ([t.ev] if t.ev['k'] == 'call' else []) + [x for e_ in rules.event_exprs(t.ev) for x in walk(e_) if isinstance(x, dict) and x.get('k') == 'callref']
              if ex.get('callee') in ('memcmp', 'bcmp') and len(ex.get('args') or ()) >= 3]
        mc += [x for b_ in f.blocks for x in walk(f.term_cond(b_) or {}) if isinstance(x, dict) and x.get('k') == 'callref' and x.get('callee') in ('memcmp', 'bcmp') and len(x.get('args') or ()) >= 3]
        starts_ok = [c for c in mc if all(isinstance(a, dict) and a.get('k') == 'mem' and str(a.get('field', '')).startswith('in6') for a in c['args'][:2])]
        if not starts_ok:
            raise AnalysisBroken('the group comparison of the mask test is not in a loop')
        early = [t for t in f.stores() if t.ev['k'] == 'store' and any(is_var(t.ev.get('lhs'), p_['name']) for p_ in f.param_info if 'int' in p_.get('t', '') and '*' not in p_.get('t', ''))
                 and any(t.bid == b_ or f.dominates(t.bid, b_) for b_ in f.reachable_blocks() if any(isinstance(x, dict) and x.get('k') == 'callref' and x.get('callee') in ('memcmp', 'bcmp') for x in walk(f.term_cond(b_) or {})))]
        R.ob(rule, True, f, 'the whole groups of the mask test are compared in one call, from the first group of both addresses', key='mask-walk:start')
        R.ob(rule, not early, early[0] if early else f, 'the prefix length is not reduced before the walk', key='mask-walk:length')
        R.floor(rule, 2)
        return
    b0 = cyc[0]
    idxv = None
    for x in walk(f.term_cond(b0)):
        if isinstance(x, dict) and x.get('k') == 'idx' and is_var(x.get('index')):
            idxv = x['index']['name']
    loop = {x for x in f.reach([e.dst for e in f.out[b0]]) if b0 in f.reach([e.dst for e in f.out[x]])} | {b0}
    lenp = [p['name'] for p in f.param_info if 'int' in p.get('t', '') and '*' not in p.get('t', '')]
    pre = [t for t in f.sites() if t.bid not in loop and b0 in f.reach([t.bid])]
    starts = [t for t in pre if (t.ev['k'] == 'store' and is_var(t.ev.get('lhs'), idxv)) or (t.ev['k'] == 'decl' and t.ev.get('var') == idxv and t.ev.get('init') is not None)]
    vals = [const_of(t.ev.get('rhs') if t.ev['k'] == 'store' else t.ev.get('init')) for t in starts]
    R.ob(rule, bool(starts) and all(v == 0 for v in vals), starts[-1] if starts else f, 'the group walk of the mask test starts at the first group on every path (index %s enters the loop as %s)' % (idxv, sorted(set(map(str, vals)))), key='mask-walk:start')
    early = [t for t in pre if t.ev['k'] == 'store' and lenp and any(is_var(t.ev.get('lhs'), p) for p in lenp)]
    R.ob(rule, not early, early[0] if early else f, 'the prefix length is not reduced before the walk', key='mask-walk:length')
    R.floor(rule, 2)


def octet_value_blind(P, R, fns, rule='C13.GRD.2'):
    """Zero is a number: no failure return of the address parsers is taken BECAUSE an accumulated octet, group or prefix
    length is 0 ("1.2.3.0", "::0", "/0" are what they say).  Accumulators are the locals built up digit by digit
    (`v = v * 10 + d`, `v = (v << 4) | d`); a rejection guarded by `v == 0` confuses "no digits" with "the digits 0"."""
    n = 0
    for f in fns:
        acc = set()
        for t in f.stores():
            if t.ev['k'] == 'store' and is_var(t.ev.get('lhs')):
                v = t.ev['lhs']['name']
                rhs = t.ev.get('rhs')
                if isinstance(rhs, dict) and any(isinstance(x, dict) and x.get('k') == 'bin' and ((x.get('op') == '*' and const_of(x.get('r')) == 10) or (x.get('op') == '<<' and const_of(x.get('r')) == 4)) and is_var(x.get('l'), v) for x in walk(rhs)):
                    acc.add(v)
        if not acc:
            continue
        for t in f.sites():
            if t.ev['k'] == 'ret' and const_of(t.ev.get('val')) == 0:
                n += 1
                bad = [g for g in f.guards(t.bid) if is_var(g[0]) and g[0]['name'] in acc and g[1] == '==' and const_of(g[2]) == 0]
                R.ob(rule, not bad, t, 'this rejection in %s does not hinge on an accumulated number being zero%s' % (f.name, '' if not bad else ' (it is taken when %s == 0)' % bad[0][0]['name']), key='zero-is-a-number:%s' % f.name)
    R.floor(rule, 6, 'failure returns of the address parsers')


def accumulators_bounded(P, R, fns, rule='C13.ARITH.2'):
    """"Every other string is rejected": a number built up digit by digit (`v = v * 10 + d`) is compared with its limit
    INSIDE the loop that builds it.  Checked only after the loop, a prefix length such as 4294967297 has wrapped around
    to 1 by then and passes; inside the loop the value never exceeds ten times the limit."""
    n = 0
    for f in fns:
        for t in f.stores():
            if not (t.ev['k'] == 'store' and is_var(t.ev.get('lhs'))):
                continue
            v = t.ev['lhs']['name']
            rhs = t.ev.get('rhs')
            if not (isinstance(rhs, dict) and any(isinstance(x, dict) and x.get('k') == 'bin' and x.get('op') == '*' and const_of(x.get('r')) == 10 and is_var(x.get('l'), v) for x in walk(rhs))):
                continue
            loop = {b for b in f.reach([e.dst for e in f.out[t.bid]]) if t.bid in f.reach([e.dst for e in f.out[b]])} | {t.bid}
            if t.bid not in f.reach([e.dst for e in f.out[t.bid]]):
                continue        # not in a loop: a single digit
            bounded = False
            for b in loop:
                for e in f.out[b]:
                    r = e.rel() if e.cond is not None and e.label not in ('case', 'default') else None
                    if r and is_var(r[0], v) and isinstance(const_of(r[2]), int) and r[1] in ('>', '>=', '<', '<='):
                        # the limit test belongs to this accumulation if no other loop step lies between: same innermost cycle
                        bounded = True
            n += 1
            R.ob(rule, bounded, t, 'in %s the number accumulated in %s is compared with its limit inside the loop that builds it' % (f.name, v), key='accumulator-bounded:%s:%s' % (f.name, v))
    R.floor(rule, 2, 'decimal accumulations in the address parsers')


def run(P, R, tier):
    fns = scope(P)
    if len(fns) < 3:
        raise AnalysisBroken('address code: expected the parser, its dotted-quad helper and the mask test, found %s' % [f.name for f in fns])
    n_idx, n_cp, n_sh = numeric_rules(P, R, fns)
    R.floor('C13.IDX.1', 8, 'subscripts of the group array in the parser and the mask test')
    R.floor('C13.IDX.2', 1, 'the embedded IPv4 copy')
    R.floor('C13.SHF.1', 3, 'octet shifts and the partial-word shift of the mask test')
    n = cursor_rules(P, R, fns)
    prefix_offsets(P, R)
    prefix_width(P, R)
    mask_walk_from_start(P, R)
    accumulators_bounded(P, R, list(fns) if not isinstance(fns, dict) else list(fns.values()))
    octet_value_blind(P, R, list(fns) if not isinstance(fns, dict) else list(fns.values()))
    hex_table(P, R)
    full_range(P, R, fns)
    # the class rule's address criterion is the mask test on the rule's own prefix length
    from . import c11
    from ..report import Remap
    m11 = c11.matcher(P, Remap(R, {'C11.GRD.2': 'C13.GRD.1', 'C11.GRD.3': 'C13.GRD.1'}))
    H11 = c11.compile_pass(P, Remap(R, {}))
    c11.field_exhaustive(P, Remap(R, {'C11.TAB.2': 'C13.TAB.6'}), H11, m11)
    helper_cursor(P, R, fns)
    helper_outputs(P, R, fns)
    optional_outputs(P, R, fns)
    prefix_reported(P, R, fns)
    R.floor('C13.INIT.2', 2, 'parser and dotted-quad helper')
    mask_forms(P, R, fns)
    from .. import rules as _rules
    _rules.no_static_locals(P, R, 'C13.WMC.1', fns, 'address code')
    _rules.narrowing_locals(P, R, 'C13.WID.1', fns)
    R.floor('C13.TAB.5', 3, 'view width, output form, pending group')
    R.floor('C13.NULL.1', 2, 'optional prefix-length outputs of the parser and its helper')
    R.floor('C13.INIT.1', 2, 'uses of the dotted-quad helper\'s output')
    R.floor('C13.CUR.2', 1, 'the dotted-quad helper called on a saved start')
    R.floor('C13.TAB.4', 4, 'full-range acceptance: embedded copy, two prefix bounds, mask residue')
    R.floor('C13.CUR.1', 2, 'the parser and its helper scan the input with an index cursor')
    # a rule without an address item has prefix length 0 ("everybody"): the table its entry lives in starts out zeroed
    from . import c11 as _c11
    _c11.zeroed_entries(P, R, P.need_fn('iauth_class_conf_changed'), 'C13.INIT.3')
    prefix_honoured(P, R)
    return EXPLANATION, ASSUMPTIONS, {'functions_analysed': [f.name for f in fns], 'subscripts': n_idx, 'block_copies': n_cp, 'shifts': n_sh, 'cursors': n}
