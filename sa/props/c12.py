"""C12 - address text round-trips for every address (partial).

Decided: the clauses visible in the printer's shape - every write through the output pointer
bounded; longest text below the documented size; the text cannot start with ':'; the zero-run
counter is reset at every non-zero group; '::' only replaces runs of two or more groups; each
optional hex digit is guarded by the threshold that matches its shift.  Not decided: that
parsing the text yields the same 128 bits - that quantifies over values."""
from ..facts import AnalysisBroken
from ..model import sx, walk, is_var, is_field, const_of, vars_in, root_var, same, on_path
from .. import rules, bnd, core

EXPLANATION = (
    'Rules over the address printer irc_ntop: (BND.1) every store through the output pointer and every '
    'formatted write matches a bounded idiom, callers pass (array, sizeof array); (BND.2) path weight: the '
    'maximum number of characters appended per iteration of the 8-group loop, with the separator excluded '
    'in the last iteration, bounds the text by 39 characters, below IRC_NTOP_MAX and the text_addr extent; '
    '(GRD.1) a dataflow over (output still empty, first iteration) shows no path stores ":" as the first '
    'character; (MPT.1) the run counter incremented for zero groups is reset to 0 on every path of the scan '
    'loop that sees a non-zero group; (GRD.2) the "::" compression branch is taken only for runs of at '
    'least two groups, so "0::" never stands for a single leading zero group; (TAB.1) each optional hex '
    'digit part>>k is printed exactly when part >= 16^(k/4), and the last digit unconditionally; (GRD.3) the '
    'dotted-quad form is used only when words 0-4 are zero and word 5 is 0 or 0xffff (no address bits are '
    'dropped); (IDX.1/SHF.1) octagon analysis of the printer: every subscript of the group array and of the hex-digit '
    'table is in range, every shift count is below the operand width and no left shift computed in int reaches the '
    'sign bit; (COPY.1) in the parser, a loop that moves groups within the address array (the "::" expansion) '
    'walks in the direction in which no group is overwritten before it is read - destination ahead of the source '
    'needs a descending walk - decided from the sign of (destination index - source index) under the invariants '
    'the octagon analysis proves (ii <= 8, cpos <= ii).  NOT '
    'decided: that the parser maps the text back to the same address (values over 2^128 inputs; the parser\'s '
    'index arithmetic needs relational invariants, see C13).'
    ' Rounds 8-9: (TAB.2) every hex digit carries its value in the character table (an initialiser that cannot be folded is analysis-broken).')
ASSUMPTIONS = ['clang 14 CFG', 'of the parser irc_pton only the direction of its overlapping group copy is decided here (its memory clause is C13)']


class _NoWord6(object):
    def __init__(self, R):
        self.R = R

    def ob(self, rule, ok, site, what, key=None, **k):
        if key == 'v4:word6':
            return True
        return self.R.ob(rule, ok, site, what, key=key, **k)

    def floor(self, rule, n, why=''):
        self.R.floor(rule, 2, why)

    def __getattr__(self, n):
        return getattr(self.R, n)


def printer(P):
    f = P.need_fn('irc_ntop')
    out = f.params[0]
    posv = None
    for s in f.stores():
        lhs = s.ev.get('lhs') or {}
        if s.ev['k'] == 'store' and lhs.get('k') == 'idx' and is_var(lhs['base'], out) and is_var(lhs['index']):
            posv = lhs['index']['name']
    if posv is None:
        raise AnalysisBroken('printer does not store through its output parameter')
    return f, out, posv


def bounded(P, R, f):
    bnd.check_scope(P, R, 'C12.BND.1', [f], floor=8)
    ext = (P.record_field(core.REQ_REC, core.addr_text_field(P)) or {}).get('array')
    R.ob('C12.BND.1', ext is not None and ext >= 40, f, 'the request\'s address text buffer has the documented size (extent %s)' % ext, key='text_addr-extent', nontrivial=False)


def loops_of(f, posv):
    """The print loop: blocks on a cycle that contain stores through output[pos]."""
    store_blocks = {s.bid for s in f.stores() if s.ev['k'] == 'store' and (s.ev['lhs'].get('k') == 'idx') and is_var(s.ev['lhs'].get('index'), posv)}
    cyc = set()
    for b in store_blocks:
        if b in f.reach([e.dst for e in f.out[b]]):
            cyc.add(b)
    return store_blocks, cyc


def path_weight(P, R, f, out, posv):
    store_blocks, cyc = loops_of(f, posv)
    # loop head: the block testing ii < 8 that dominates the cyclic store blocks
    head = None
    lv = None
    N = None
    for bid in f.reachable_blocks():
        c = f.term_cond(bid)
        if c is None:
            continue
        from ..model import rel
        l, op, rr = rel(c, True)
        if is_var(l) and op == '<' and const_of(rr) is not None and cyc and all(f.dominates(bid, b) for b in cyc) and bid in f.reach([e.dst for e in f.out[bid]]):
            if head is None or f.dominates(head, bid):
                head, lv, N = bid, l['name'], const_of(rr)
    if head is None:
        raise AnalysisBroken('print loop of the address printer not found')
    body_entry = [e.dst for e in f.out[head] if e.label == 'true'][0]
    body = f.reach([body_entry], cut_blocks=[head])

    def incs(bid):
        return sum(1 for s in f.block_sites(bid) if s.ev['k'] == 'store' and is_var(s.ev.get('lhs'), posv) and s.ev.get('op') == '++')

    # inner loops (a digit loop): their trip count is bounded by the number of values the controlling variable can
    # take at the loop test - it changes by a non-zero constant each round, so no value repeats - taken from the
    # numeric analysis (interval and congruence class)
    from .. import numeric
    trips = {}
    trip_blocks = {}
    an = None
    for hb in body:
        if hb not in f.reach([e.dst for e in f.out[hb] if e.dst in body], cut_blocks=[head]):
            continue
        c = f.term_cond(hb)
        if c is None:
            continue
        from ..model import rel as _rel
        r0 = _rel(c, True)
        vs = [v for v in vars_in(r0[0])] if isinstance(r0[0], dict) else []
        if len(vs) != 1:
            continue
        v = vs[0]
        loopb = {x for x in f.reach([hb], cut_blocks=[head]) if hb in f.reach([x], cut_blocks=[head])}
        steps = [t for t in f.stores() if t.bid in loopb and t.ev['k'] == 'store' and is_var(t.ev.get('lhs'), v)]
        if not steps or not all(t.ev.get('op') in ('++', '--') or (t.ev.get('op') in ('+=', '-=') and const_of(t.ev.get('rhs')) not in (None, 0)) for t in steps) \
                or len({(t.ev.get('op') in ('++', '+=')) for t in steps}) != 1:
            continue
        if an is None:
            an = numeric.Analysis(f)
        te = [e for e in f.out[hb] if e.label == 'true']
        if not te:
            continue
        lo = hi = None
        for o in an.block_in.get(te[0].dst, []):
            if v in o.ix:
                a, b2 = o.bounds(v)
                lo = a if lo is None else min(lo, a)
                hi = b2 if hi is None else max(hi, b2)
        if lo is None or numeric.INF in (hi, -lo if lo is not None else 0) or lo == -numeric.INF:
            continue
        k, r = an.cong.get(v, (1, 0))
        cnt = len([x for x in range(int(lo), int(hi) + 1) if (x - r) % k == 0])
        if cnt <= 64:
            trips[hb] = cnt
            trip_blocks[hb] = loopb

    def longest(last_iter):
        import functools
        memo = {}

        def go(b, stack):
            if b == head:
                return 0
            if b in stack and b in trips:
                # bounded inner loop: allow as many passes through its head as it has admissible values
                if sum(1 for x in stack_list[0] if x == b) > trips[b]:
                    return -10 ** 6          # infeasible continuation
                stack = stack - trip_blocks[b]
            elif b in stack:
                return 10 ** 6      # inner cycle: unbounded
            if b in memo and not trips:
                return memo[b]
            best = 0
            outs = f.out[b]
            if not outs:
                best = 0
            for e in outs:
                if e.dst not in body and e.dst != head:
                    continue
                if last_iter:
                    r = rules.edge_rel(e)
                    if r and is_var(r[0], lv) and r[1] == '<' and const_of(r[2]) is not None and const_of(r[2]) <= N - 1:
                        continue     # needs ii < N-1: impossible in the last iteration
                stack_list[0].append(b)
                best = max(best, go(e.dst, stack | {b}))
                stack_list[0].pop()
            memo[b] = incs(b) + best
            return memo[b]
        stack_list = [[]]
        return go(body_entry, frozenset())
    w, wl = longest(False), longest(True)
    total = (N - 1) * w + wl
    ext = (P.record_field(core.REQ_REC, core.addr_text_field(P)) or {}).get('array') or 0
    R.ob('C12.BND.2', total < 10 ** 5 and total + 1 <= ext, f,
         'at most %d characters per group iteration (%d in the last of %d): the text has at most %d characters and fits the %d-byte buffer with its terminator'
         % (w, wl, N, total, ext), key='path-weight')
    # every character goes through pos++ (no other advance of the position)
    others = [s for s in f.stores() if s.ev['k'] == 'store' and is_var(s.ev.get('lhs'), posv) and s.ev.get('op') not in ('++', '=')]
    R.ob('C12.BND.2', not [s for s in others if s.bid in body], f, 'the position only advances by one per character inside the loop', key='pos-step', nontrivial=False)
    R.floor('C12.BND.2', 2)
    return head, lv, N, body


def final(e):
    while isinstance(e, dict) and e.get('k') == 'bin' and e['op'] == '=':
        e = e['r']
    return e


def first_char(P, R, f, out, posv, lv):
    def on_event(st, s):
        if st[0] == 'VIOLATION':
            return st
        empty, first = st
        ev = s.ev
        if ev['k'] == 'store':
            lhs = ev['lhs']
            if is_var(lhs, posv):
                # the text is empty exactly while the position is 0 (a character counts even when the
                # buffer is too short to hold it)
                if ev.get('op') == '=' and const_of(ev.get('rhs')) == 0:
                    empty = True
                else:
                    empty = False
            if is_var(lhs, lv):
                if ev.get('op') == '=' and const_of(final(ev.get('rhs'))) == 0:
                    first = True
                else:
                    first = False
            if lhs.get('k') == 'idx' and is_var(lhs['base'], out) and is_var(lhs['index'], posv):
                if empty and const_of(ev.get('rhs')) == ord(':'):
                    return ('VIOLATION', s.loc)
        return (empty, first)

    def on_edge(st, e):
        if st[0] == 'VIOLATION':
            return st
        empty, first = st
        r = rules.edge_rel(e)
        if r and is_var(r[0], lv) and const_of(r[2]) == 0:
            if r[1] == '==' and not first and first is not None:
                return None
            if r[1] == '!=' and first:
                return None
        return (empty, first)
    before, at_exit, sin, bout = f.forward((False, None), on_event, on_edge)
    bad = set()
    for sts in list(bout.values()) + [at_exit]:
        for st in sts:
            if st[0] == 'VIOLATION':
                bad.add(st[1])
    R.ob('C12.GRD.1', not bad, f, 'no path stores ":" as the first character of the text%s' % ((' (at %s)' % sorted(bad)) if bad else ''), key='first-char')
    R.floor('C12.GRD.1', 1)


def run_counter(P, R, f):
    # the scan loop: a counter incremented under the zero test of a group
    incs = []
    for s in f.stores():
        if s.ev['k'] == 'store' and s.ev.get('op') == '++' and is_var(s.ev.get('lhs')):
            gs = f.guards(s.bid)
            if any(isinstance(g[0], dict) and g[0].get('k') == 'idx' and on_path(g[0], 'in6') and not const_of(g[0]['index']) is not None and g[1] == '==' and const_of(g[2]) == 0 for g in gs):
                incs.append(s)
    R.ob('C12.MPT.1', len(incs) == 1, incs[0] if incs else f, 'the scan counts consecutive zero groups in one counter', key='counter')
    for s in incs:
        cv = s.ev['lhs']['name']
        # the non-zero edge of the same test
        for bid in f.reachable_blocks():
            for e in f.out[bid]:
                r = rules.edge_rel(e)
                if r and isinstance(r[0], dict) and r[0].get('k') == 'idx' and on_path(r[0], 'in6') and const_of(r[0]['index']) is None and r[1] == '!=' and const_of(r[2]) == 0 \
                        and any(x.dst == s.bid or f.dominates(x.dst, s.bid) for x in f.out[bid] if x is not e):
                    # every path from here to the loop's next iteration resets the counter
                    def resets(t, cv=cv):
                        return t.ev['k'] == 'store' and is_var(t.ev.get('lhs'), cv) and t.ev.get('op') == '=' and const_of(t.ev.get('rhs')) == 0
                    first = f.block_sites(e.dst)
                    p = f.path_from_block(e.dst, resets, target=bid)
                    ok = p is None
                    R.ob('C12.MPT.1', ok, first[0] if first else f, 'the zero-run counter is reset on every path that sees a non-zero group', key='reset')
    R.floor('C12.MPT.1', 2)


def compression(P, R, f, out, posv, lv, body):
    # the compression branch: loop variable advanced by run - 1
    adv = [s for s in f.stores() if s.ev['k'] == 'store' and is_var(s.ev.get('lhs'), lv) and s.ev.get('op') == '+=' and s.bid in body]
    R.ob('C12.GRD.2', len(adv) == 1, adv[0] if adv else f, 'the printer has one "::" compression branch', key='branch')
    for s in adv:
        rv = sorted(vars_in(s.ev.get('rhs')))
        run = rv[0] if rv else None
        ok = any(is_var(g[0], run) and ((g[1] == '>' and const_of(g[2]) >= 1) or (g[1] == '>=' and const_of(g[2]) >= 2)) for g in f.guards(s.bid))
        R.ob('C12.GRD.2', ok, s, '"::" replaces only runs of at least two zero groups (run length %s): a lone leading zero group must not become "0::"' % run, key='run>=2')
        # total advance over the compressed groups = the run length: `lv += run - 1` and then the loop's own step, or
        # `lv += run` with no step on the way back to the loop test
        rhs = s.ev['rhs']
        k = 0 if is_var(rhs, run) else (-const_of(rhs.get('r')) if rhs.get('k') == 'bin' and rhs.get('op') == '-' and is_var(rhs.get('l'), run) and isinstance(const_of(rhs.get('r')), int) else
                                        const_of(rhs.get('r')) if rhs.get('k') == 'bin' and rhs.get('op') == '+' and is_var(rhs.get('l'), run) and isinstance(const_of(rhs.get('r')), int) else None)
        heads = [b for b in f.blocks if f.term_cond(b) is not None and any(is_var(x, lv) for x in walk(f.term_cond(b))) and b in f.reach([s.bid]) and s.bid in f.reach([b])
                 and any(e.dst not in f.reach([s.bid]) or s.bid not in f.reach([e.dst]) for e in f.out[b])]
        okc = False
        if k is not None and heads:
            counts = set()
            work = [(s.bid, s.idx + 1, 0)]
            seen = set()
            while work:
                b, i0, cnt = work.pop()
                if (b, i0, cnt) in seen or cnt > 3:
                    continue
                seen.add((b, i0, cnt))
                for t in f.block_sites(b)[i0:]:
                    if t.ev['k'] == 'store' and is_var(t.ev.get('lhs'), lv):
                        cnt += 1 if t.ev.get('op') == '++' else 9
                for e in f.out[b]:
                    if e.dst in heads:
                        counts.add(cnt)
                    else:
                        work.append((e.dst, 0, cnt))
            okc = counts == {-k}
        R.ob('C12.GRD.2', okc, s, 'the compressed groups are skipped exactly (advance by run - 1 plus the loop step)', key='skip')
        pos_ok = any(is_var(g[0], lv) and g[1] == '==' and is_var(g[2]) for g in f.guards(s.bid))
        R.ob('C12.GRD.2', pos_ok, s, 'compression happens at the start of the longest run', key='at-start', nontrivial=False)
        # the run that was recorded lies inside the address: start + length <= number of groups (relational; fails when
        # the start of the longest run is accumulated instead of assigned, or recorded from a stale counter)
        starts = [g[2]['name'] for g in f.guards(s.bid) if is_var(g[0], lv) and g[1] == '==' and is_var(g[2])]
        if starts and run:
            from .. import numeric
            an = numeric.Analysis(f)
            ub = None
            for o in an.at(s):
                b = o.bound_terms({starts[0]: 1, run: 1})
                ub = b if ub is None else max(ub, b)
            ngroups = 8
            for x in (y for t in f.sites() for ex in rules.event_exprs(t.ev) for y in walk(ex)):
                if x.get('k') == 'mem' and x.get('field') == 'in6' and isinstance(x.get('arr'), int):
                    ngroups = x['arr']
            R.ob('C12.GRD.2', ub is not None and ub <= ngroups, s, 'the recorded run lies inside the address: %s + %s <= %d (inferred upper bound %s)' % (starts[0], run, ngroups, ub), key='run-inside')
    R.floor('C12.GRD.2', 3)


def digit_thresholds(P, R, f, out, posv):
    """TAB.1: leading zero digits are suppressed exactly: the digit at bit offset k of a group is printed when the
    group's value reaches 2^k - written as `part >= (1 << k)` or as `(part >> k) != 0`, k a constant or the loop
    variable of a digit loop - and the lowest digit always."""
    n = 0
    uncond = 0
    looped = False
    for s in f.stores():
        if s.ev['k'] != 'store' or s.ev['lhs'].get('k') != 'idx' or not is_var(s.ev['lhs']['base'], out):
            continue
        rhs = s.ev.get('rhs') or {}
        if rhs.get('k') != 'idx' or not is_var(rhs['base']) or 'hex' not in rhs['base']['name']:
            continue
        ix = rhs['index']
        shift_e = None
        pv = None
        for x in walk(ix):
            if x.get('k') == 'bin' and x['op'] == '>>' and is_var(x['l']):
                shift_e, pv = x['r'], x['l']['name']
            if x.get('k') == 'bin' and x['op'] == '&' and is_var(x['l']):
                pv = pv or x['l']['name']
        gs = f.guards(s.bid)
        if shift_e is None:
            uncond += 1
            lows = [g for g in gs if is_var(g[0], pv) and const_of(g[2]) is not None and g[1] in ('>=', '>')]
            R.ob('C12.TAB.1', not lows, s, 'the last hex digit of a group is always printed', key='digit:0')
            continue
        n += 1
        k = const_of(shift_e)
        ok = False
        found = []
        for g in gs:
            l, op, rr = g
            c = const_of(rr)
            if is_var(l, pv) and isinstance(c, int) and op in ('>=', '>') and isinstance(k, int):
                low = c if op == '>=' else c + 1
                found.append(hex(low))
                ok = ok or low == (1 << k)
            if isinstance(l, dict) and l.get('k') == 'bin' and l.get('op') == '>>' and is_var(l.get('l'), pv) and ((op == '!=' and c == 0) or (op == '>' and c == 0) or (op == '>=' and c == 1)):
                found.append('(%s >> %s) != 0' % (pv, sx(l['r'])))
                ok = ok or same(l['r'], shift_e)
        if not isinstance(k, int):
            looped = True
        R.ob('C12.TAB.1', ok, s, 'the digit %s >> %s is printed exactly when %s reaches 2^%s (guards found: %s)' % (pv, sx(shift_e), pv, sx(shift_e), found), key='digit:%s' % sx(shift_e))
    R.ob('C12.TAB.1', uncond == 1 and (n == 3 or (looped and n >= 1)), f, 'a group prints up to four digits (found %d optional site(s)%s, %d unconditional)' % (n, ' in a digit loop' if looped else '', uncond), key='digits', nontrivial=False)
    R.floor('C12.TAB.1', 3)


class _Sym(object):
    """plain symbolic linear form over variable names (mathematical integers)"""
    def __init__(self, t=None, c=0):
        self.t = {k: v for k, v in (t or {}).items() if v}
        self.c = c

    def add(self, o, s=1):
        t = dict(self.t)
        for k, v in o.t.items():
            t[k] = t.get(k, 0) + s * v
        return _Sym(t, self.c + s * o.c)


def _sym(e):
    if not isinstance(e, dict):
        return None
    c = const_of(e)
    if isinstance(c, int):
        return _Sym({}, c)
    k = e.get('k')
    if k == 'var':
        return _Sym({e['name']: 1}, 0)
    if k == 'un' and e.get('op') in ('++', '--') and is_var(e.get('e')):
        return _Sym({e['e']['name']: 1}, (-1 if e['op'] == '++' else 1) if e.get('postfix') else 0)
    if k == 'un' and e.get('op') == '-':
        a = _sym(e['e'])
        return _Sym({v: -x for v, x in a.t.items()}, -a.c) if a else None
    if k == 'bin' and e.get('op') in ('+', '-'):
        a, b = _sym(e['l']), _sym(e['r'])
        if a is None or b is None:
            return None
        return a.add(b, 1 if e['op'] == '+' else -1)
    if k == 'bin' and e.get('op') == '*':
        a, b = _sym(e['l']), _sym(e['r'])
        if a is None or b is None:
            return None
        if not a.t:
            return _Sym({v: x * a.c for v, x in b.t.items()}, a.c * b.c)
        if not b.t:
            return _Sym({v: x * b.c for v, x in a.t.items()}, a.c * b.c)
    return None


def copy_direction(P, R, f, rule='C12.COPY.1'):
    """Loops of the form A[f(j)] = A[g(j)] over one array: the walk must not overwrite what it still has to read."""
    from .. import numeric
    an = None
    n = 0
    for s in f.stores():
        ev = s.ev
        if ev['k'] != 'store' or ev.get('op') != '=':
            continue
        lhs, rhs = ev.get('lhs') or {}, ev.get('rhs') or {}
        if lhs.get('k') != 'idx' or rhs.get('k') != 'idx' or not same(lhs['base'], rhs['base']) or not isinstance(lhs['base'].get('arr'), int):
            continue
        fi = _sym(f.expand_local(lhs['index'], s))
        gi = _sym(f.expand_local(rhs['index'], s))
        if fi is None or gi is None:
            continue
        # induction variable: stepped by ++/-- in a block on a cycle through this store
        cyc = f.reach([s.bid])
        steps = {}
        for t in f.stores():
            if t.ev['k'] == 'store' and is_var(t.ev.get('lhs')) and t.ev.get('op') in ('++', '--') and t.bid in cyc and s.bid in f.reach([t.bid]):
                steps.setdefault(t.ev['lhs']['name'], set()).add(1 if t.ev['op'] == '++' else -1)
        ind = [v for v in steps if fi.t.get(v) and gi.t.get(v) and len(steps[v]) == 1]
        if len(ind) != 1:
            continue
        j = ind[0]
        if fi.t[j] != gi.t[j] or abs(fi.t[j]) != 1:
            continue
        n += 1
        direction = fi.t[j] * list(steps[j])[0]          # +1: destination index ascends from one iteration to the next
        d = fi.add(gi, -1)                                   # destination - source, free of j
        if an is None:
            an = numeric.Analysis(f)
        sts = an.at(s)
        lo = hi = None
        if sts and all(v in an.vs_set for v in d.t):
            hi = max(o.bound_terms(d.t) + d.c for o in sts)
            lo = min(-(o.bound_terms({v: -a for v, a in d.t.items()})) + d.c for o in sts)
        dtxt = ' + '.join(['%s*%s' % (a, v) for v, a in sorted(d.t.items())] + [str(d.c)])
        if lo is None:
            R.ob(rule, True, s, 'group move %s = %s: the distance (%s) involves values the analysis does not track; direction not judged' % (sx(lhs), sx(rhs), dtxt),
                 key='copydir:%s:untracked' % f.name, nontrivial=False)
            continue
        if lo >= 0 and hi > 0:
            ok = direction < 0
            want = 'descending'
        elif hi <= 0 and lo < 0:
            ok = direction > 0
            want = 'ascending'
        else:
            ok, want = True, 'either (the sign of the distance is not fixed)'
        R.ob(rule, ok, s, 'group move %s = %s: destination - source = %s in [%s, %s], so the walk must be %s; it is %s in %s' %
             (sx(lhs), sx(rhs), dtxt, lo, hi, want, 'ascending' if direction > 0 else 'descending', j), key='copydir:%s' % f.name)
    return n


def run(P, R, tier):
    from ..report import Remap
    from . import c09
    # word 6 non-zero is an addressing clause (C09); losing words 0-4 or 5 loses address bits
    # (the word-6 clause too: `::1` printed as 0.0.0.1 reads back as ::ffff:0.0.0.1, another address)
    c09.dotted_quad_guard(P, Remap(R, {'C09.GRD.2': 'C12.GRD.3'}))
    f, out, posv = printer(P)
    bounded(P, R, f)
    head, lv, N, body = path_weight(P, R, f, out, posv)
    first_char(P, R, f, out, posv, lv)
    run_counter(P, R, f)
    compression(P, R, f, out, posv, lv, body)
    digit_thresholds(P, R, f, out, posv)
    from . import c13
    c13.numeric_rules(P, R, [f], prefix='C12')
    R.floor('C12.IDX.1', 4, 'group and hex-digit subscripts of the printer')
    R.floor('C12.SHF.1', 4, 'digit shifts of the printer')
    parser_rules(P, R)
    # the daemon reads its own output back: an address whose last octet or group is 0 is printed with that 0, and the
    # parsers must take a 0 for a number
    from . import c13 as _c13
    _fns = _c13.scope(P)
    _c13.octet_value_blind(P, R, list(_fns) if not isinstance(_fns, dict) else list(_fns.values()), 'C12.GRD.5')
    # the text is read back through the character table: every hex digit carries its own value there
    from . import c13 as _c13h
    _c13h.hex_table(P, R, 'C12.TAB.2')
    return EXPLANATION, ASSUMPTIONS


def parser_rules(P, R):
    from . import c13
    pf = P.need_fn('irc_pton')
    n = copy_direction(P, R, pf)
    if n == 0:
        # the expansion may have been rewritten with memmove (direction-safe by contract); then there is nothing to judge
        mm = [c for g in c13.scope(P) for c in g.calls('memmove')]
        R.ob('C12.COPY.1', bool(mm), pf, 'the "::" expansion moves the groups either with an index loop (direction judged) or with memmove (safe for overlap)', key='copydir:none', nontrivial=False)
    R.floor('C12.COPY.1', 1)
    expansion_total(P, R, pf)
    expansion_count(P, R, pf)
    c13.full_range(P, R, [pf], 'C12.TAB.2', parts=('fullform',))
    R.floor('C12.TAB.2', 1)
    rules.no_static_locals(P, R, 'C12.WMC.1', c13.scope(P) + [P.need_fn('irc_ntop')], 'address parser and printer')
    mapped_form(P, R, pf)
    syntax_only(P, R, pf)


def syntax_only(P, R, pf, rule='C12.GRD.4'):
    """The parser accepts every text the printer produces: a text is refused for its syntax, never for the value it
    denotes - no failing return of the parser is control-dependent on the address words it has just stored (the
    all-zero and all-ones addresses are printable, hence parsable)."""
    addrp = pf.params[0]
    n = 0
    for s in pf.sites():
        if s.ev['k'] != 'ret' or const_of(s.ev.get('val')) != 0:
            continue
        n += 1
        byval = [g for g in pf.guards(s.bid) if any(x.get('k') == 'mem' and x.get('field', '').startswith('in6') and root_var(x) is not None and root_var(x)['name'] == addrp for x in walk(g[0]))]
        R.ob(rule, not byval, s, 'this refusal does not depend on the value parsed%s' % ((' (guarded by %s %s %s)' % (sx(byval[0][0]), byval[0][1], sx(byval[0][2]))) if byval else ''), key='syntax-only')
    # ... nor on WHICH decimal digit a component starts or continues with: digits are handled alike (case labels, isdigit);
    # a refusal keyed on one particular digit (a leading '0', say) refuses texts the printer produces (0.1.2.3)
    from . import c13
    for f in c13.scope(P):
        for b in f.blocks:
            for e in f.out[b]:
                if e.label not in ('true', 'false') or e.cond is None:
                    continue
                r = e.rel()
                if not r or r[1] != '==' or not isinstance(const_of(r[2]), int) or not (48 <= const_of(r[2]) <= 57) or (r[2] or {}).get('k') not in ('chr', 'int'):
                    continue
                if not any(x.get('k') in ('idx', 'un') and any(is_var(y) and 'char' in y.get('t', '') and '*' in y.get('t', '') for y in walk(x)) for x in walk(r[0])):
                    continue
                d = e.dst
                hops = 0
                while hops < 4 and not f.block_sites(d) and len(f.out[d]) == 1:
                    d = f.out[d][0].dst
                    hops += 1
                refuses = c13._ret0_block(f, d)
                n += 1
                R.ob(rule, not refuses, P.relloc(f.blocks[b]['term'].get('loc')) if (f.blocks[b].get('term') or {}).get('loc') else f,
                     'no refusal of %s is keyed on one particular decimal digit (%s == %r)' % (f.name, sx(r[0]), chr(const_of(r[2]))), key='digit-blind:%s' % f.name)
    R.floor(rule, 5, 'failing returns of the parser')


def expansion_total(P, R, pf, rule='C12.MPT.2'):
    """Once the groups are parsed, the "::" expansion cannot fail: the block guarded by "a :: was seen" has no
    exit of its own (the printer emits "::" for runs at either end, which fill all eight slots before expansion)."""
    n = 0
    for s in pf.stores():
        ev = s.ev
        lhs, rhs = ev.get('lhs') or {}, ev.get('rhs') or {}
        if ev['k'] != 'store' or lhs.get('k') != 'idx' or rhs.get('k') != 'idx' or not same(lhs['base'], rhs['base']):
            continue
        # the innermost branch that decides whether the expansion runs at all: the last dominating edge outside the loop
        des = [e for e in pf.dominating_edges(s.bid) if e.label in ('true', 'false') and e.cond is not None and not (e.src in pf.reach([s.bid]))]
        if not des:
            continue
        e = min(des, key=lambda x: len(pf.reach([x.dst])))      # the closest one
        other = [x.dst for x in pf.out[e.src] if x is not e]
        region = pf.reach([e.dst], cut_blocks=set(other))
        rets = [t for t in pf.sites() if t.ev['k'] == 'ret' and t.bid in region and t.bid not in pf.reach(other)]
        n += 1
        R.ob(rule, not rets, rets[0] if rets else s, 'the "::" expansion (entered on %s) runs to its end: no return inside it%s' %
             (e.describe(), (' (found `return %s`)' % sx(rets[0].ev.get('val'))) if rets else ''), key='expansion-exit')
    if n == 0:
        R.ob(rule, True, pf, 'no index-loop expansion to judge (memmove form)', key='expansion-none', nontrivial=False)
    R.floor(rule, 1)


def expansion_count(P, R, pf, rule='C12.MPT.4'):
    """The "::" stands for exactly the groups that were not written: when the loop that zero-fills the gap is left,
    groups written + groups zeroed = the length of the group array.  Decided relationally (octagon constraint
    counter + filled == extent at the loop's exit edge); a fill that stops short leaves a stale group in the address."""
    from .. import numeric
    n = 0
    an = None
    for s in pf.stores():
        ev = s.ev
        lhs = ev.get('lhs') or {}
        if not (ev['k'] == 'store' and ev.get('op') == '=' and lhs.get('k') == 'idx' and isinstance((lhs.get('base') or {}).get('arr'), int) and const_of(ev.get('rhs')) == 0 and vars_in(lhs['index'])):
            continue
        heads = [e.src for e in pf.dominating_edges(s.bid) if e.src in pf.reach([s.bid]) and e.cond is not None]
        if not heads:
            continue
        H = heads[-1]
        steps = [t for t in pf.stores() if t.ev['k'] == 'store' and is_var(t.ev.get('lhs')) and t.ev.get('op') in ('++', '+=') and t.bid in pf.reach([s.bid]) and H in pf.reach([t.bid])
                 and t.ev['lhs']['name'] in vars_in(lhs['index'])]
        if len({t.ev['lhs']['name'] for t in steps}) != 1:
            continue
        jj = steps[0].ev['lhs']['name']
        # the group counter: the variable that subscripts the array with a post-increment when a group is stored
        cnts = set()
        for t in pf.stores():
            l2 = t.ev.get('lhs') or {}
            ix = l2.get('index') if l2.get('k') == 'idx' and same(l2.get('base'), lhs['base']) else None
            if isinstance(ix, dict) and ix.get('k') == 'un' and ix.get('op') == '++' and is_var(ix.get('e')):
                cnts.add(ix['e']['name'])
        if len(cnts) != 1:
            R.note('%s: no single group counter found for the zero-fill at %s; not judged' % (rule, s.loc))
            continue
        ii = list(cnts)[0]
        ext = lhs['base']['arr']
        an = an or numeric.Analysis(pf)
        lo, hi = None, None
        for e in pf.out[H]:
            if s.bid in pf.reach([e.dst], cut_blocks={H}):
                continue
            for o in an.at_term(H):
                for o2 in an._edge(o.copy(), e):
                    o2.close()
                    if o2.is_empty():
                        continue
                    a, b = -o2.bound_terms({ii: -1, jj: -1}), o2.bound_terms({ii: 1, jj: 1})
                    lo = a if lo is None else min(lo, a)
                    hi = b if hi is None else max(hi, b)
        n += 1
        R.ob(rule, lo == ext and hi == ext, s, 'when the zero-fill loop is left, groups written (%s) + groups zeroed (%s) = %d: inferred [%s, %s]' % (ii, jj, ext, lo, hi), key='expansion-count')
    if n == 0:
        R.ob(rule, True, pf, 'no index-loop zero fill to judge (block form)', key='expansion-count-none', nontrivial=False)
    R.floor(rule, 1)


def mapped_form(P, R, pf, rule='C12.MPT.3'):
    """A plain dotted quad always yields the IPv4-mapped form: the stores of 0xffff into group 5 and of the two
    halves into groups 6 and 7 happen under the same conditions (the statement: IPv4 forms canonicalise to mapped)."""
    by_ix = {}
    for s in pf.stores():
        lhs = s.ev.get('lhs') or {}
        if s.ev['k'] == 'store' and lhs.get('k') == 'idx' and isinstance(lhs['base'].get('arr'), int) and const_of(lhs['index']) in (5, 6, 7) and s.ev.get('op') == '=':
            by_ix.setdefault(const_of(lhs['index']), []).append(s)
    if not all(k in by_ix for k in (5, 6, 7)):
        raise AnalysisBroken('the dotted-quad branch of irc_pton no longer stores groups 5, 6 and 7 by constant index')
    def conds(t):
        return sorted('%s %s %s' % (sx(g[0]), g[1], sx(g[2])) for g in pf.guards(t.bid))
    ref = conds(by_ix[6][0])
    for k in (5, 7):
        t = by_ix[k][0]
        c = conds(t)
        R.ob(rule, c == ref, t, 'group %d of a dotted quad is stored under exactly the conditions under which group 6 is (extra: %s, missing: %s)' %
             (k, [x for x in c if x not in ref], [x for x in ref if x not in c]), key='mapped:%d' % k)
    v5 = by_ix[5][0].ev.get('rhs') or {}
    c5 = [const_of(a) for a in (v5.get('args') or [])] if v5.get('k') == 'callref' else [const_of(v5)]
    R.ob(rule, 65535 in c5, by_ix[5][0], 'group 5 is set to 0xffff (value %s)' % sx(v5), key='mapped:ffff')
    R.floor(rule, 3)

